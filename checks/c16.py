"""C16 -- trimming keeps exactly what kept services need; meaning is unchanged.

Spec: spec/Trim/Trim.tla (graph model + layer A, the predicate Allowed), spec/Trim/TrimImpl.tla (layer B,
transcription of markAST / markService / traceExtendMethod / markType / markKeptPart / preProcess / traversal),
spec/Trim/MC_Trim.tla (bounded universe, B => A, case export), spec/Trim/Trace_Trim.tla (validation of what the
real code did against layer A).
Flow: TLC enumerates programs x trimmer arguments and evaluates B => A for each -> every case is rendered and run
through the real trim.TrimAST in-process (harness `inproc trim`: kept definitions / functions / includes per file,
reference integrity of the trimmed AST, dump -> parse -> check -> resolve, second trim) -> TLC validates every
observation against layer A.  A subset is run through the `trimmer -r` binary (files written -> re-parsed) and through
`thriftgo -g go:trim_idl` (generated code compiles, generated types = kept types, write traces of kept types equal
those of the untrimmed program).
"""
import concurrent.futures
import json
import os
import random
import re
import shutil
import subprocess

import c16_graph as cg
import vlib

LEVEL = "model_checking"

REGISTRY = dict(
    level="model_checking",
    text="The trimmer is specified twice in TLA+: layer A states which results the property allows for a program graph "
         "(reachability closure from kept methods, constants, typedefs, enums, preserved structs; minimality; include "
         "rules; well-formedness; idempotence), layer B transcribes the mark/sweep algorithm. TLC enumerates the bounded "
         "universe of multi-file programs x trimmer arguments, checks B => A, and every case is replayed into the real "
         "trim.TrimAST (and subsets into the trimmer binary and thriftgo trim_idl); TLC validates each observed result "
         "against layer A.",
    design_ref="DESIGN.md 6 C16",
    note="Trusted: TLC, lib/c16_graph.py (graph -> IDL text, observation -> result), harness/cmd/inproc/trim.go, "
         "parser + semantic packages for re-parsing. Bounded: <= 4 files, <= 3 services, <= 3 slots (struct-likes / enums "
         "each used through one edge kind), patterns exact / unqualified / three regexp forms.",
    technique="TLA+ graph model; refinement B => A by TLC; TLC-generated cases replayed in-process and through the binaries; "
              "TLC validation of observed results against layer A")

CFG = """SPECIFICATION Spec
CONSTANTS
  Universes <- %(universes)s
  Fixes = %(fixes)s
INVARIANTS Emit
CHECK_DEADLOCK FALSE
"""

# the universes are defined in spec/Trim/MC_Trim.tla (cQuick, cThorough): one TLC run per tier
TIERS = {"quick": os.environ.get("C16_UNIVERSE", "cQuick"), "thorough": "cThorough"}


# ------------------------------------------------------------------ generation
def generate(ctx, fixes):
    fx = "{" + ", ".join('"%s"' % f for f in fixes) + "}"
    r = ctx.tlc("Trim", "MC_Trim", "gen.cfg", files={"gen.cfg": CFG % dict(universes=TIERS[ctx.tier], fixes=fx)},
                timeout=6000, label="MC_Trim[%s]" % TIERS[ctx.tier])
    progs = ctx.tlc_cases(r)
    if not progs:
        raise vlib.MachineryError("TLC emitted no programs")
    r["out"] = ""
    r["lines"] = []
    # the same program can be reached in two universes: keep one
    seen = {}
    for p in progs:
        key = json.dumps(p["G"], sort_keys=True)
        if key not in seen:
            seen[key] = p
        else:
            have = {json.dumps(c["ar"], sort_keys=True) for c in seen[key]["cases"]}
            for c in p["cases"]:
                if json.dumps(c["ar"], sort_keys=True) not in have:
                    seen[key]["cases"].append(c)
    progs = list(seen.values())
    for p in progs:
        p["cases"].sort(key=lambda c: json.dumps(c["ar"], sort_keys=True))
    progs.sort(key=lambda p: json.dumps(p["G"], sort_keys=True))
    return progs


def filter_kind(ar):
    if not ar["pats"]:
        return "nofilter"
    return "+".join(p["q"] for p in ar["pats"])


def pres_kind(ar):
    s = ar["preserve"]
    if ar["plist"]:
        s += "+list"
    if ar["nocomment"]:
        s += "+nocomment"
    if ar.get("yaml"):
        s += "+yaml"
    return s


def slot_sig(p):
    out = []
    for sl in p["slots"]:
        u = sl["u"]
        uc = u["c"] + (":" + u["pos"] if u["c"] == "fn" else "")
        if u["c"] == "fn":
            uc += "@S%d" % u["s"]
        out.append("%s/%s/%s/%s/f%d%s%s" % (uc, sl["w"], sl["via"], sl["k"], sl["f"], "/pres" if sl["pres"] == "c" else "",
                                            "/dflt" if sl.get("dv") else ""))
    return ",".join(out)


def prog_class(p):
    G = p["G"]
    files = [d["f"] for d in G["defs"] if d["k"] == "service"]
    return "%s/%s%s/fill=%s" % (p["topo"], p["lay"], "".join(str(f) for f in files), "".join(p["fill"]))


def index_shift(p, c):
    """layer B's result for this case renumbers the includes of a file other than the root (an include is dropped
    in front of one that stays) while the root file loses nothing, and no method filter is set: re-resolution has to
    reach below an untouched root"""
    G, b = p["G"], c["b"]
    if c["ar"]["pats"] or not b.get("ok"):
        return False
    inc = {tuple(e) for e in b["inc"]}
    kept = set(b["kept"])
    if any(d["k"] != "dead" and d["f"] == 1 and (i + 1) not in kept for i, d in enumerate(G["defs"])):
        return False
    if any((1, g) not in inc for g in G["inc"][0]):
        return False
    def trefs(t):
        if t["n"] == "r":
            return {t["d"]}
        out = set()
        for k in ("k", "v"):
            if k in t and isinstance(t[k], dict):
                out |= trefs(t[k])
        return out
    for f in range(2, len(G["inc"]) + 1):
        lst = G["inc"][f - 1]
        flags = [(f, g) in inc for g in lst]
        shifted = {lst[j] for i in range(len(lst)) if not flags[i] for j in range(i + 1, len(lst)) if flags[j]}
        if not shifted:
            continue
        # something kept in f refers into an include whose index moved
        for i, d in enumerate(G["defs"]):
            if d["k"] == "dead" or d["f"] != f or (i + 1) not in kept:
                continue
            refs = set(d["cv"]) | ({d["ext"]} if d["ext"] else set())
            for t in d["ty"]:
                refs |= trefs(t)
            for fn in d["fns"]:
                for t in fn["a"] + fn["r"] + fn["t"]:
                    refs |= trefs(t)
            if any(G["defs"][r - 1]["f"] in shifted for r in refs):
                return True
    return False


def vacuity(progs):
    need = {
        "a struct-like reachable only through a typedef of an included file": False,
        "a base service in an included file": False,
        "a preserved struct-like in an included file": False,
        "a struct-like nobody uses": False,
        "a filter that selects an inherited method": False,
        "a container element use": False,
        "a diamond include": False,
        "a function whose name extends the name of another one": False,
        "a file below an untouched root whose includes are renumbered": False,
        "B => A counterexample or none (flag present)": False,
        "a run that clears an `extends`": False,
        "a run that drops an include": False,
        "a run that removes a struct-like": False,
        "a run that keeps a struct-like only because it is preserved": False,
        "a run in which a filter removes a function": False,
        "a run that keeps a service without functions": False,
    }
    for p in progs:
        G = p["G"]
        if p["topo"] in ("dia", "dia4"):
            need["a diamond include"] = True
        for sl in p["slots"]:
            if sl["via"] in ("tr", "tm") and sl["u"]["c"] == "fn":
                need["a struct-like reachable only through a typedef of an included file"] = True
            if sl["pres"] == "c" and sl["f"] != 1:
                need["a preserved struct-like in an included file"] = True
            if sl["u"]["c"] == "none" and sl["via"] == "d":
                need["a struct-like nobody uses"] = True
            if sl["w"] in ("l", "s", "mk", "mv"):
                need["a container element use"] = True
        for d in G["defs"]:
            if d["k"] == "service" and d["ext"] and G["defs"][d["ext"] - 1]["f"] != d["f"]:
                need["a base service in an included file"] = True
            if d["k"] == "service" and any(fn.get("pre") for fn in d["fns"]):
                need["a function whose name extends the name of another one"] = True
        nsl = [i + 1 for i, d in enumerate(G["defs"]) if d["k"] in ("struct", "union", "exception")]
        ninc = sum(len(x) for x in G["inc"])
        nfn = sum(len(d["fns"]) for d in G["defs"])
        for c in p["cases"]:
            need["B => A counterexample or none (flag present)"] = True
            b = c["b"]
            if index_shift(p, c):
                need["a file below an untouched root whose includes are renumbered"] = True
            if any(G["defs"][s - 1]["ext"] and s not in b["ext"] for s in b["kept"] if G["defs"][s - 1]["k"] == "service"):
                need["a run that clears an `extends`"] = True
            if len(b["inc"]) < ninc:
                need["a run that drops an include"] = True
            if any(d not in b["kept"] for d in nsl):
                need["a run that removes a struct-like"] = True
            if c["ar"]["pats"] and 0 < len(b["fns"]) < nfn:
                need["a run in which a filter removes a function"] = True
            if any(G["defs"][s - 1]["k"] == "service" and not [f for f in b["fns"] if f[0] == s] for s in b["kept"]):
                need["a run that keeps a service without functions"] = True
            for k, sl in enumerate(p["slots"]):
                if sl["pres"] == "c" and sl["u"]["c"] == "none" and sl["via"] == "d" and c["ar"]["preserve"] != "off" \
                        and not c["ar"]["nocomment"] and any(G["defs"][d - 1]["pres"] == "c" for d in b["kept"]
                                                             if G["defs"][d - 1]["k"] in ("struct", "union", "exception")):
                    need["a run that keeps a struct-like only because it is preserved"] = True
            for pt in c["ar"]["pats"]:
                if pt["q"] == "exact" and pt["s"] and pt["f"] not in [fn["name"] for fn in G["defs"][pt["s"] - 1]["fns"]] \
                        and pt["f"] != "zz":
                    need["a filter that selects an inherited method"] = True
    for p in progs:
        for c in p["cases"]:
            if not c.get("asat", True):
                raise vlib.MachineryError("layer A (Trim.tla) allows no result at all for program %s arguments %s: the "
                                          "specification is inconsistent" % (json.dumps(p["G"]), json.dumps(c["ar"])))
    missing = [k for k, v in need.items() if not v]
    if missing and not os.environ.get("C16_UNIVERSE"):
        raise vlib.MachineryError("vacuous universe, missing: " + "; ".join(missing))


# ------------------------------------------------------------------ in-process conformance
def harness_lines(progs, sel=None, verbose=False):
    """one harness case per (program, argument set); returns lines and the (pi, ci) of each"""
    lines, meta = [], []
    for pi, p in enumerate(progs):
        if "texts" not in p:
            prog, pres = cg.to_program(p["G"])
            p["prog"], p["pres"] = prog, pres
            p["texts"] = cg.render_texts(prog, pres)
        for ci, c in enumerate(p["cases"]):
            if sel is not None and (pi, ci) not in sel:
                continue
            args, yaml = cg.harness_args(p["G"], c["ar"])
            lines.append({"id": len(lines), "main": "a.thrift", "files": p["texts"], "args": args, "yaml": yaml,
                          "verbose": verbose})
            meta.append((pi, ci))
    return lines, meta


def run_harness(ctx, harness, lines, tag):
    """runs `inproc trim` (parallel) for the cases without yaml and `inproc trimyaml` for the others"""
    plain = [l for l in lines if l["yaml"] is None]
    ym = [l for l in lines if l["yaml"] is not None]
    res = {}
    for sub, part in (("trim", plain), ("trimyaml", ym)):
        if not part:
            continue
        inf = ctx.path("h-%s-%s.in.ndjson" % (tag, sub))
        outf = ctx.path("h-%s-%s.out.ndjson" % (tag, sub))
        vlib.write_ndjson(inf, part)
        ctx.run([harness, sub, inf, outf], timeout=3000)
        out = vlib.read_ndjson(outf)
        if len(out) != len(part):
            raise vlib.MachineryError("harness %s returned %d observations for %d cases" % (sub, len(out), len(part)))
        for o in out:
            res[o["id"]] = o
        os.remove(inf)
        os.remove(outf)
    return [res[l["id"]] for l in lines]


def validate(ctx, progs, rows, label):
    """rows: {(pi, ci, source): R}. TLC judges every R against layer A (one run for all sources).
    Returns {key: why} for the rejected ones."""
    by_prog = {}
    for key, R in rows.items():
        by_prog.setdefault(key[0], []).append((key, R))
    order = sorted(by_prog)
    rejected = {}
    CH = 8000
    for off in range(0, len(order), CH):
        chunk = order[off:off + CH]
        obsf = ctx.path("obs-%s-%d.ndjson" % (label, off))
        with open(obsf, "w") as fh:
            for pi in chunk:
                by_prog[pi].sort(key=lambda x: x[0])
                fh.write(json.dumps({"G": progs[pi]["G"],
                                     "rows": [{"ar": progs[pi]["cases"][key[1]]["ar"], "r": R} for key, R in by_prog[pi]]},
                                    separators=(",", ":")))
                fh.write("\n")
        r = ctx.tlc("Trim", "Trace_Trim", "Trace_Trim", files={"obs.ndjson": obsf}, timeout=6000,
                    label="Trace_Trim[%s+%d]" % (label, off))
        acc = {}
        nrej = {}
        for s in r["lines"]:
            if s.startswith("ACC "):
                _, ln, n = s.split()
                acc[int(ln)] = int(n)
            elif s.startswith("REJ "):
                _, ln, k, why = s.split(" ", 3)
                pi = chunk[int(ln) - 1]
                rejected[by_prog[pi][int(k) - 1][0]] = why
                nrej[pi] = nrej.get(pi, 0) + 1
        for j, pi in enumerate(chunk):
            if (j + 1) not in acc:
                raise vlib.MachineryError("TLC did not judge observation line %d of %s" % (j + 1, label))
            if acc[j + 1] + nrej.get(pi, 0) != len(by_prog[pi]):
                raise vlib.MachineryError("TLC accepted+rejected != rows on line %d of %s" % (j + 1, label))
        if not os.environ.get("VERIF_KEEP"):
            os.remove(obsf)
    ctx.traces_validated += len(rows)
    return rejected


def detail_of(why_tlc, why_py):
    """normalised reason of a rejected observation (for known-finding matching)"""
    txt = " | ".join(why_py)
    for pat, name in ((r"base service .* not found", "base-service-not-found"),
                      (r"panic", "panic"),
                      (r"TrimAST error", "trimast-error"),
                      (r"dumped IDL rejected: parse: .*not document", "empty-file-dumped"),
                      (r"dumped IDL rejected", "dumped-idl-rejected"),
                      (r"references that do not resolve", "stale-reference"),
                      (r"second trim", "second-trim-differs"),
                      (r"definitions changed", "definition-changed"),
                      (r"alien", "alien-definition")):
        if re.search(pat, txt):
            return name
    return why_tlc


def case_class(p, c):
    return "%s %s %s %s" % (prog_class(p), slot_sig(p), filter_kind(c["ar"]), pres_kind(c["ar"]))


def inproc_observe(ctx, harness, progs):
    lines, meta = harness_lines(progs)
    vlib.log("in-process: %d programs, %d cases" % (len(progs), len(lines)))
    obs = run_harness(ctx, harness, lines, "main")
    rows, whys = {}, {}
    for o, (pi, ci) in zip(obs, meta):
        if o.get("pre_err"):
            raise vlib.MachineryError("the universe contains a program thriftgo does not accept: %s\n%s" % (
                o["pre_err"], json.dumps(progs[pi]["texts"], indent=1)))
        R, why = cg.inproc_result(progs[pi]["G"], o)
        rows[(pi, ci, "inproc")] = R
        whys[(pi, ci, "inproc")] = why
    return rows, whys


def inproc_judge(ctx, harness, progs, rows, whys, rejected):
    """rejected: the TLC verdicts for the in-process rows. Records violations; returns the B-only counterexamples."""
    stale_b = []
    agree = 0
    for (pi, ci, _), R in rows.items():
        c = progs[pi]["cases"][ci]
        ctx.count(1, case_class(progs[pi], c))
        b = c["b"]
        same = (sorted(b["kept"]) == R["kept"] and sorted(map(tuple, b["fns"])) == sorted(map(tuple, R["fns"]))
                and sorted(map(tuple, b["inc"])) == sorted(map(tuple, R["inc"])) and sorted(b["ext"]) == sorted(R["ext"]))
        agree += 1 if same else 0
        if not c["bok"] and (pi, ci, "inproc") not in rejected:
            stale_b.append((pi, ci))
    ctx.extra_cov["layerB_predicts_real_result"] = "%d of %d cases" % (agree, len(rows))
    ctx.extra_cov["layerB_counterexamples_to_A"] = sum(1 for p in progs for c in p["cases"] if not c["bok"])
    # re-execute the rejected cases once (flakiness)
    if rejected:
        sel = {(pi, ci) for (pi, ci, _) in rejected}
        l2, m2 = harness_lines(progs, sel, verbose=True)
        o2 = run_harness(ctx, harness, l2, "again")
        for o, (pi, ci) in zip(o2, m2):
            R2, _ = cg.inproc_result(progs[pi]["G"], o)
            if R2 != rows[(pi, ci, "inproc")]:
                raise vlib.MachineryError("flaky observation for program %d case %d" % (pi, ci))
            progs[pi]["cases"][ci]["verbose_obs"] = {k: o.get(k) for k in ("t1", "dumped", "rp", "t2", "changed")}
    for key, why in sorted(rejected.items()):
        pi, ci, _ = key
        p, c = progs[pi], progs[pi]["cases"][ci]
        det = detail_of(why, whys[key])
        cls = {"check": "C16.inproc", "kind": why, "detail": det, "filter": filter_kind(c["ar"]) != "nofilter",
               "lay": p["lay"]}
        args, yaml = cg.harness_args(p["G"], c["ar"])
        ctx.violation(cls, {"G": p["G"], "ar": c["ar"], "files": p["texts"], "args": args, "yaml": yaml,
                            "descr": {"topo": p["topo"], "lay": p["lay"], "fill": p["fill"], "slots": p["slots"]}},
                      {"R": rows[key], "why": whys[key], "harness": c.get("verbose_obs")},
                      "a result Allowed by spec/Trim/Trim.tla (layer B predicted: %s)" % json.dumps(c["b"]),
                      "real trim.TrimAST result rejected by layer A: %s (%s)" % (why, det))
    ok = [k for k in rows if k not in rejected]
    if ok:
        pi, ci, _ = sorted(ok)[len(ok) // 2]
        ctx.sample({"files": progs[pi]["texts"], "args": cg.harness_args(progs[pi]["G"], progs[pi]["cases"][ci]["ar"]),
                    "observed_result": rows[(pi, ci, "inproc")]})
    return stale_b


# ------------------------------------------------------------------ the trimmer binary
def binary_observe(ctx, harness, trimmer, progs, budget):
    """`trimmer -r` on the rendered files of a subset; the files written are parsed, checked and resolved, summarised
    and judged by TLC like the in-process results."""
    cand = []
    for pi, p in enumerate(progs):
        for ci, c in enumerate(p["cases"]):
            ar = c["ar"]
            if (ar["plist"] or ar["nocomment"]) and not ar.get("yaml"):
                continue    # the binary takes these from trim_config.yaml only
            cand.append((pi, ci))
    rnd = random.Random(ctx.seed)
    # stratify: one per (program class, filter kind, preserve kind) first, then fill up at random
    strata = {}
    for pi, ci in cand:
        key = (prog_class(progs[pi]), filter_kind(progs[pi]["cases"][ci]["ar"]), pres_kind(progs[pi]["cases"][ci]["ar"]))
        strata.setdefault(key, []).append((pi, ci))
    pick = []
    for key in sorted(strata):
        pick.append(rnd.choice(strata[key]))
    ps = set(pick)
    rest = [x for x in cand if x not in ps]
    rnd.shuffle(rest)
    pick = (pick + rest)[:budget] if len(pick) < budget else rnd.sample(pick, budget)
    root = ctx.mkdir("bin-cases")

    def one(k):
        pi, ci = pick[k]
        p, c = progs[pi], progs[pi]["cases"][ci]
        d = os.path.join(root, "c%d" % k)
        os.makedirs(os.path.join(d, "src"))
        for path, txt in p["texts"].items():
            with open(os.path.join(d, "src", path), "w") as fh:
                fh.write(txt)
        ar = c["ar"]
        cmd = [trimmer, "-r", "src", "-o", "out"]
        if ar.get("yaml"):
            _, y = cg.harness_args(p["G"], ar)
            with open(os.path.join(d, "trim_config.yaml"), "w") as fh:
                fh.write(y)
        else:
            for pt in ar["pats"]:
                cmd += ["-m", cg.pat_text(p["G"], pt)]
            if ar["preserve"] != "unset":
                cmd += ["-p", "true" if ar["preserve"] == "on" else "false"]
        cmd.append("src/a.thrift")
        try:
            pr = subprocess.run(cmd, cwd=d, stdout=subprocess.PIPE, stderr=subprocess.PIPE, text=True, errors="replace",
                                timeout=900, env=ctx.env)
            rc, err = pr.returncode, (pr.stdout + pr.stderr)[-600:]
        except subprocess.TimeoutExpired:
            rc, err = -9, "timeout"
        files = {}
        od = os.path.join(d, "out")
        if os.path.isdir(od):
            for fn in os.listdir(od):
                with open(os.path.join(od, fn)) as fh:
                    files[fn] = fh.read()
        shutil.rmtree(d, ignore_errors=True)
        return rc, err, files, cmd

    with concurrent.futures.ThreadPoolExecutor(max_workers=vlib.NCPU) as ex:
        outs = list(ex.map(one, range(len(pick))))
    if any(o[0] == -9 for o in outs):
        raise vlib.MachineryError("the trimmer binary did not finish within 900 s (machine overloaded?)")
    lines = []
    for k, (rc, err, files, cmd) in enumerate(outs):
        lines.append({"id": k, "main": "a.thrift", "files": files if "a.thrift" in files else {"a.thrift": ""}, "args": {}})
    upis = sorted({pi for pi, _ in pick})
    for pi in upis:     # the untrimmed programs (signatures for the meaning comparison)
        lines.append({"id": len(lines), "main": "a.thrift", "files": progs[pi]["texts"], "args": {}})
    inf, outf = ctx.path("bin.in.ndjson"), ctx.path("bin.out.ndjson")
    vlib.write_ndjson(inf, lines)
    ctx.run([harness, "idlsum", inf, outf], timeout=1200)
    sums = vlib.read_ndjson(outf)
    presum = {pi: sums[len(outs) + j]["sum"] for j, pi in enumerate(upis)}
    sums = sums[:len(outs)]
    brow, bwhy = {}, {}
    for k, ((pi, ci), (rc, err, files, cmd), s) in enumerate(zip(pick, outs, sums)):
        G = progs[pi]["G"]
        t = s["sum"]
        why = []
        R = {"kept": [], "fns": [], "inc": [], "ext": [], "ok": False, "same": True, "idem": True}
        if rc != 0:
            why.append("trimmer exit %d: %s" % (rc, err))
        elif t.get("err") or t.get("panic"):
            why.append("dumped IDL rejected: " + (t.get("err") or t.get("panic"))[:300])
        else:
            r, problems, changed = cg.tree_result(G, t, presum[pi])
            R.update(r)
            why += problems
            if t.get("stale"):
                why.append("re-parsed AST inconsistent")
            if changed:
                R["same"] = False
                why.append("definitions changed: " + ", ".join(changed[:4]))
        R["ok"] = not [w for w in why if not w.startswith("definitions changed")]
        brow[(pi, ci, "binary")] = R
        bwhy[(pi, ci, "binary")] = why
        ctx.count(1, "binary " + case_class(progs[pi], progs[pi]["cases"][ci]))
    ctx.extra_cov["binary_cases"] = len(pick)
    if pick:
        k = len(pick) // 2
        ctx.sample({"trimmer_cmd": outs[k][3][1:], "written": outs[k][2]})
    return brow, bwhy, {key: outs[k] for k, key in enumerate(pick)}


def binary_judge(ctx, progs, brow, bwhy, outs, rows, rejected):
    for key, why in sorted(rejected.items()):
        pi, ci, _ = key
        p, c = progs[pi], progs[pi]["cases"][ci]
        det = detail_of(why, bwhy[key])
        cls = {"check": "C16.binary", "kind": why, "detail": det, "filter": filter_kind(c["ar"]) != "nofilter", "lay": p["lay"]}
        ctx.violation(cls, {"G": p["G"], "ar": c["ar"], "files": p["texts"], "cmd": outs[(pi, ci)][3][1:]},
                      {"R": brow[key], "why": bwhy[key], "written": outs[(pi, ci)][2]},
                      "a result Allowed by spec/Trim/Trim.tla",
                      "files written by `trimmer -r` rejected by layer A: %s (%s)" % (why, det))
    # the binary and the library are the same algorithm: note disagreements (not a verdict)
    dis = sum(1 for (pi, ci, _), R in brow.items() if (pi, ci, "inproc") in rows and
              (R["kept"], sorted(map(tuple, R["fns"]))) !=
              (rows[(pi, ci, "inproc")]["kept"], sorted(map(tuple, rows[(pi, ci, "inproc")]["fns"]))))
    ctx.extra_cov["binary_differs_from_inproc"] = dis


# ------------------------------------------------------------------ trim_idl: generated code
def gen_ok_for_lab(p):
    """programs whose untrimmed generated code is known to be outside C16's business are left out"""
    for sl in p["slots"]:
        if sl["w"] == "mk" and sl["k"] != "enum":
            return False      # struct-like map keys (C01 territory: Go map keys of pointer type)
        if sl["u"]["c"] == "const":
            return False      # struct-valued constants (C06 territory)
    return True


def lab_phase(ctx, progs, rows, rejected, nprog):
    import genlab
    import schema as schemalib
    rnd = random.Random(ctx.seed + 7)
    cand, candf, shifty = [], [], []
    for pi, p in enumerate(progs):
        if not gen_ok_for_lab(p):
            continue
        for ci, c in enumerate(p["cases"]):
            ar = c["ar"]
            if not ar.get("yaml") and not ar["pats"] and ar["preserve"] == "unset" and not ar["plist"] \
                    and not ar["nocomment"] and index_shift(p, c):
                shifty.append((pi, ci))      # observed through trim_idl whatever the in-process verdict was
            if (pi, ci, "inproc") in rejected or ar.get("yaml"):
                continue
            if not ar["pats"] and ar["preserve"] == "unset" and not ar["plist"] and not ar["nocomment"]:
                cand.append((pi, ci))
            else:
                candf.append((pi, ci))     # with arguments: trim_idl takes them from trim_config.yaml in the working directory
    strata = {}
    for pi, ci in cand:
        strata.setdefault((prog_class(progs[pi]), slot_sig(progs[pi])), []).append((pi, ci))
    keys = sorted(strata)
    rnd.shuffle(keys)
    nplain = nprog - nprog // 3
    # always in the lab: programs whose trimming renumbers the includes of a file below an untouched root (the
    # generator follows Reference.Index of the trimmed in-memory AST), one with a type and one with a value reference
    forced = []
    for want_dv in (False, True):
        fc = [(pi, ci) for pi, ci in shifty if any(sl.get("dv") for sl in progs[pi]["slots"]) == want_dv]
        if fc:
            forced.append(rnd.choice(sorted(fc)))
    if not forced:
        raise vlib.MachineryError("no include-renumbering program for the trim_idl lab")
    pick = forced + [strata[k][0] for k in keys[:max(0, nplain - len(forced))] if strata[k][0] not in forced]
    strata = {}
    for pi, ci in candf:
        ar = progs[pi]["cases"][ci]["ar"]
        strata.setdefault((progs[pi]["lay"], filter_kind(ar), pres_kind(ar)), []).append((pi, ci))
    keys = sorted(strata)
    rnd.shuffle(keys)
    pick += [rnd.choice(strata[k]) for k in keys[:nprog - len(pick)]]
    if not pick:
        raise vlib.MachineryError("no program for the trim_idl lab")
    lab = genlab.Lab(ctx, "lab")
    for k, (pi, ci) in enumerate(pick):
        prog, pres = cg.to_program(progs[pi]["G"])
        lab.add_case("u%d" % k, prog, [])
        lab.add_case("t%d" % k, prog, ["trim_idl"])

    # genlab renders without comments: write the texts ourselves (`// @preserve` lines, trim_config.yaml), then run
    # thriftgo as genlab does, with the IDL directory as working directory (TrimAST reads its yaml from there)
    def generate_with_comments(c):
        k = int(c.id[1:])
        pi, ci = pick[k]
        idl_root = os.path.join(lab.root, "idl", c.id)
        os.makedirs(idl_root, exist_ok=True)
        for path, txt in progs[pi]["texts"].items():
            with open(os.path.join(idl_root, path), "w") as fh:
                fh.write(txt)
        ar = progs[pi]["cases"][ci]["ar"]
        if c.id[0] == "t" and (ar["pats"] or ar["preserve"] != "unset" or ar["plist"] or ar["nocomment"]):
            _, y = cg.harness_args(progs[pi]["G"], dict(ar, yaml=True))
            with open(os.path.join(idl_root, "trim_config.yaml"), "w") as fh:
                fh.write(y)
        out = os.path.join(lab.root, "g", c.id)
        os.makedirs(out, exist_ok=True)
        opts = ["package_prefix=labmod/g/%s" % c.id] + c.opts
        cmd = [lab.thriftgo, "-g", "go:%s" % ",".join(opts), "-o", out, "-r", "a.thrift"]
        c.cmd = cmd
        try:
            pr = subprocess.run(cmd, cwd=idl_root, stdout=subprocess.PIPE, stderr=subprocess.PIPE, text=True,
                                errors="replace", timeout=900, env=ctx.env)
        except subprocess.TimeoutExpired:
            raise vlib.MachineryError("thriftgo did not finish within 900 s (machine overloaded?)")
        c.rc, c.stdout, c.stderr = pr.returncode, pr.stdout, pr.stderr
        for dp, _, fs in os.walk(out):
            for f in fs:
                c.files.append(os.path.relpath(os.path.join(dp, f), lab.root))
        return c
    with concurrent.futures.ThreadPoolExecutor(max_workers=vlib.NCPU) as ex:
        list(ex.map(generate_with_comments, list(lab.cases.values())))
    usable = []
    for k, (pi, ci) in enumerate(pick):
        u, t = lab.cases["u%d" % k], lab.cases["t%d" % k]
        p = progs[pi]
        if u.rc != 0:
            raise vlib.MachineryError("thriftgo rejects an untrimmed program of the universe: %s\n%s" % (u.stderr[-1500:], json.dumps(p["texts"])))
        ctx.count(1, "trim_idl " + case_class(p, p["cases"][ci]))
        if t.rc != 0:
            ctx.violation({"check": "C16.trim_idl", "kind": "generation-failed", "lay": p["lay"]},
                          {"files": p["texts"], "cmd": t.cmd[1:], "ar": p["cases"][ci]["ar"]}, (t.stdout + t.stderr)[-2000:], "exit 0",
                          "thriftgo -g go:trim_idl fails on a program it accepts without trim_idl")
            continue
        # generated struct-likes = kept struct-likes of the validated in-process result
        R = rows[(pi, ci, "inproc")]
        G = p["G"]
        exp = {(cg.go_pkg(p["prog"], G["defs"][d - 1]["f"]), cg.dname(G, d)) for d in R["kept"]
               if G["defs"][d - 1]["k"] in ("struct", "union", "exception")}
        got = set()
        for f in t.files:
            if not f.endswith(".go"):
                continue
            pkg = os.path.basename(os.path.dirname(f))
            with open(os.path.join(lab.root, f)) as fh:
                for m in re.finditer(r"^func New(\w+)\(\) \*(\w+) \{", fh.read(), re.M):
                    if m.group(1) == m.group(2) and re.match(r"^[XUZ]\d+$", m.group(1)):
                        got.add((pkg, m.group(1)))
        if got != exp:
            ctx.violation({"check": "C16.trim_idl", "kind": "generated-types-differ", "lay": p["lay"]},
                          {"files": p["texts"], "cmd": t.cmd[1:], "ar": p["cases"][ci]["ar"]}, sorted(got), sorted(exp),
                          "types generated with trim_idl differ from the kept set of trim.TrimAST")
            continue
        usable.append(k)
    ok, out = lab.build_all()
    if not ok:
        # attribute to cases: a failure inside g/u<k> is not about trimming (C01 territory) -> that program leaves the lab
        bad_t = sorted(set(re.findall(r"g/(t\d+)/", out)))
        bad_u = sorted(set(re.findall(r"g/(u\d+)/", out)))
        if not bad_t and not bad_u:
            raise vlib.MachineryError("lab build failed: %s" % out[-2500:])
        if len(bad_u) > len(pick) // 2:
            raise vlib.MachineryError("generated code of most UNTRIMMED lab programs does not compile: %s" % out[-2500:])
        for cid in bad_u:
            ctx.notes.append("untrimmed generated code does not compile (not judged here): %s" %
                             json.dumps(progs[pick[int(cid[1:])][0]]["texts"]))
        ubad = {int(c[1:]) for c in bad_u}
        for cid in bad_t:
            k = int(cid[1:])
            if k in ubad:
                continue
            pi, ci = pick[k]
            ctx.violation({"check": "C16.trim_idl", "kind": "does-not-compile", "lay": progs[pi]["lay"]},
                          {"files": progs[pi]["texts"], "cmd": lab.cases[cid].cmd[1:], "ar": progs[pi]["cases"][ci]["ar"]},
                          out[-3000:], "go build succeeds",
                          "code generated with trim_idl does not compile")
        usable = [k for k in usable if ("t%d" % k) not in bad_t and k not in ubad]
    # wire behaviour of kept types: same write traces from the untrimmed and the trimmed package
    regs, plan = [], []
    schemas = {}
    for k in usable:
        pi, ci = pick[k]
        G = progs[pi]["G"]
        R = rows[(pi, ci, "inproc")]
        prog = progs[pi]["prog"]
        for cid in ("u%d" % k, "t%d" % k):
            c = lab.cases[cid]
            for d in R["kept"]:
                df = G["defs"][d - 1]
                if df["k"] in ("struct", "union", "exception"):
                    name = cg.dname(G, d)
                    ip = "labmod/g/%s/%s" % (cid, cg.go_pkg(prog, df["f"]))
                    regs.append((cid, name, ip, "New" + name))
        try:
            sc = schemalib.schema_of(prog)
        except Exception as ex:   # schema library does not cover this program shape
            ctx.notes.append("wire comparison skipped for one program: %s" % ex)
            continue
        for cid in ("u%d" % k, "t%d" % k):
            schemas[cid] = sc
        for d in R["kept"]:
            df = G["defs"][d - 1]
            if df["k"] in ("struct", "union", "exception"):
                plan.append((k, cg.dname(G, d)))
    if regs:
        lab.write_driver(regs)
        ok, out, binary = lab.build()
        if not ok:
            raise vlib.MachineryError("driver build failed: %s" % out[-2500:])
        scen, meta = [], []
        for k, name in plan:
            for v in ({"s": {"n": {"a": "i32:7"}}}, {"s": {}}):
                for cid in ("u%d" % k, "t%d" % k):
                    scen.append({"id": len(scen), "op": "w", "case": cid, "s": name, "v": v})
                    meta.append((k, name, cid))
        res = lab.run_driver(binary, schemas, scen, "wire")
        byk = {}
        for r, s, (k, name, cid) in zip(res, scen, meta):
            byk.setdefault((k, name, json.dumps(s["v"], sort_keys=True)), {})[cid[0]] = (r.get("toks"), r.get("err"), bool(r.get("panic")))
        n = 0
        for (k, name, v), d in sorted(byk.items()):
            n += 1
            if d.get("u") != d.get("t"):
                pi, ci = pick[k]
                ctx.violation({"check": "C16.trim_idl", "kind": "wire-differs", "lay": progs[pi]["lay"]},
                              {"files": progs[pi]["texts"], "struct": name, "value": json.loads(v)}, d.get("t"), d.get("u"),
                              "write trace of a kept type differs between the trimmed and the untrimmed program")
            elif d["u"][2] or (d["u"][1] and not name.startswith("U")):
                raise vlib.MachineryError("driver failed on %s: %r" % (name, d["u"]))
        ctx.extra_cov["wire_traces_compared"] = n
        ctx.traces_validated += n
    ctx.extra_cov["trim_idl_programs"] = len(pick)


# ------------------------------------------------------------------ entry
PROBES = [
    # (fix name, files, methods, predicate on the observation that tells the repair is present)
    ("localbase",
     {"a.thrift": 'include "b.thrift"\nservice S extends b.B2 { void m1(1: i32 x) }\n',
      "b.thrift": 'service B1 { void p1(1: i32 x) }\nservice B2 extends B1 { void p2(1: i32 x) }\n'}, [],
     lambda o: not o["t1"]["err"]),
    ("extinc",
     {"a.thrift": 'namespace go a\ninclude "b.thrift"\nservice S extends b.B { void m1(1: i32 x) }\n',
      "b.thrift": 'namespace go b\nstruct X {1: i32 a}\nservice B { void p1(1: X x) }\n'}, ["S.m1"],
     lambda o: not o["t1"]["err"] and all(not f["includes"] for f in o["t1"]["files"] if f["path"] == "a.thrift")),
    ("traceprefix",
     {"a.thrift": 'service B { void p(1: i32 x) }\nservice S extends B { void get(1: i32 x)\n void getAll(1: i32 x) }\n'},
     ["S.get"],
     lambda o: not o["t1"]["err"] and all(s["fns"] == ["get"] for f in o["t1"]["files"] for s in f["svcs"] if s["name"] == "S")),
]


def probe_fixes(ctx, harness):
    """Layer B transcribes the pinned algorithm including three behaviours a repair would change; three probe inputs
    tell which variant the tree under test has, so that B stays a transcription of THIS tree (B is never the oracle)."""
    lines = [{"id": i, "main": "a.thrift", "files": files, "yaml": None,
              "args": {"methods": m, "preserve": None, "disable_comment": None, "pstructs": []}}
             for i, (_, files, m, _) in enumerate(PROBES)]
    obs = run_harness(ctx, harness, lines, "probe")
    fixes = []
    for (name, _, _, pred), o in zip(PROBES, obs):
        if o.get("pre_err") or not o.get("t1"):
            raise vlib.MachineryError("probe %s failed: %s" % (name, o.get("pre_err")))
        if pred(o):
            fixes.append(name)
    return fixes


def run(ctx, args):
    harness = ctx.build_harness("inproc")
    if args.replay:
        return replay(ctx, harness, args.replay)
    thorough = ctx.tier == "thorough"
    trimmer = ctx.build_repo("./tool/trimmer", "trimmer")
    fixes = probe_fixes(ctx, harness)
    vlib.log("layer B variant: Fixes = %s" % fixes)
    ctx.extra_cov["layerB_fixes_detected"] = fixes
    progs = generate(ctx, fixes)
    vacuity(progs)
    ncases = sum(len(p["cases"]) for p in progs)
    vlib.log("universe: %d programs, %d cases" % (len(progs), ncases))
    rows, whys = inproc_observe(ctx, harness, progs)
    skip = os.environ.get("C16_SKIP", "").split(",")     # development only
    brow, bwhy, bouts = {}, {}, {}
    if "binary" not in skip:
        brow, bwhy, bouts = binary_observe(ctx, harness, trimmer, progs, 6000 if thorough else 400)
    allrows = dict(rows)
    allrows.update(brow)
    rejected = validate(ctx, progs, allrows, "all")
    stale_b = inproc_judge(ctx, harness, progs, rows, whys, {k: v for k, v in rejected.items() if k[2] == "inproc"})
    binary_judge(ctx, progs, brow, bwhy, bouts, rows, {k: v for k, v in rejected.items() if k[2] == "binary"})
    if "lab" not in skip:
        lab_phase(ctx, progs, rows, rejected, 120 if thorough else 12)
    if stale_b and not ctx.violations:
        # B-only counterexamples: B predicts a violation of A the real code does not show -> B is a wrong transcription
        pi, ci = stale_b[0]
        raise vlib.MachineryError(
            "layer B (TrimImpl.tla) predicts a violation of layer A that the real code does not show in %d case(s): "
            "the transcription is stale, e.g. program %s arguments %s" % (
                len(stale_b), json.dumps(progs[pi]["texts"]), json.dumps(progs[pi]["cases"][ci]["ar"])))
    ctx.exhaustive = True
    return ctx.finish(
        rule="programs = every program of the bounded universes cQuick / cThorough of spec/Trim/MC_Trim.tla (include topology x "
             "service layout x filler definitions x slots, TLC BFS); cases = programs x ArgMenu (method patterns, "
             "preserve, comment switch, preserved-struct list, yaml); every case through trim.TrimAST in-process and judged "
             "by TLC against layer A; stratified subsets through the trimmer binary and through thriftgo trim_idl. "
             "distinct class = (topology, layout with service files, fillers, slot signatures, filter kind, preserve kind)",
        assumptions=["`-m` patterns are the five forms of Trim.tla Match; method names are chosen so that regular-expression "
                     "search and exact match select the same methods",
                     "an unqualified method name may denote the method of any service of the root file",
                     "a function whose name merely starts with the text of a pattern may or may not count as matching",
                     "services of included files that no root service extends may stay or go (statement silent)",
                     "an include that contributes only enums behind an otherwise empty file may go (statement ambiguous)",
                     "functions have at most one throws entry (the dumper's separator defect belongs to C17)"],
        trusted=["TLC", "lib/c16_graph.py", "harness/cmd/inproc/trim.go", "parser/semantic packages for re-parsing",
                 "harness pkg/rec, pkg/drv for the wire comparison", "go toolchain"])


def replay(ctx, harness, path):
    rp = json.load(open(path))
    case = rp["case"]
    G, ar = case["G"], case["ar"]
    prog, pres = cg.to_program(G)
    p = {"G": G, "cases": [{"ar": ar, "b": None, "bok": True}], "texts": cg.render_texts(prog, pres)}
    lines, meta = harness_lines([p])
    obs = run_harness(ctx, harness, lines, "replay")
    R, why = cg.inproc_result(G, obs[0])
    rej = validate(ctx, [p], {(0, 0, "inproc"): R}, "replay")
    ctx.count(1, "replay")
    if rej:
        ctx.violation(rp.get("class", {"check": "C16.inproc"}), case, {"R": R, "why": why}, "Allowed by Trim.tla",
                      "replayed case still rejected: %s" % rej[(0, 0, "inproc")])
    return ctx.finish("replay of one case")
