"""C10 — the fastgo codec agrees with the standard codec and BLength is exact.

Spec: spec/Wire (the same abstract writer/reader as C02; fastgo's field order is inside the order-free tree),
Trace_WireFast.tla (tree equality + byte accounting BLength = bytes written = sum of token sizes).
Flow: TLC (WireGen) enumerates values and perturbed reference encodings; `thriftgo -g fastgo` output is compiled;
the driver runs FastAppend/FastWrite/BLength (bytes lexed schema-less into tokens, validated by TLC), FastRead on
the spec's reference encodings (object/error/offset vs. the reference reader and vs. the standard generated Read),
and every truncation point / single type-byte corruption of encodings (error or agreement with standard Read,
never a panic).
"""
import copy
import json

import c02
import genlab
import schema as schemalib
import universe
import vlib

LEVEL = "model_checking"

REGISTRY = dict(
    level="model_checking",
    text="Same TLA+ wire machine as C02. TLC generates values/encodings; the bytes FastAppend produces are lexed without a "
         "schema and validated by TLC step by step (tree equality and exact byte accounting against BLength); FastRead is "
         "judged against the reference reader and the standard Read on reference encodings with unknown/retagged/dropped "
         "fields; all truncation points and type-byte corruptions of encodings are enumerated.",
    design_ref="DESIGN.md 6 C10",
    note="Trusted: cloudwego/gopkg BinaryProtocol primitives, apache TBinaryProtocol (reference bytes), harness lexer "
         "(pkg/rec.Lex), TLC. Strings and binaries are identified on the wire.",
    technique="TLA+ wire machine + TLC trace validation of lexed FastAppend output; reference-reader prediction for FastRead; "
              "exhaustive truncation/type-corruption enumeration by the harness")


def strbin(v):
    """rewrite str: atoms as bin: atoms (the lexer cannot tell them apart)"""
    if isinstance(v, dict):
        if "a" in v and isinstance(v["a"], str) and v["a"].startswith("str:"):
            return {"a": "bin:" + v["a"][4:].encode("utf-8").hex()}
        return {k: strbin(x) for k, x in v.items()}
    if isinstance(v, list):
        return [strbin(x) for x in v]
    return v


def validate_fast(ctx, sc, rows, label):
    tsc, sidx = schemalib.to_tla(sc)
    sc_json = json.dumps(strbin(tsc))   # defaults too: strings and binaries are one thing on the wire
    rows = [dict(r, s=sidx[r["s"]]) for r in rows]
    accepted = set()
    CH = 20000
    for off in range(0, len(rows), CH):
        tf = ctx.path("ftraces-%s-%d.ndjson" % (label, off))
        vlib.write_ndjson(tf, rows[off:off + CH])
        r = ctx.tlc("Wire", "Trace_WireFast", "Trace_WireFast", files={"traces.ndjson": tf, "schema.json": sc_json},
                    timeout=3000, label="Trace_WireFast[%s+%d]" % (label, off))
        for s in r["lines"]:
            if s.startswith("ACC "):
                accepted.add(off + int(s[4:]) - 1)
    ctx.traces_validated += len(rows)
    rejected = [i for i in range(len(rows)) if i not in accepted]
    reach = {}
    if rejected:
        sub = rejected[:40]
        tf = ctx.path("fdiag-%s.ndjson" % label)
        vlib.write_ndjson(tf, [rows[i] for i in sub])
        r = ctx.tlc("Wire", "Trace_WireFast", "Trace_WireFast_diag", files={"traces.ndjson": tf, "schema.json": sc_json},
                    timeout=600, workers=1, label="Trace_WireFast_diag[%s]" % label)
        for s in r["lines"]:
            if s.startswith("AT "):
                p = s.split()
                i = sub[int(p[1]) - 1]
                if int(p[2]) >= reach.get(i, (0, 0))[0]:
                    reach[i] = (int(p[2]), int(p[3]))
    return rejected, reach


def run_lab(ctx, lab_cases, sc, cases, tag, fault_every):
    lab = genlab.Lab(ctx, "lab-" + tag)
    for cid, prog, opts in lab_cases:
        lab.add_case(cid, prog, opts, backend="fastgo")
    lab.generate()
    regs = []
    for cid, prog, opts in lab_cases:
        c = lab.cases[cid]
        if c.rc != 0:
            raise vlib.MachineryError("thriftgo -g fastgo failed on %s: %s" % (cid, c.stderr[-2000:]))
        regs += genlab.struct_regs(c)
    lab.write_driver(regs)
    ok, out, binary = lab.build()
    if not ok:
        ctx.violation({"check": "C10.compile"}, {"cases": [c for c, _, _ in lab_cases]}, out[-4000:],
                      "fastgo output compiles", "fastgo output does not compile")
        return
    scen, meta = [], []
    for cid, _, _ in lab_cases:
        nfault = 0
        for k, tc in enumerate(cases):
            if tc["k"] == "w":
                if not tc["writable"]:
                    continue   # fastgo does not promise to refuse ill-formed unions; outside the statement
                scen.append({"id": len(scen), "op": "fw", "case": cid, "s": tc["s"], "v": tc["v"]})
                meta.append((cid, k, "fw"))
            else:
                scen.append({"id": len(scen), "op": "fr", "case": cid, "s": tc["s"], "toks": tc["toks"]})
                meta.append((cid, k, "fr"))
                if tc["pert"]["kind"] == "base":
                    nfault += 1
                    if nfault % fault_every == 0:
                        scen.append({"id": len(scen), "op": "ffault", "case": cid, "s": tc["s"], "toks": tc["toks"]})
                        meta.append((cid, k, "ffault"))
    res = lab.run_driver(binary, {cid: sc for cid, _, _ in lab_cases}, scen, tag, timeout=1500)
    frows, fidx = [], []
    st = lambda s: {"n": "struct", "s": s}
    ntrunc = ncorr = 0
    for i, (r, (cid, k, op)) in enumerate(zip(res, meta)):
        tc = cases[k]
        cls = c02.shape_class(sc, tc["s"])
        x = r.get("x") or {}
        case = {"case": cid, "s": tc["s"]}
        if op == "fw":
            ctx.count(1, "fastwrite " + cls)
            case["v"] = tc["v"]
            what = None
            if r.get("panic"):
                what = "panic"
            elif x.get("lexerr"):
                what = "not-an-encoding"
            elif x.get("fastwrite_panic"):
                what = "fastwrite-panic-in-exact-buffer"
            elif x.get("lexed_bytes") != x.get("n_append"):
                what = "trailing-bytes"
            elif x.get("n_write") != x.get("n_append"):
                what = "fastwrite-length-differs-from-fastappend"
            elif not multi_map(tc["v"]) and (not x.get("write_equals_append") or not x.get("append_keeps_prefix")):
                what = "fastwrite-differs-from-fastappend"   # byte comparison only where map order cannot differ
            elif "std_read_err" in x and not needs_required_missing(sc, tc):
                what = "standard-read-rejects"
            if what:
                ctx.violation({"check": "C10.write", "kind": what, "shape": cls}, case, {"x": x, "panic": r.get("panic")},
                              "well-formed encoding, FastWrite == FastAppend, no panic", "fastgo writer: " + what)
                continue
            frows.append({"s": tc["s"], "v": strbin(tc["v"]), "toks": r.get("toks") or [],
                          "blen": x.get("blen", -1), "nbytes": x.get("n_append", -2)})
            fidx.append(i)
        elif op == "fr":
            ctx.count(1, "fastread %s %s" % (tc["pert"]["kind"], cls))
            exp = tc["exp"]
            case.update(toks=tc["toks"], pert=tc["pert"])
            what = None
            if r.get("panic"):
                what = "panic"
            elif bool(r.get("err")) != bool(exp["err"]):
                what = "error-flag-vs-reference-reader"
            elif bool(r.get("err")) != bool(x.get("std_err")):
                what = "error-flag-vs-standard-read"
            elif not exp["err"]:
                if c02.norm(sc, st(tc["s"]), r.get("v")) != c02.norm(sc, st(tc["s"]), exp["v"]):
                    what = "object-vs-reference-reader"
                elif c02.norm(sc, st(tc["s"]), r.get("v")) != c02.norm(sc, st(tc["s"]), x.get("std_v")):
                    what = "object-vs-standard-read"
                elif x.get("off") != x.get("nbytes"):
                    what = "bytes-consumed"
            if what:
                ctx.violation({"check": "C10.read", "kind": what, "pert": tc["pert"]["kind"], "shape": cls}, case,
                              {"err": r.get("err"), "v": r.get("v"), "x": x, "panic": r.get("panic")}, exp,
                              "FastRead deviates: " + what)
        else:
            ctx.count(x.get("truncations", 0) + x.get("corruptions", 0), "fault " + cls)
            ntrunc += x.get("truncations", 0)
            ncorr += x.get("corruptions", 0)
            if r.get("panic"):
                ctx.violation({"check": "C10.fault", "kind": "harness-panic", "shape": cls}, case, r.get("panic"), "", "panic")
            for b in (x.get("bad") or []):
                site = "generated-code"
                d = b.get("detail", "")
                if b["what"] == "panic" and "protocol/thrift.skipType" in d and "index out of range [-" in d:
                    site = "gopkg.skipType.negative-ttype"
                ctx.violation({"check": "C10.fault", "kind": b["what"], "fault": b["kind"], "site": site, "shape": cls},
                              dict(case, toks=tc["toks"], fault=b), b.get("detail", "")[:1500],
                              "error, or the same object the standard Read builds; never a panic",
                              "FastRead on damaged input: %s (%s at byte %s)" % (b["what"], b["kind"], b["pos"]))
    rejected, reach = validate_fast(ctx, sc, frows, tag)
    for j in rejected:
        i = fidx[j]
        cid, k, _ = meta[i]
        tc = cases[k]
        row = frows[j]
        ctx.violation({"check": "C10.write", "kind": "trace-rejected", "shape": c02.shape_class(sc, tc["s"])},
                      {"case": cid, "s": tc["s"], "v": tc["v"]},
                      {"toks": row["toks"], "blen": row["blen"], "nbytes": row["nbytes"], "matched(l,bytes)": reach.get(j)},
                      "tree(FastAppend bytes) == Tree(schema, v) and BLength == bytes written == sum of token sizes",
                      "fastgo encoding rejected by the wire spec")
    if frows:
        ctx.sample({"fast_write_trace": frows[len(frows) // 2]})
    ctx.extra_cov["truncation_points"] = ctx.extra_cov.get("truncation_points", 0) + ntrunc
    ctx.extra_cov["type_byte_corruptions"] = ctx.extra_cov.get("type_byte_corruptions", 0) + ncorr


def multi_map(v):
    if isinstance(v, dict):
        if "m" in v and isinstance(v["m"], list) and len(v["m"]) > 1:
            return True
        return any(multi_map(x) for x in v.values())
    if isinstance(v, list):
        return any(multi_map(x) for x in v)
    return False


def needs_required_missing(sc, tc):
    """a value whose nil non-optional struct field has required members cannot be decoded by anyone (SB STOP SE)"""
    def walk(t, v):
        if v is None or "nil" in v:
            if t["n"] == "struct":
                return any(f["req"] == "required" for f in sc["structs"][t["s"]]["fields"])
            return False
        if t["n"] == "struct":
            for f in sc["structs"][t["s"]]["fields"]:
                fv = (v.get("s") or {}).get(f["name"]) if isinstance(v.get("s"), dict) else None
                if fv is None:
                    continue
                if "nil" in fv and f["req"] == "optional":
                    continue
                if walk(f["type"], fv):
                    return True
            return False
        if t["n"] in ("list", "set"):
            return any(walk(t["v"], x) for x in v.get("l", []))
        if t["n"] == "map":
            return any(walk(t["k"], k) or walk(t["v"], x) for k, x in v.get("m", []))
        return False
    return walk({"n": "struct", "s": tc["s"]}, tc["v"])


def run(ctx, args):
    thorough = ctx.tier == "thorough"
    shapes = universe.enumerate_shapes(ctx, 1)
    prog = universe.base_program(shapes, extra=universe.fast_extras())
    sc = schemalib.schema_of(prog)
    cases = c02.gen_cases(ctx, sc, 40, 2, 3 if thorough else 2,
                          "wide" if thorough else "narrow", "WireGen[fast]")
    if not any(c["k"] == "r" and c["exp"]["err"] for c in cases):
        raise vlib.MachineryError("vacuous: no read case with a missing required field")
    labs = [("f0", prog, []), ("ftd", universe.present_typedef(prog, 2), []), ("finc", universe.present_include(prog), [])]
    if thorough:
        # (-g fastgo:value_type_in_container does not compile: C01 known finding C01-fastgo-value-type-in-container)
        labs += [("fku", prog, ["keep_unknown_fields"]), ("fvt", prog, ["enum_as_int_32", "naming_style=golint"])]
    run_lab(ctx, labs, sc, cases, "fast", 1)
    if thorough:
        # depth-2 type shapes (containers of containers of containers), a seed-rotated sample of ~240 shapes
        shapes2 = [s for s in universe.enumerate_shapes(ctx, 2) if json.dumps(s).count('"v"') >= 2]
        step = max(1, len(shapes2) // 240)
        pick = shapes2[(ctx.seed % step)::step]
        prog2 = universe.base_program(pick)
        prog2["files"][0]["defs"] = [d for d in prog2["files"][0]["defs"]
                                     if d["name"] in ("E", "In") or d["name"].startswith("W")]
        sc2 = schemalib.schema_of(prog2)
        cases2 = c02.gen_cases(ctx, sc2, 12, 1, 1, "narrow", "WireGen[fast d2]")
        run_lab(ctx, [("fd2", prog2, []), ("fd2td", universe.present_typedef(prog2, 1), [])], sc2, cases2, "fastd2", 3)
    return ctx.finish(
        rule="C02's program universe plus structs with 9/17 required fields, struct map keys and 4-deep containers, "
             "generated with -g fastgo under three presentations; values/perturbed encodings from TLC (WireGen). "
             "distinct class = (operation, perturbation kind, struct kind, requiredness, default?, type shape)",
        assumptions=["unions without exactly one member set are outside the fastgo statement (no refusal is promised)",
                     "a corrupted encoding that both readers accept must give equal objects; one that the standard reader "
                     "rejects must be rejected by FastRead"],
        trusted=["cloudwego/gopkg v0.2.0 BinaryProtocol", "apache/thrift v0.13.0 (reference bytes, standard Read)",
                 "harness pkg/rec (Lex, Encode), pkg/drv", "TLC"])
