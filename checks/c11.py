"""C11 -- plugins see the compiler's AST and options, and their answers are honoured.

Specification: spec/Plugin (Plugin.tla = process protocol composed with FileManager.tla; PluginInclude.tla =
include compression, layer A identity / layer B transcription of plugin/plugin.go; PluginParams.tla = command
line -> request parameters).

1. TLC (three generating runs): every include DAG with <= N files (B => A checked on each), every option list
   over small alphabets with the parameters layer A allows, every case of the behaviour x response x time-limit
   matrix run through the protocol machine with its invariants.
2. in-process (harness `inproc reqcodec` = cmd/c11req): for programs built over the DAGs (all AST node kinds,
   optional fields set/unset) the request the compiler builds goes through the real codec, plain and with include
   compression + trailer (export hook); the decoded request must equal the original, and the original must be
   intact after the revert.  The compiler's own command-line code is run on every option list.
3. out-of-process: the thriftgo binary built from /repo runs the scriptable recording plugin
   (harness/cmd/thrift-gen-verifrec, built twice: reporting thriftgo v0.0.0 = no trailer support and v0.4.2 =
   trailer support, so THRIFTGO_PLUGIN_COMPRESS_INCLUDE=1 really compresses).  The request the plugin decoded is
   compared with the in-process one and with layer A of PluginParams; every run of the behaviour matrix becomes
   an event trace that TLC validates against Plugin.tla (Trace_Plugin); patches into the go backend's own files
   are compared with a plugin-less baseline.
"""
import concurrent.futures
import copy
import hashlib
import json
import os
import random
import shutil
import signal
import subprocess
import time

import vlib
import idl
import universe
import c11_programs as P

LEVEL = "model_checking"

REGISTRY = dict(
    level="model_checking",
    text="TLC enumerates include DAGs (<= 5 files; transcribed compress/decompress refines the identity), option "
         "lists and the plugin behaviour x response x time-limit matrix of the protocol spec; programs over the DAGs "
         "go through the real request codec in-process (plain and compressed) and through the thriftgo binary with "
         "a scriptable recording plugin; decoded requests are compared node for node with the compiler's, and every "
         "run's event trace (spawn, plugin fate, items fed, files on disk, exit status, warnings, kill on timeout) "
         "is validated by TLC against the abstract protocol spec composed with the FileManager spec.",
    design_ref="DESIGN.md 6 C11",
    note="Trusted: TLC, harness/pkg/c11canon (canonical form), the recording plugin, lib/c11_programs.py. Hook: "
         "plugin/export_verif.go (export only). Time is abstract in the spec: 'slow' = 2.5 s against a 300 ms limit, "
         "'fast' cases use a 20 s limit or none; slack 15 s.",
    technique="TLA+ refinement (include compression) + TLC-generated cases replayed in-process and on the binary + "
              "TLC trace validation")

FM_TLA = os.path.join(vlib.VERIF, "spec", "FileManager", "FileManager.tla")
MARK = "@@thriftgo_insertion_point(%s)"
SLACK_S = 15.0
SLOW_MS = 2500
RUN_TIMEOUT_S = 45

TIERS = {
    "quick": dict(maxn=4, maxp=2, maxg=2, maxitems=2, flav_per_dag=2, n_req=48, n_proto=96, n_sdk=24, partial_all=False,
                  n_argv_oop=24, shapes_depth=1),
    "thorough": dict(maxn=5, maxp=3, maxg=2, maxitems=3, flav_per_dag=2, n_req=900, n_proto=1400, n_sdk=400, partial_all=True,
                     n_argv_oop=200, shapes_depth=2),
}


# ------------------------------------------------------------------------------------------- helpers
def build_plugin(ctx, name, ver):
    """the recording plugin, with a go.mod that requires thriftgo <ver> (what debug/buildinfo will report)."""
    out = ctx.path("bin", name)
    hdir = os.path.join(vlib.VERIF, "harness")
    mf = ctx.path("mod-" + name, "go.mod")
    with open(os.path.join(hdir, "go.mod")) as fh:
        gm = fh.read()
    if "cloudwego/thriftgo v0.0.0" not in gm:
        raise vlib.MachineryError("harness/go.mod does not require thriftgo v0.0.0 any more")
    gm = gm.replace("cloudwego/thriftgo v0.0.0", "cloudwego/thriftgo " + ver).replace("=> /repo", "=> " + vlib.REPO)
    with open(mf, "w") as fh:
        fh.write(gm)
    shutil.copy(os.path.join(hdir, "go.sum"), ctx.path("mod-" + name, "go.sum"))
    p = ctx.run(["go", "build", "-tags", "verif", "-modfile", mf, "-o", out, "./cmd/thrift-gen-verifrec"],
                cwd=hdir, timeout=900, check=False)
    if p.returncode != 0:
        raise vlib.MachineryError("plugin build failed:\n" + p.stderr[-3000:])
    return out


def first_diff(a, b, path=""):
    if type(a) != type(b):
        return path, a, b
    if isinstance(a, dict):
        for k in sorted(set(a) | set(b)):
            if k not in a or k not in b:
                return path + "/" + k, a.get(k, "<absent>"), b.get(k, "<absent>")
            d = first_diff(a[k], b[k], path + "/" + k)
            if d:
                return d
        return None
    if isinstance(a, list):
        if len(a) != len(b):
            return path + "/#len", len(a), len(b)
        for i, (x, y) in enumerate(zip(a, b)):
            d = first_diff(x, y, "%s[%d]" % (path, i))
            if d:
                return d
        return None
    return None if a == b else (path, a, b)


def trunc(x, n=400):
    s = json.dumps(x, default=str)
    return s if len(s) <= n else s[:n] + "..."


def wellformed_struct(b, why=None):
    """schema-less: does b start with a well-formed thrift binary struct (fields ... STOP)?
    why (a list) receives "negative-ttype" when the parse stops at a type byte >= 0x80."""
    sizes = {2: 1, 3: 1, 4: 8, 6: 2, 8: 4, 10: 8}

    def val(t, i, depth):
        if depth > 32:
            raise ValueError
        if t in sizes:
            if i + sizes[t] > len(b):
                raise ValueError
            return i + sizes[t]
        if t == 11:
            if i + 4 > len(b):
                raise ValueError
            n = int.from_bytes(b[i:i + 4], "big", signed=True)
            if n < 0 or i + 4 + n > len(b):
                raise ValueError
            return i + 4 + n
        if t == 12:
            return struct(i, depth + 1)
        if t in (14, 15):
            if i + 5 > len(b):
                raise ValueError
            et = b[i]
            n = int.from_bytes(b[i + 1:i + 5], "big", signed=True)
            if n < 0:
                raise ValueError
            i += 5
            for _ in range(n):
                i = val(et, i, depth + 1)
            return i
        if t == 13:
            if i + 6 > len(b):
                raise ValueError
            kt, vt = b[i], b[i + 1]
            n = int.from_bytes(b[i + 2:i + 6], "big", signed=True)
            if n < 0:
                raise ValueError
            i += 6
            for _ in range(n):
                i = val(kt, i, depth + 1)
                i = val(vt, i, depth + 1)
            return i
        if t >= 0x80 and why is not None:
            why.append("negative-ttype")
        raise ValueError

    def struct(i, depth):
        while True:
            if i >= len(b):
                raise ValueError
            t = b[i]
            if t == 0:
                return i + 1
            if i + 3 > len(b):
                raise ValueError
            i = val(t, i + 3, depth)
    try:
        struct(0, 0)
        return True
    except (ValueError, IndexError, RecursionError):
        return False


def garbage_variants(rng):
    cand = [b"hello world\n", b"\xff" * 8, b'{"Contents":[]}\n', b"\x0b\x00", b"\x0f\x00\x02\x0c\xff\xff\xff\xff",
            b"\x0b\x00\x01\xff\xff\xff\xff", b"\x0c\x00\x01", b"\x7f\x00\x01\x00",
            b"\x0f\x00\x02\x0c\x00\x00\x00\x02\x0b\x00\x01\x00\x00\x00\x01x\x00",
            bytes(rng.randrange(1, 256) for _ in range(24)), bytes(rng.randrange(1, 256) for _ in range(3))]
    return [c for c in cand if not wellformed_struct(c)]


def render_segs(segs):
    return "".join(MARK % s["m"] if "m" in s else s["t"] for s in segs)


def write_prog(prog, root, comments=()):
    """idl.write_program plus comment lines before definitions/fields of the files listed in `comments`."""
    for f in prog["files"]:
        p = os.path.join(root, f["path"])
        os.makedirs(os.path.dirname(p), exist_ok=True)
        txt = idl.render_file(f)
        if f["path"] in comments:
            out = []
            for k, ln in enumerate(txt.split("\n")):
                s = ln.strip()
                if s and not s.startswith(("include", "cpp_include", "namespace", "}")):
                    out.append("/* c%d */" % k if k % 4 == 0 else "// c%d" % k)
                out.append(ln)
            txt = "\n".join(out)
        with open(p, "w", encoding="utf-8", newline="") as fh:
            fh.write(txt)
    return prog["files"][0]["path"]


def parallel(fn, items, workers):
    with concurrent.futures.ThreadPoolExecutor(max_workers=workers) as ex:
        return list(ex.map(fn, items))


# ------------------------------------------------------------------------------------------- TLC generation
def generate(ctx, t):
    w = max(2, vlib.NCPU // 3)
    jobs = {
        "dags": lambda: ctx.tlc("Plugin", "MC_Compress", "g.cfg", workers=w, timeout=1500, label="MC_Compress", files={
            "g.cfg": "SPECIFICATION Spec\nCONSTANTS\n  MaxN = %d\nINVARIANTS Correct Emit\nCHECK_DEADLOCK FALSE\n"
                     % t["maxn"]}),
        "params": lambda: ctx.tlc("Plugin", "MC_Params", "g.cfg", workers=w, timeout=1500, label="MC_Params", files={
            "g.cfg": "SPECIFICATION Spec\nCONSTANTS\n  MaxP = %d\n  MaxG = %d\nINVARIANTS Canonical Emit\n"
                     "CHECK_DEADLOCK FALSE\n" % (t["maxp"], t["maxg"])}),
        "proto": lambda: ctx.tlc("Plugin", "MC_Proto", "g.cfg", workers=w, timeout=1500, label="MC_Proto", files={
            "FileManager.tla": FM_TLA,
            "g.cfg": "SPECIFICATION MSpec\nCONSTANTS\n  Names = {\"a\", \"b\"}\n  Contents <- cContents\n"
                     "  Points = {\"p\"}\n  Texts = {\"P\"}\n  FreshPool = {\"a_1\", \"b_1\", \"a_2\", \"b_2\"}\n"
                     "  MaxItems = %d\nINVARIANTS MTypeOK MHonoured MNoOrphan MFileManager MNoStuck Emit\n"
                     "CHECK_DEADLOCK FALSE\n" % t["maxitems"]}),
    }
    with concurrent.futures.ThreadPoolExecutor(max_workers=4) as ex:
        futs = {k: ex.submit(f) for k, f in jobs.items()}
        fshapes = ex.submit(lambda: universe.enumerate_shapes(ctx, depth=t["shapes_depth"]))
        res = {k: ctx.tlc_cases(f.result()) for k, f in futs.items()}
        shapes = fshapes.result()
    dags, params = res["dags"], res["params"]
    # protocol cases: one per distinct case record; the allowed outcomes are those of its completed behaviours
    proto = {}
    for c in res["proto"]:
        key = json.dumps(c["cs"], sort_keys=True)
        e = proto.setdefault(key, dict(c, outcomes=[]))
        e["outcomes"].append({"rc": c["rc"], "files": c["files"]})
    proto = [proto[k] for k in sorted(proto)]
    # vacuity
    if not any(d["shared"] and d["n"] == t["maxn"] for d in dags) or not any(not d["shared"] and d["n"] > 1 for d in dags):
        raise vlib.MachineryError("vacuous DAG universe (no shared / no unshared include graph)")
    if not any(d["inc"] == [[2, 3], [4], [4], []] for d in dags):
        raise vlib.MachineryError("vacuous DAG universe: the diamond is missing")
    if not any(p["bare"] for p in params) or not any(p["repeated"] for p in params) \
            or not any("a=b" in p["text"] for p in params) or {"p", "g"} - {p["side"] for p in params}:
        raise vlib.MachineryError("vacuous option universe")
    behs = {c["cs"]["beh"] for c in proto}
    if behs != {"Ok", "ExitN", "Garbage", "Partial", "Empty", "Hang"}:
        raise vlib.MachineryError("vacuous behaviour universe: %s" % sorted(behs))
    for what, pred in (("killed", lambda c: c["killed"]), ("feed error", lambda c: c["ferr"]),
                       ("rename", lambda c: c["renamed"] > 0), ("patch", lambda c: c["patched"] > 0),
                       ("success", lambda c: c["rc"] == "zero"), ("response error", lambda c: c["cs"]["rerr"] != ""),
                       ("no limit", lambda c: c["cs"]["limit"] == 0), ("warnings", lambda c: len(c["cs"]["warns"]) == 2)):
        if not any(pred(c) for c in proto):
            raise vlib.MachineryError("vacuous behaviour universe: no case with " + what)
    vlib.log("TLC generated %d DAGs, %d option lists, %d protocol cases" % (len(dags), len(params), len(proto)))
    return dags, params, proto, shapes


# ------------------------------------------------------------------------------------------- programs
def make_programs(ctx, t, dags, shapes, rng):
    """[(pid, prog, meta)] : DAG programs with flavour vectors + shape-universe programs."""
    progs = []
    for d in dags:
        n = d["n"]
        if n >= 5:      # thousands of DAGs: one vector each, all-full for every other one
            vecs = [["full"] * n] if len(progs) % 2 == 0 else [[rng.choice(P.FLAVOURS) for _ in range(n)]]
        else:
            vecs = [["full"] * n]
            for _ in range(t["flav_per_dag"] - 1):
                vecs.append([rng.choice(P.FLAVOURS) for _ in range(n)])
        if n <= 2:
            vecs += [[a] + [b] * (n - 1) for a in P.FLAVOURS for b in P.FLAVOURS]
        seen = set()
        for v in vecs:
            if tuple(v) in seen:
                continue
            seen.add(tuple(v))
            sub = (len(progs) % 3 == 1)
            prog = P.dag_program(d, v, sub)
            progs.append(dict(prog=prog, dag=d, flav=v, subdirs=sub, kind="dag",
                              comments=[f["path"] for f, fl in zip(prog["files"], v) if fl == "full"]))
    base = universe.base_program(shapes)
    for name, pr in (("base", base), ("typedef", universe.present_typedef(base, 2)),
                     ("include", universe.present_include(base))):
        progs.append(dict(prog=pr, dag=None, flav=[name], subdirs=False, kind="shapes", comments=[]))
    feat = set()
    for p in progs:
        feat |= P.features(p["prog"])
    missing = P.REQUIRED_FEATURES - feat
    if missing:
        raise vlib.MachineryError("program universe lacks AST features: %s" % sorted(missing))
    for k, p in enumerate(progs):
        p["pid"] = k
    return progs


def materialise(ctx, p):
    root = ctx.mkdir("prog", str(p["pid"]))
    p["main"] = write_prog(p["prog"], os.path.join(root, "idl"), p["comments"])
    p["root"] = root
    return p


def expected_names(p, lst):
    """file names (as normalised by the parser relative to the idl dir) for a TLC list of file numbers"""
    return [("THRIFGO_REF:" if x < 0 else "") + P.fname(abs(x), p["subdirs"]) for x in lst]


# ------------------------------------------------------------------------------------------- stage: in-process codec
def run_c11req(ctx, c11req, cases, tag, nproc=None):
    """runs cases through cmd/c11req in parallel processes (it is sequential inside: chdir per case)."""
    nproc = nproc or min(vlib.NCPU, 16, max(1, len(cases) // 4))
    chunks = [cases[i::nproc] for i in range(nproc)]

    def one(k):
        if not chunks[k]:
            return []
        inf, outf = ctx.path("req", "%s-%d.in" % (tag, k)), ctx.path("req", "%s-%d.out" % (tag, k))
        vlib.write_ndjson(inf, chunks[k])
        ctx.run([c11req, inf, outf], timeout=1500, env={"GOMAXPROCS": "2", "GOGC": "400"})
        r = vlib.read_ndjson(outf)
        os.remove(inf)
        os.remove(outf)
        if len(r) != len(chunks[k]):
            raise vlib.MachineryError("c11req returned %d results for %d cases" % (len(r), len(chunks[k])))
        return r
    res = parallel(one, range(nproc), nproc)
    by_id = {}
    for r in res:
        for o in r:
            by_id[json.dumps(o["id"])] = o
    return [by_id[json.dumps(c["id"])] for c in cases]


def codec_case(p, mode="idl", full=False):
    if mode == "idl":
        cwd, main = os.path.join(p["root"], "idl"), p["main"]
    else:
        cwd, main = p["root"], os.path.join("idl", p["main"])
    return {"id": [p["pid"], mode], "cwd": cwd, "idl": main, "includes": [], "lang": "go", "out": "./gen-go",
            "recursive": False, "gparams": ["no_fmt="], "pparams": ["k1=v", "k2="], "full": full}


def stage_codec(ctx, c11req, progs):
    cases = [codec_case(p, "idl") for p in progs] + [codec_case(p, "parent") for p in progs if p["pid"] % 7 == 0]
    obs = run_c11req(ctx, c11req, cases, "codec")
    bad = []
    refs = {}
    drift = 0
    for c, o in zip(cases, obs):
        p = progs[c["id"][0]]
        if o.get("err"):
            raise vlib.MachineryError("the front end rejects generated program %s (%s): %s" % (
                p["pid"], o.get("stage"), o["err"][:600]))
        refs[(p["pid"], c["id"][1])] = o["orig"]
        problems = []
        for leg in ("plain", "compress"):
            d = o.get(leg) or {}
            if d.get("err"):
                problems.append((leg + "-decode-failed", d["err"][:300]))
            elif d.get("hash") != o["orig"]["hash"]:
                problems.append((leg + "-differs", None))
        r = o.get("restored") or {}
        if r.get("hash") != o["orig"]["hash"] or r.get("sharing") != o["orig"]["sharing"]:
            problems.append(("ast-not-restored-after-compression", None))
        dag = p["dag"]
        cls = "codec: kind=%s n=%s shared=%s flav=%s cwd=%s" % (
            p["kind"], dag["n"] if dag else len(p["prog"]["files"]), dag["shared"] if dag else "-",
            ",".join(sorted(set(p["flav"]))), c["id"][1])
        ctx.count(1, cls)
        if dag and c["id"][1] == "idl":
            # layer B honesty (no verdict): the real DFS order and the real compressed shape are the transcribed ones
            if o["orig"]["files"] != expected_names(p, dag["unfold"]) or o.get("compressed") != expected_names(p, dag["wire"]):
                drift += 1
            if (len(set(o["orig"]["sharing"])) < len(o["orig"]["sharing"])) != dag["shared"]:
                raise vlib.MachineryError("sharing of program %d is not the DAG's" % p["pid"])
        if o["sizes"].get("blength") != o["sizes"].get("plain"):
            ctx.notes.append("BLength %s != encoded length %s for program %d (not part of C11)" % (
                o["sizes"].get("blength"), o["sizes"].get("plain"), p["pid"]))
        if problems:
            bad.append((c, p, problems))
    if drift:
        ctx.notes.append("layer B drift: on %d programs the real DFS order / compressed shape differs from "
                         "PluginInclude.tla's transcription (no verdict; the transcription needs an update)" % drift)
    if obs:
        o = obs[len(obs) // 2]
        ctx.sample({"stage": "codec", "program": progs[cases[len(obs) // 2]["id"][0]]["flav"],
                    "orig": {k: o["orig"][k] for k in ("hash", "sharing", "files")},
                    "compressed": o.get("compressed"), "sizes": o["sizes"]})
    # diagnose (full trees) at most 5 failing programs
    for c, p, problems in bad[:5]:
        c2 = dict(c, full=True)
        o = run_c11req(ctx, c11req, [c2], "codecdiag", 1)[0]
        for kind, msg in problems:
            leg = {"plain-differs": "plain", "compress-differs": "compress",
                   "ast-not-restored-after-compression": "restored"}.get(kind)
            diff = None
            if leg and o.get(leg, {}).get("req") is not None:
                diff = first_diff(o["orig"]["req"], o[leg]["req"])
            ctx.violation({"check": "C11.codec", "kind": kind}, {"stage": "codec", "program": p["prog"], "case": c,
                                                                 "comments": p["comments"]},
                          {"first_difference": trunc(diff), "message": msg,
                           "sharing": [o["orig"]["sharing"], o.get(leg or "plain", {}).get("sharing")]},
                          "decoded request == request built (canonical form, node for node)",
                          "request codec round trip: " + kind)
    for c, p, problems in bad[5:]:
        for kind, msg in problems:
            ctx.violation({"check": "C11.codec", "kind": kind}, {"stage": "codec", "program": p["prog"], "case": c,
                                                                 "comments": p["comments"]},
                          {"message": msg}, "decoded request == request built", "request codec round trip: " + kind)
    return refs


# ------------------------------------------------------------------------------------------- stage: argv in-process
def params_ok(obs, allowed):
    return len(obs) == len(allowed) and all(o in a for o, a in zip(obs, allowed))


def stage_argv(ctx, c11req, params):
    cases = []
    for k, p in enumerate(params):
        if p["side"] == "p":
            arg = "verifrec=/some/where/bin" + (":" + p["text"] if p["n"] else "")
            argv = ["-g", "go", "-p", arg, "x.thrift"]
        else:
            argv = ["-g", "go" + (":" + p["text"] if p["n"] else ""), "x.thrift"]
        cases.append({"id": k, "kind": "argv", "argv": argv})
    obs = run_c11req(ctx, c11req, cases, "argv")
    for p, c, o in zip(params, cases, obs):
        ctx.count(1, "argv: side=%s n=%d bare=%d repeated=%s" % (p["side"], p["n"], p["bare"], p["repeated"]))
        got = None
        if not o.get("err"):
            lst = o["plugins"] if p["side"] == "p" else o["targets"]
            got = lst[0]["params"] if len(lst) == 1 else None
        if got is None or not params_ok(got, p["allowed"]):
            ctx.violation({"check": "C11.argv", "kind": "parameters-differ", "side": p["side"]},
                          {"stage": "argv", "param": p, "argv": c["argv"]}, {"observed": o},
                          {"allowed": p["allowed"]}, "command-line options do not become the request parameters in order")


# ------------------------------------------------------------------------------------------- out-of-process runner
class Bins:
    pass


def proc_alive(pid):
    try:
        os.kill(pid, 0)
    except ProcessLookupError:
        return False
    except PermissionError:
        return True
    try:
        with open("/proc/%d/stat" % pid) as fh:
            st = fh.read().rsplit(")", 1)[1].split()[0]
        return st != "Z"
    except OSError:
        return False


def find_by_env(d):
    """pids of processes started with VERIFREC_DIR=<d> (fallback when a pid file is missing)"""
    out = []
    needle = ("VERIFREC_DIR=" + d).encode()
    for e in os.listdir("/proc"):
        if not e.isdigit():
            continue
        try:
            with open("/proc/%s/environ" % e, "rb") as fh:
                env = fh.read()
            if needle + b"\0" in env + b"\0":
                with open("/proc/%s/cmdline" % e, "rb") as fh:
                    if b"verifrec" in fh.read():
                        out.append(int(e))
        except OSError:
            pass
    return out


def oop_run(ctx, bins, c):
    """Runs thriftgo on one case.  c: id, prog (+comments), cwd_mode, rec, out_mode, targets [{lang, text}],
    plugins [{bin, payload, ctl_pos, script, full}], compress_env, limit.  Returns the observation."""
    d = ctx.mkdir("oop", str(c["id"]))
    shutil.rmtree(d, ignore_errors=True)
    os.makedirs(d)
    main = write_prog(c["prog"], os.path.join(d, "idl"), c.get("comments", ()))
    if c.get("cwd_mode", "idl") == "idl":
        cwd, idlarg = os.path.join(d, "idl"), main
    else:
        cwd, idlarg = d, os.path.join("idl", main)
    argv = [bins.thriftgo]
    if c.get("rec"):
        argv.append("-r")
    if c.get("out_mode", "abs") == "abs":
        outdir = os.path.join(d, "out")
        argv += ["-o", outdir]
        outarg = [outdir] * len(c["targets"])
    else:
        outarg = ["./gen-" + t["lang"] for t in c["targets"]]
        outdir = os.path.join(cwd, "gen-" + c["targets"][0]["lang"])
    if c.get("limit") is not None:
        argv += ["--plugin-time-limit", c["limit"]]
    for t in c["targets"]:
        argv += ["-g", t["lang"] + (":" + t["text"] if t["text"] else "")]
    plug = []
    for j, pl in enumerate(c["plugins"]):
        ctl = ["verif_dump=%s/dump%d.json" % (d, j), "verif_script=%s/script%d.json" % (d, j),
               "verif_pid=%s/pid%d" % (d, j)]
        if pl.get("full"):
            ctl.append("verif_full=1")
        script = copy.deepcopy(pl["script"])
        for it in script.get("items", []):
            if "name" in it and not os.path.isabs(it["name"]):
                it["name"] = os.path.join(outdir, it["name"])
        with open("%s/script%d.json" % (d, j), "w") as fh:
            json.dump(script, fh)
        parts = ([",".join(ctl)] + ([pl["payload"]] if pl["payload"] else [])) if pl.get("ctl_pos", "first") == "first" \
            else (([pl["payload"]] if pl["payload"] else []) + [",".join(ctl)])
        if pl.get("noctl"):
            # no option text at all: this plugin's request must carry an empty PluginParameters list
            argv += ["-p", "verifrec=%s" % getattr(bins, pl["bin"])]
        elif pl.get("byname"):
            # `-p name`: thriftgo looks for thrift-gen-<name> on PATH
            argv += ["-p", "%s:%s" % (os.path.basename(getattr(bins, pl["bin"]))[len("thrift-gen-"):], ",".join(parts))]
        else:
            argv += ["-p", "verifrec=%s:%s" % (getattr(bins, pl["bin"]), ",".join(parts))]
        plug.append(dict(ctl=ctl, first=pl.get("ctl_pos", "first") == "first"))
    argv.append(idlarg)
    env = dict(ctx.env)
    env["VERIFREC_DIR"] = d
    env["PATH"] = os.path.dirname(bins.rec0) + os.pathsep + env.get("PATH", "")
    env.pop("THRIFTGO_PLUGIN_COMPRESS_INCLUDE", None)
    env.pop("THRIFTGO_DEBUG", None)
    if c.get("compress_env") is not None:
        env["THRIFTGO_PLUGIN_COMPRESS_INCLUDE"] = c["compress_env"]
    t0 = time.time()
    pr = subprocess.Popen(argv, cwd=cwd, env=env, stdout=subprocess.PIPE, stderr=subprocess.PIPE,
                          stdin=subprocess.DEVNULL, start_new_session=True)
    timed_out = False
    try:
        so, se = pr.communicate(timeout=c.get("timeout", RUN_TIMEOUT_S))
    except subprocess.TimeoutExpired:
        timed_out = True
        try:
            os.killpg(pr.pid, signal.SIGKILL)
        except OSError:
            pass
        so, se = pr.communicate()
    elapsed = time.time() - t0
    obs = {"rc": "timeout" if timed_out else pr.returncode, "elapsed": round(elapsed, 3),
           "stdout": so.decode("utf-8", "replace")[-3000:], "stderr": se.decode("utf-8", "replace")[-6000:],
           "argv": argv, "cwd": cwd, "outdir": outdir, "outarg": outarg, "plug": plug}
    # plugin processes
    pids = set()
    for j in range(len(c["plugins"])):
        try:
            pids.add(int(open("%s/pid%d" % (d, j)).read().strip()))
        except (OSError, ValueError):
            pass
    try:
        pids.add(int(open(os.path.join(d, "pid")).read().strip()))
    except (OSError, ValueError):
        pass
    obs["started"] = bool(pids)
    if c.get("scan_procs"):
        pids |= set(find_by_env(d))
    alive = [p for p in pids if proc_alive(p)]
    if alive:
        time.sleep(0.4)
        alive = [p for p in alive if proc_alive(p)]
    obs["alive"] = bool(alive)
    for p in alive:
        try:
            os.kill(p, signal.SIGKILL)
        except OSError:
            pass
    for p in find_by_env(d) if (alive or timed_out) else []:
        try:
            os.kill(p, signal.SIGKILL)
        except OSError:
            pass
    # dumps
    obs["dumps"] = []
    for j in range(len(c["plugins"])):
        lst = []
        for suffix in [""] + [".%d" % k for k in range(2, 8)]:
            f = "%s/dump%d.json%s" % (d, j, suffix)
            if not os.path.exists(f):
                break
            try:
                lst.append(json.load(open(f)))
            except ValueError:
                lst.append({"err": "unreadable dump"})
        obs["dumps"].append(lst)
    obs["noctl_dumps"] = []
    for suffix in [""] + [".%d" % k for k in range(2, 8)]:
        f = "%s/dump-noctl.json%s" % (d, suffix)
        if not os.path.exists(f):
            break
        try:
            obs["noctl_dumps"].append(json.load(open(f)))
        except ValueError:
            obs["noctl_dumps"].append({"err": "unreadable dump"})
    if os.path.exists(os.path.join(d, "decode_error.json")):
        obs["decode_error"] = open(os.path.join(d, "decode_error.json")).read()[:1000]
    # files
    files = {}
    roots = {outdir} | {os.path.join(cwd, o) if not os.path.isabs(o) else o for o in outarg}
    for r in roots:
        for dp, _, fns in os.walk(r):
            for fn in fns:
                fp = os.path.join(dp, fn)
                with open(fp, "rb") as fh:
                    files[os.path.relpath(fp, outdir)] = fh.read().decode("utf-8", "replace")
    obs["files"] = files
    if not os.environ.get("VERIF_KEEP"):
        shutil.rmtree(d, ignore_errors=True)
    return obs


def expected_heads(c, obs, version):
    """[(plugin j, target t, {field: allowed})] in the order the plugin invocations happen: per target, per plugin"""
    out = []
    for ti, t in enumerate(c["targets"]):
        for j, pl in enumerate(c["plugins"]):
            ctl = [[x] for x in obs["plug"][j]["ctl"]]
            pa = (ctl + pl["allowed"]) if obs["plug"][j]["first"] else (pl["allowed"] + ctl)
            out.append((j, ti, {"Version": version, "Language": t["lang"], "OutputPath": obs["outarg"][ti],
                                "Recursive": bool(c.get("rec")), "GeneratorParameters": t["allowed"],
                                "PluginParameters": pa}))
    return out


def check_request(c, obs, version, ref):
    """-> list of (kind, detail) problems of the decoded requests; ref = in-process dump of the compiler's request"""
    probs = []
    seen = [0] * len(c["plugins"])
    for j, ti, head in expected_heads(c, obs, version):
        k = seen[j]
        seen[j] += 1
        if k >= len(obs["dumps"][j]):
            if "decode_error" in obs:
                probs.append(("request-undecodable", obs["decode_error"][:300]))
            else:
                probs.append(("plugin-not-run", "plugin %d target %d: no request decoded" % (j, ti)))
            continue
        d = obs["dumps"][j][k]
        if d.get("err") or "head" not in d:
            probs.append(("request-undecodable", str(d.get("err"))[:300]))
            continue
        h = d["head"]
        for f in ("Version", "Language", "OutputPath", "Recursive"):
            if h.get(f) != head[f]:
                probs.append(("head-" + f, "plugin %d target %d: %r, expected %r" % (j, ti, h.get(f), head[f])))
        for f in ("GeneratorParameters", "PluginParameters"):
            if not params_ok(h.get(f) or [], head[f]):
                probs.append(("head-" + f, "plugin %d target %d: %r, allowed %r" % (j, ti, h.get(f), head[f])))
        if d.get("ast_hash") != ref["ast_hash"]:
            probs.append(("ast-differs", "plugin %d target %d (trailer=%s)" % (j, ti, d.get("extra", {}).get("trailer"))))
    for j in range(len(c["plugins"])):
        if len(obs["dumps"][j]) > seen[j]:
            probs.append(("plugin-run-too-often", "plugin %d decoded %d requests" % (j, len(obs["dumps"][j]))))
    return probs


# ------------------------------------------------------------------------------------------- stage: requests on the binary
def pick(rng, lst):
    return lst[rng.randrange(len(lst))]


def stage_requests(ctx, bins, c11req, progs, refs, params, t, version, only=None):
    rng = random.Random(ctx.seed * 7919 + 11)
    pp = [p for p in params if p["side"] == "p"]
    gp = [p for p in params if p["side"] == "g"]
    if only is not None:
        cases = only
    else:
        cases = []
        dagp = [p for p in progs if p["kind"] == "dag"]
        shared = [p for p in dagp if p["dag"]["shared"]]
        modes = [("rec0", None), ("rec42", "1"), ("rec0", "1"), ("rec42", "0"), ("rec42", "1"), ("rec42", "1")]
        for k in range(t["n_req"]):
            if k < 6:
                pool = [p for p in shared if p["dag"]["inc"] == [[2, 3], [4], [4], []]]
            else:
                pool = shared if k % 3 else progs
            p = pick(rng, pool)
            binname, cenv = modes[k % len(modes)]
            ntargets = 2 if k % 5 == 4 else 1
            nplug = 2 if k % 4 == 3 else 1
            targets = []
            for _ in range(ntargets):
                g = pick(rng, gp)
                targets.append({"lang": "go", "text": g["text"], "allowed": g["allowed"]})
            plugins = []
            for j in range(nplug):
                q = pick(rng, pp)
                plugins.append({"bin": binname, "payload": q["text"], "allowed": q["allowed"],
                                "ctl_pos": "first" if (k + j) % 2 == 0 else "last", "byname": k % 7 == 2,
                                "script": {"mode": "ok", "items": [
                                    {"k": "File", "name": "pl%d/own.txt" % j, "content": "own %d\n" % j}]}})
            cases.append({"id": "r%d" % k, "stage": "request", "pid": p["pid"], "prog": p["prog"],
                          "comments": p["comments"], "cwd_mode": "parent" if p["pid"] % 7 == 0 and k % 2 else "idl",
                          "rec": k % 3 == 1, "out_mode": "default" if k % 6 == 5 else "abs", "targets": targets,
                          "plugins": plugins, "compress_env": cenv, "limit": None if k % 2 else "20s",
                          "shared": bool(p["dag"] and p["dag"]["shared"]),
                          "cls": "n=%s shared=%s flav=%s" % (p["dag"]["n"] if p["dag"] else "-",
                                                             p["dag"]["shared"] if p["dag"] else "-",
                                                             ",".join(sorted(set(p["flav"]))))})

    def ref_of(c):
        key = (c.get("pid"), c.get("cwd_mode", "idl"))
        if key in refs:
            return refs[key]
        # replay: compute the in-process reference for this program
        p = materialise(ctx, dict(pid="replay", prog=c["prog"], comments=c.get("comments", [])))
        o = run_c11req(ctx, c11req, [codec_case(p, c.get("cwd_mode", "idl"))], "ref", 1)[0]
        if o.get("err"):
            raise vlib.MachineryError("front end rejects the replayed program: " + o["err"][:300])
        return o["orig"]

    def judge(c, obs):
        probs = []
        if obs["rc"] != 0:
            probs.append(("thriftgo-failed", "exit status %s" % obs["rc"]))
        if "Recovered from panic" in obs["stdout"] + obs["stderr"]:
            probs.append(("thriftgo-panicked", (obs["stdout"] + obs["stderr"])[:400]))
        probs += check_request(c, obs, version, ref_of(c))
        want_trailer = c["compress_env"] == "1" and all(pl["bin"] == "rec42" for pl in c["plugins"])
        for lst in obs["dumps"]:
            for d in lst:
                tr = d.get("extra", {}).get("trailer")
                c["_trailer"] = tr
                if tr and not want_trailer:
                    # compression although not enabled / not supported by the plugin: allowed by the statement as
                    # long as the plugin decodes the right request; recorded only
                    ctx.notes.append("trailer present although compression should be off in case %s" % c["id"])
        for j in range(len(c["plugins"])):
            own = "pl%d/own.txt" % j
            if obs["rc"] == 0 and obs["files"].get(own) != "own %d\n" % j:
                probs.append(("plugin-file-missing", own))
        return probs

    obs_all = parallel(lambda c: oop_run(ctx, bins, c), cases, bins.workers)
    nviol = 0
    for c, obs in zip(cases, obs_all):
        probs = judge(c, obs)
        if probs:
            c2 = dict(c, plugins=[dict(pl, full=True) for pl in c["plugins"]])
            obs2 = oop_run(ctx, bins, c2)         # once more (flakiness), with full dumps for the diagnosis
            probs2 = judge(c2, obs2)
            if not probs2:
                ctx.notes.append("case %s failed once and passed on re-execution: %s" % (c["id"], probs[:2]))
                probs = []
            else:
                probs, obs = probs2, obs2
        ctx.count(1, "request: %s comp=%s trailer=%s targets=%d plugins=%d rec=%s out=%s cwd=%s byname=%s" % (
            c.get("cls"), c["compress_env"], c.get("_trailer"), len(c["targets"]), len(c["plugins"]),
            bool(c.get("rec")), c.get("out_mode"), c.get("cwd_mode"), bool(c["plugins"][0].get("byname"))))
        if probs:
            nviol += 1
            kinds = sorted({k for k, _ in probs})
            kind = "multi-target-plugins" if len(c["targets"]) > 1 and (
                "thriftgo-panicked" in kinds or "plugin-not-run" in kinds or "plugin-run-too-often" in kinds) else kinds[0]
            diff = None
            if "ast-differs" in kinds:
                full = [d for lst in obs["dumps"] for d in lst if d.get("req")]
                if full:
                    p = materialise(ctx, dict(pid="diag-" + str(c["id"]), prog=c["prog"], comments=c.get("comments", [])))
                    o = run_c11req(ctx, c11req, [codec_case(p, c.get("cwd_mode", "idl"), full=True)], "diag", 1)[0]
                    for d in full:
                        diff = diff or first_diff(o["orig"]["req"]["AST"], d["req"]["AST"])
            cc = {k: v for k, v in c.items() if not k.startswith("_")}
            ctx.violation({"check": "C11.request", "kind": kind, "targets": len(c["targets"])}, cc,
                          {"problems": probs[:8], "first_ast_difference": trunc(diff), "rc": obs["rc"],
                           "stderr": obs["stderr"][-800:], "stdout": obs["stdout"][-800:], "argv": obs["argv"]},
                          "every plugin invocation decodes the compiler's request (layer A head, in-process AST), "
                          "thriftgo exits 0 and the plugins' files are written",
                          "request seen by the plugin / honouring of an ok response: " + ", ".join(kinds))
    if cases and only is None and not ctx.violations and not ctx.known_hits:
        if not any(c.get("_trailer") for c in cases):
            raise vlib.MachineryError("no out-of-process case ran with include compression (trailer never seen)")
        if not any(c.get("_trailer") and c["shared"] for c in cases):
            raise vlib.MachineryError("no compressed out-of-process case with a shared include")
        c, obs = cases[1], obs_all[1]
        ctx.sample({"stage": "request", "argv": obs["argv"][1:], "rc": obs["rc"],
                    "head_decoded": obs["dumps"][0][0].get("head") if obs["dumps"] and obs["dumps"][0] else None,
                    "trailer": c.get("_trailer")})
    return nviol


# ------------------------------------------------------------------------------------------- stage: protocol traces
def proto_program():
    d = {"n": 4, "inc": [[2, 3], [4], [4], []]}
    return P.dag_program(d, ["refs", "full", "plain", "refs"], False)


def proto_variants(cs, rng, t):
    """refinements of an abstract case that the spec does not distinguish (which garbage, where the cut is)"""
    if cs["beh"] == "Garbage":
        g = garbage_variants(rng)
        return [{"garbage_hex": pick(rng, g).hex()}]
    if cs["beh"] == "Partial":
        return [pick(rng, [{"cut": pick(rng, [1, 2, 3])}, {"cut": -1}, {"cut_permil": pick(rng, [300, 500, 700])}])]
    return [{}]


def proto_case(cs, k, variant):
    beyond = cs["limit"] > 0 and (cs["beh"] == "Hang" or (cs["dur"] == "slow" and cs["limit"] < SLOW_MS))
    sc = {"mode": {"Ok": "ok", "ExitN": "exit", "Garbage": "garbage", "Partial": "partial", "Empty": "empty",
                   "Hang": "hang"}[cs["beh"]], "items": [], "warnings": list(cs["warns"])}
    for it in cs["items"]:
        if it["k"] == "File":
            sc["items"].append({"k": "File", "name": "pl/%s.txt" % it["name"], "content": render_segs(it["content"])})
        elif it["k"] == "UPatch":
            sc["items"].append({"k": "UPatch", "pt": it["pt"], "text": it["text"]})
        else:
            sc["items"].append({"k": "NPatch", "name": "pl/%s.txt" % it["name"], "pt": it["pt"], "text": it["text"]})
    if cs["rerr"]:
        sc["error"] = cs["rerr"]
    if cs["beh"] == "ExitN":
        sc["exit"] = cs["code"]
        sc["write_first"] = cs["wrote"]
    if cs["dur"] == "slow":
        sc["delay_ms"] = SLOW_MS
    sc.update(variant)
    return {"id": "p%d" % k, "stage": "proto", "cs": cs, "variant": variant, "prog": proto_program(), "comments": [],
            "targets": [{"lang": "go", "text": "no_fmt", "allowed": [["no_fmt", "no_fmt="]]}],
            "plugins": [{"bin": "rec42" if k % 2 else "rec0", "payload": "k1=v", "allowed": [["k1=v"]],
                         "ctl_pos": "first", "script": sc}],
            "compress_env": "1" if k % 4 == 1 else None,
            "limit": {0: "0", 300: "300ms", 20000: "20s"}[cs["limit"]],
            "beyond": beyond, "scan_procs": beyond,
            "timeout": 30 if beyond else RUN_TIMEOUT_S}


def proto_trace(c, obs, version, ref):
    cs = c["cs"]
    tr = [{"ev": "Case", "cs": cs}]
    dumped = bool(obs["dumps"] and obs["dumps"][0])
    same = dumped and not check_request(c, obs, version, ref)
    tr.append({"ev": "Spawn", "same": bool(same), "dumped": dumped, "started": bool(obs["started"]),
               "undecodable": "decode_error" in obs})
    tr.append({"ev": "Gone", "alive": bool(obs["alive"])})
    proper = cs["beh"] == "Ok" and cs["rerr"] == "" and not c["beyond"]
    if proper:
        tr.append({"ev": "Begin"})
        for it in cs["items"]:
            tr.append(dict(it, ev=it["k"]))
        resp = []
        if obs["rc"] == 0:
            for rel, content in sorted(obs["files"].items()):
                if rel.startswith("pl" + os.sep):
                    resp.append({"name": rel[3:-4] if rel.endswith(".txt") else rel[3:], "content": content})
        tr.append({"ev": "End", "err": obs["rc"] != 0, "resp": resp})
    limit_s = cs["limit"] / 1000.0
    warned = True
    pos = 0
    for w in cs["warns"]:
        i = obs["stderr"].find("[WARN] " + w, pos)
        if i < 0:
            warned = False
            break
        pos = i + 1
    tr.append({"ev": "Exit", "rc": "zero" if obs["rc"] == 0 else ("timeout" if obs["rc"] == "timeout" else "nonzero"),
               "intime": obs["rc"] != "timeout" and obs["elapsed"] <= limit_s + SLACK_S, "warned": warned,
               "elapsed_ms": int(obs["elapsed"] * 1000)})
    for e in tr:
        e.pop("k", None)
    return tr


def classify_proto(c, tr, at):
    ev = tr[at - 1] if 0 < at <= len(tr) else None
    cs = c["cs"]
    if ev is None:
        return "trace-incomplete"
    if ev["ev"] == "Spawn":
        return "request-differs" if ev.get("dumped") else (
            "request-undecodable" if ev.get("undecodable") else "plugin-not-run")
    if ev["ev"] == "Gone":
        return "plugin-alive-after-thriftgo" if ev["alive"] else "plugin-not-run"
    if ev["ev"] == "End":
        return "good-response-rejected" if ev["err"] else "output-not-as-specified"
    if ev["ev"] == "Exit":
        good = cs["beh"] == "Ok" and not cs["rerr"] and not c["beyond"]
        if ev["rc"] == "timeout":
            return "thriftgo-did-not-return"
        if ev["rc"] == "zero":
            if not good:
                return "exit-0-despite-%s" % ("response-error" if cs["beh"] == "Ok" and cs["rerr"] else
                                              "timeout" if c["beyond"] else cs["beh"])
            return "warnings-not-shown" if not ev["warned"] else "exit-0-not-allowed"
        if c["beyond"] and not ev["intime"]:
            return "not-within-time-limit"
        return "nonzero-exit-for-good-response" if good else "nonzero-exit-not-allowed"
    return "rejected-at-" + ev["ev"]


def validate_proto(ctx, cases, traces):
    tf = ctx.path("proto-traces.ndjson")
    vlib.write_ndjson(tf, traces)
    files = {"traces.ndjson": tf, "FileManager.tla": FM_TLA}
    r = ctx.tlc("Plugin", "Trace_Plugin", "Trace_Plugin", files=files, timeout=1500, label="Trace_Plugin",
                workers=min(vlib.NCPU, 4 if len(traces) < 400 else 16))
    acc = {int(s[4:]) - 1 for s in r["lines"] if s.startswith("ACC ")}
    rej = [i for i in range(len(traces)) if i not in acc]
    ctx.traces_validated += len(traces)
    reach = {}
    if rej:
        sub = rej[:600]
        df = ctx.path("proto-diag.ndjson")
        vlib.write_ndjson(df, [traces[i] for i in sub])
        r = ctx.tlc("Plugin", "Trace_Plugin", "Trace_Plugin_diag", files=dict(files, **{"traces.ndjson": df}),
                    timeout=900, workers=1, label="Trace_Plugin_diag")
        for s in r["lines"]:
            if s.startswith("AT "):
                _, a, b = s.split()
                reach[sub[int(a) - 1]] = max(reach.get(sub[int(a) - 1], 0), int(b))
    return rej, reach


def sdk_traces(ctx, c11req, proto, t, version, only=None):
    """SDK plugins (plugin.SDKPlugin, run inside the compiler by sdk.InvokeThriftgo): the Ok cases of the protocol
    universe, in-process.  Returns [(case, trace)] for validation against Plugin.tla together with the process runs."""
    rng = random.Random(ctx.seed * 31337 + 3)
    if only is not None:
        chosen = [c["cs"] for c in only]
    else:
        pool = [c for c in proto if c["cs"]["beh"] == "Ok" and c["cs"]["dur"] == "fast" and c["cs"]["limit"] == 0]
        strata = {}
        for c in pool:
            cs = c["cs"]
            strata.setdefault((bool(cs["rerr"]), len(cs["warns"]), tuple(i["k"] for i in cs["items"]), c["rc"],
                               c["renamed"], c["patched"]), []).append(cs)
        keys = sorted(strata, key=str)
        rng.shuffle(keys)
        chosen = [pick(rng, strata[k]) for k in keys[:t["n_sdk"]]]
        if not any(cs["warns"] and not cs["rerr"] for cs in chosen):
            raise vlib.MachineryError("vacuous SDK sample: no successful case with warnings")
    p = materialise(ctx, dict(pid="sdk", prog=proto_program(), comments=[]))
    cases = []
    for k, cs in enumerate(chosen):
        outdir = ctx.mkdir("sdk", str(k), "out")
        items = []
        for it in cs["items"]:
            if it["k"] == "File":
                items.append({"k": "File", "name": "%s/pl/%s.txt" % (outdir, it["name"]), "content": render_segs(it["content"])})
            elif it["k"] == "UPatch":
                items.append({"k": "UPatch", "pt": it["pt"], "text": it["text"]})
            else:
                items.append({"k": "NPatch", "name": "%s/pl/%s.txt" % (outdir, it["name"]), "pt": it["pt"], "text": it["text"]})
        params = [["k1=v", "k2="], [], ["a=b=c"]][k % 3]
        cases.append({"id": k, "kind": "sdk", "cwd": os.path.join(p["root"], "idl"), "idl": p["main"], "includes": [],
                      "argv": ["-g", "go:no_fmt", "-o", outdir, p["main"]],
                      "sdk": {"items": items, "warnings": cs["warns"], "error": cs["rerr"], "params": params},
                      "_cs": cs, "_out": outdir, "_params": params})
    obs = run_c11req(ctx, c11req, [{k: v for k, v in c.items() if not k.startswith("_")} for c in cases], "sdk",
                     nproc=min(4, max(1, len(cases) // 8)))
    out = []
    for c, o in zip(cases, obs):
        cs = c["_cs"]
        if o.get("ref_err"):
            raise vlib.MachineryError("front end rejects the protocol program: " + o["ref_err"][:300])
        ok = not o["err"] and not o["panic"]
        dumped = len(o["dumps"]) == 1
        same = False
        if dumped:
            h = o["dumps"][0]["head"]
            same = (h["Version"] == version and h["Language"] == "go" and h["OutputPath"] == c["_out"]
                    and h["Recursive"] is False and params_ok(h["GeneratorParameters"], [["no_fmt", "no_fmt="]])
                    and h["PluginParameters"] == c["_params"] and o["dumps"][0]["ast_hash"] == o["ref_ast"])
        tr = [{"ev": "Case", "cs": cs}, {"ev": "Spawn", "same": bool(same), "dumped": dumped, "started": dumped},
              {"ev": "Gone", "alive": False}]
        if not cs["rerr"]:
            tr.append({"ev": "Begin"})
            for it in cs["items"]:
                e = dict(it, ev=it["k"])
                e.pop("k")
                tr.append(e)
            resp = []
            pl = os.path.join(c["_out"], "pl")
            if ok and os.path.isdir(pl):
                for fn in sorted(os.listdir(pl)):
                    with open(os.path.join(pl, fn), encoding="utf-8", errors="replace") as fh:
                        resp.append({"name": fn[:-4] if fn.endswith(".txt") else fn, "content": fh.read()})
            tr.append({"ev": "End", "err": not ok, "resp": resp})
        warned, pos = True, 0
        for w in cs["warns"]:
            i = o["stderr"].find("[WARN] " + w, pos)
            if i < 0:
                warned = False
                break
            pos = i + 1
        tr.append({"ev": "Exit", "rc": "zero" if ok else "nonzero", "intime": True, "warned": warned, "elapsed_ms": 0})
        shutil.rmtree(os.path.dirname(c["_out"]), ignore_errors=True)
        out.append(({"id": "s%d" % c["id"], "stage": "sdk", "cs": cs, "beyond": False},
                    tr, {"err": o["err"], "panic": o["panic"][:600], "stderr": o["stderr"][-600:], "dumps": o["dumps"]}))
        ctx.count(1, "sdk: rerr=%s warns=%d items=%s" % (bool(cs["rerr"]), len(cs["warns"]),
                                                          "+".join(i["k"] for i in cs["items"]) or "-"))
    return out


def stage_proto(ctx, bins, c11req, proto, t, version, only=None, sdk=()):
    rng = random.Random(ctx.seed * 104729 + 5)
    if only is not None:
        cases = only
    else:
        # stratified sample: classes = (behaviour, timing, error, item kinds, outcome)
        strata = {}
        for c in proto:
            cs = c["cs"]
            key = (cs["beh"], cs["dur"], cs["limit"], bool(cs["rerr"]), len(cs["warns"]),
                   tuple(i["k"] for i in cs["items"]), c["rc"], c["ferr"], c["renamed"], c["patched"],
                   cs.get("code"), cs.get("wrote"))
            strata.setdefault(key, []).append(c)
        def round_robin(keys, n):
            got, rounds = [], 0
            while len(got) < n and rounds < 60:
                for k in keys:
                    if rounds < len(strata[k]) and len(got) < n:
                        if rounds == 0:
                            rng.shuffle(strata[k])
                        got.append(strata[k][rounds])
                rounds += 1
            return got
        def interleave(keys):
            groups = {}
            for k in keys:
                groups.setdefault((k[0], k[1], k[2], k[3]), []).append(k)
            gl = [groups[g] for g in sorted(groups, key=str)]
            out = []
            while any(gl):
                for g in gl:
                    if g:
                        out.append(g.pop())
            return out
        keys = sorted(strata, key=str)
        rng.shuffle(keys)
        keys = interleave(keys)      # every (behaviour, timing, error) combination before a second stratum of one
        # cases that wait for a time-out or a slow plugin cost seconds each: bounded share, run first
        slowk = [k for k in keys if k[0] == "Hang" or k[1] == "slow"]
        fastk = [k for k in keys if not (k[0] == "Hang" or k[1] == "slow")]
        nslow = min(max(24, t["n_proto"] // 5), t["n_proto"] // 2)
        chosen = round_robin(slowk, nslow) + round_robin(fastk, t["n_proto"] - nslow)
        for what, pred in (("hang", lambda c: c["cs"]["beh"] == "Hang"),
                           ("slow plugin over the limit", lambda c: c["killed"] and c["cs"]["beh"] != "Hang"),
                           ("slow plugin without limit", lambda c: c["cs"]["dur"] == "slow" and c["rc"] == "zero"),
                           ("patched file", lambda c: c["patched"] > 0 and c["rc"] == "zero"),
                           ("feed error", lambda c: c["ferr"]),
                           ("response error", lambda c: c["cs"]["beh"] == "Ok" and c["cs"]["rerr"]),
                           ("exit code with valid output", lambda c: c["cs"]["beh"] == "ExitN" and c["cs"]["wrote"])):
            if not any(pred(c) for c in chosen):
                raise vlib.MachineryError("vacuous protocol sample: no case with " + what)
        if set(c["cs"]["beh"] for c in chosen) != {"Ok", "ExitN", "Garbage", "Partial", "Empty", "Hang"}:
            raise vlib.MachineryError("vacuous protocol sample: a behaviour is missing")
        cases = []
        for c in chosen:
            for v in proto_variants(c["cs"], rng, t):
                cases.append(proto_case(c["cs"], len(cases), v))
        cs = {"beh": "Partial", "dur": "fast", "limit": 20000, "code": 0, "wrote": True, "rerr": "",
              "warns": ["w1"], "items": [{"k": "File", "name": "a", "content": [{"t": "x"}, {"m": "p"}, {"t": "y"}]}]}
        # every kind of garbage once
        for g in garbage_variants(rng):
            cases.append(proto_case(dict(cs, beh="Garbage", wrote=False), len(cases), {"garbage_hex": g.hex()}))
        if t["partial_all"]:
            # every proper prefix of one valid response (the plugin clamps the cut to a proper prefix)
            for cut in range(1, 140):
                cases.append(proto_case(cs, len(cases), {"cut": cut}))
    ref_cache = {}

    def ref_of(c):
        if "ref" not in ref_cache:
            p = materialise(ctx, dict(pid="proto", prog=c["prog"], comments=[]))
            o = run_c11req(ctx, c11req, [codec_case(p, "idl")], "protoref", 1)[0]
            if o.get("err"):
                raise vlib.MachineryError("front end rejects the protocol program: " + o["err"][:300])
            ref_cache["ref"] = o["orig"]
        return ref_cache["ref"]
    if not cases and not sdk:
        return 0
    obs_all = []
    if cases:
        ref_of(cases[0])
        obs_all = parallel(lambda c: oop_run(ctx, bins, c), cases, bins.workers)
    traces = [proto_trace(c, o, version, ref_of(c)) for c, o in zip(cases, obs_all)]
    nproc = len(cases)
    rej, reach = validate_proto(ctx, cases, traces + [tr for _, tr, _ in sdk])
    for i in [i for i in rej if i >= nproc]:      # in-process, deterministic: no re-execution
        c, tr, o = sdk[i - nproc]
        at = reach.get(i, 0)
        kind = classify_proto(c, tr, at)
        ctx.violation({"check": "C11.sdk", "kind": kind}, c,
                      {"trace": tr, "matched_events": max(at - 1, 0),
                       "rejected_event": tr[at - 1] if 0 < at <= len(tr) else None, "observation": o},
                      "a behaviour of spec/Plugin/Plugin.tla", "SDK plugin (in-process): " + kind)
    rej = [i for i in rej if i < nproc]
    if rej:
        # once more, to exclude flakiness (load): only traces rejected twice count
        again = [cases[i] for i in rej]
        obs2 = parallel(lambda c: oop_run(ctx, bins, c), again, max(2, bins.workers // 2))
        tr2 = [proto_trace(c, o, version, ref_of(c)) for c, o in zip(again, obs2)]
        rej2, reach2 = validate_proto(ctx, again, tr2)
        still = {rej[i]: (tr2[i], obs2[i], reach2.get(i, 0)) for i in rej2}
        for i in rej:
            if i not in still:
                ctx.notes.append("protocol case %s rejected once, accepted on re-execution (%s)" % (
                    cases[i]["id"], classify_proto(cases[i], traces[i], reach.get(i, 0))))
    else:
        still = {}
    for c in cases:
        cs = c["cs"]
        ctx.count(1, "proto: beh=%s dur=%s limit=%s rerr=%s warns=%d items=%s code=%s wrote=%s comp=%s" % (
            cs["beh"], cs["dur"], cs["limit"], bool(cs["rerr"]), len(cs["warns"]),
            "+".join(i["k"] for i in cs["items"]) or "-", cs["code"], cs["wrote"], c["compress_env"]))
    if only is None:
        ok = [i for i in range(len(cases)) if i not in still and cases[i]["cs"]["items"]]
        if ok:
            i = ok[len(ok) // 2]
            ctx.sample({"stage": "proto", "trace": traces[i]})
        hangs = [i for i, c in enumerate(cases) if c["beyond"]]
        if not hangs:
            raise vlib.MachineryError("no protocol case exceeds the time limit")
        if not any(traces[i][1].get("dumped") for i in hangs if len(traces[i]) > 1 and traces[i][1]["ev"] == "Spawn"):
            ctx.notes.append("no plugin killed for exceeding the limit had decoded its request before")
    for i, (tr, obs, at) in sorted(still.items()):
        c = cases[i]
        kind = classify_proto(c, tr, at)
        cc = {k: v for k, v in c.items() if not k.startswith("_")}
        cls = {"check": "C11.proto", "kind": kind, "beh": c["cs"]["beh"]}
        if c["cs"]["beh"] == "Garbage":
            why = []
            wellformed_struct(bytes.fromhex(c["variant"].get("garbage_hex", "")), why)
            cls["garbage"] = why[0] if why else "other"
        ctx.violation(cls, cc,
                      {"trace": tr, "matched_events": max(at - 1, 0),
                       "rejected_event": tr[at - 1] if 0 < at <= len(tr) else None,
                       "rc": obs["rc"], "stderr": obs["stderr"][-800:], "stdout": obs["stdout"][-600:],
                       "argv": obs["argv"]},
                      "a behaviour of spec/Plugin/Plugin.tla", "plugin protocol: " + kind)
    return len(still)


# ------------------------------------------------------------------------------------------- stage: patches into backend files
def stage_backend_patches(ctx, bins, t, only=None):
    prog = proto_program()
    gofile = "pk/f1/f1.go"
    if only is not None:
        cases = only
    else:
        cases = []
        sets = [[("eof", "// PATCH-EOF-1\n")], [("bof", "// PATCH-BOF-1\n")], [("imports", "// PATCH-IMP-1\n")],
                [("eof", "// PATCH-EOF-1\n"), ("eof", "// PATCH-EOF-2\n"), ("bof", "// PATCH-BOF-1\n")],
                [("struct.S1", "// PATCH-S1\n")], [("enum.E1", "// PATCH-E1\n")]]
        for k, ps in enumerate(sets):
            for fmt in (("no_fmt",) if k in (2, 4, 5) else ("no_fmt", "")):
                for named in ((True, False) if k == 3 else (True,)):
                    items = []
                    for j, (pt, text) in enumerate(ps):
                        if named or j == 0:
                            items.append({"k": "NPatch", "name": gofile, "pt": pt, "text": text})
                        else:
                            items.append({"k": "UPatch", "pt": pt, "text": text})
                    cases.append({"id": "b%d" % len(cases), "stage": "backend", "prog": prog, "comments": [],
                                  "patches": ps, "targets": [{"lang": "go", "text": fmt, "allowed": []}],
                                  "plugins": [{"bin": "rec0", "payload": "", "allowed": [], "ctl_pos": "first",
                                               "script": {"mode": "ok", "items": items}}],
                                  "compress_env": None, "limit": None})
    base_cache = {}

    def baseline(fmt):
        if fmt not in base_cache:
            c = {"id": "base-" + (fmt or "fmt"), "prog": prog, "comments": [], "plugins": [],
                 "targets": [{"lang": "go", "text": fmt}], "compress_env": None, "limit": None}
            o = oop_run(ctx, bins, c)
            if o["rc"] != 0 or gofile not in o["files"]:
                raise vlib.MachineryError("baseline generation failed: %s" % o["stderr"][-500:])
            base_cache[fmt] = o["files"]
        return base_cache[fmt]

    def judge(c, obs):
        base = baseline(c["targets"][0]["text"])
        if obs["rc"] != 0:
            return [("thriftgo-failed", obs["stderr"][-300:])]
        probs = []
        got = obs["files"].get(gofile)
        if got is None:
            return [("backend-file-missing", gofile)]
        stripped = got
        pos = {}
        for pt, text in c["patches"]:
            body = text.strip()
            n = stripped.count(body)
            if n < 1:
                probs.append(("patch-lost", "%s %r not in %s" % (pt, body, gofile)))
                continue
            pos[body] = stripped.find(body)
        # submission order for patches of the same point
        by_pt = {}
        for pt, text in c["patches"]:
            by_pt.setdefault(pt, []).append(text.strip())
        for pt, bodies in by_pt.items():
            idx = [pos.get(b, -1) for b in bodies]
            if all(i >= 0 for i in idx) and idx != sorted(idx):
                probs.append(("patch-order", "%s: %r" % (pt, bodies)))
        for pt, text in c["patches"]:
            stripped = stripped.replace(text, "").replace(text.strip(), "")
        norm = lambda s: "\n".join(ln.rstrip() for ln in s.split("\n") if ln.strip())
        if not probs and norm(stripped) != norm(base[gofile]):
            probs.append(("backend-file-changed-beyond-patches", trunc(first_diff(norm(stripped).split("\n"),
                                                                                  norm(base[gofile]).split("\n")))))
        for f, content in base.items():
            if f != gofile and obs["files"].get(f) != content:
                probs.append(("other-backend-file-changed", f))
        return probs
    obs_all = parallel(lambda c: oop_run(ctx, bins, c), cases, bins.workers)
    n = 0
    for c, obs in zip(cases, obs_all):
        probs = judge(c, obs)
        if probs:
            obs = oop_run(ctx, bins, c)
            probs = judge(c, obs)
        ctx.count(1, "backend-patch: points=%s fmt=%s kinds=%s" % (
            "+".join(p for p, _ in c["patches"]), c["targets"][0]["text"] or "gofmt",
            "+".join(i["k"] for i in c["plugins"][0]["script"]["items"])))
        if probs:
            n += 1
            ctx.violation({"check": "C11.backend-patch", "kind": probs[0][0]}, c,
                          {"problems": probs[:6], "stderr": obs["stderr"][-500:]},
                          "generated file == baseline with the patch texts inserted (in submission order per point)",
                          "insertion-point patch into a file of the go backend: " + probs[0][0])
    return n


# ------------------------------------------------------------------------------------------- growth: orphaned child
def stage_childhang(ctx, bins):
    """A plugin that exceeds the limit and has started a child which keeps its stdout open.  The statement only
    demands that the plugin is killed and thriftgo fails; how long thriftgo then waits for the pipe is recorded."""
    c = {"id": "childhang", "stage": "childhang", "prog": proto_program(), "comments": [],
         "targets": [{"lang": "go", "text": "no_fmt", "allowed": []}],
         "plugins": [{"bin": "rec0", "payload": "", "allowed": [], "ctl_pos": "first",
                      "script": {"mode": "childhang", "child_ms": 4000}}],
         "compress_env": None, "limit": "300ms", "timeout": 40}
    obs = oop_run(ctx, bins, c)
    ctx.count(1, "childhang: limit=300ms child=4000ms")
    if obs["rc"] == 0 or obs["rc"] == "timeout" or obs["alive"]:
        ctx.violation({"check": "C11.proto", "kind": "orphan-child-case", "beh": "Hang"}, c,
                      {"rc": obs["rc"], "alive": obs["alive"], "elapsed": obs["elapsed"], "stderr": obs["stderr"][-500:]},
                      "plugin killed, thriftgo exits != 0", "plugin with a child that holds stdout, over the limit")
    elif obs["elapsed"] > 0.3 + 3.0:
        ctx.notes.append("a killed plugin that left a child holding its stdout keeps thriftgo waiting for the child: "
                         "%.1f s with --plugin-time-limit 300ms and a 4 s child (exec.Cmd without WaitDelay); outside "
                         "the statement, recorded only" % obs["elapsed"])


def stage_isolation(ctx, bins, only=None):
    """Several plugins in one run, some with no option text at all: every plugin must see exactly its own options
    (PluginParams.tla: the scalar part of the request is a function of that plugin's -p text alone), in every order."""
    def pl(kind, k):
        if kind == "none":
            return {"bin": "rec0", "payload": "", "allowed": [], "noctl": True, "script": {"mode": "ok"}}
        return {"bin": "rec0", "payload": "k%d=v%d,flag%d" % (k, k, k), "allowed": [["k%d=v%d" % (k, k)], ["flag%d" % k, "flag%d=" % k]],
                "ctl_pos": "first", "script": {"mode": "ok"}}
    orders = [["opt", "none"], ["none", "opt"], ["opt", "none", "opt"], ["none", "none"], ["opt", "opt", "none"], ["none"]]
    cases = only or [{"id": "iso%d" % n, "stage": "isolation", "order": o, "prog": proto_program(), "comments": [],
                      "targets": [{"lang": "go", "text": "no_fmt", "allowed": [["no_fmt", "no_fmt="]]}],
                      "compress_env": None, "limit": None} for n, o in enumerate(orders)]
    for c in cases:
        c["plugins"] = [pl(kind, k) for k, kind in enumerate(c["order"])]
        obs = oop_run(ctx, bins, c)
        ctx.count(1, "isolation:" + "+".join(c["order"]))
        probs = []
        if obs["rc"] != 0:
            probs.append("thriftgo exit %r: %s" % (obs["rc"], obs["stderr"][-400:]))
        n_none = sum(1 for k in c["order"] if k == "none")
        if len(obs["noctl_dumps"]) != n_none:
            probs.append("%d option-less plugin(s) ran, %d saw an option-less request" % (n_none, len(obs["noctl_dumps"])))
        for dmp in obs["noctl_dumps"]:
            got = (dmp.get("head") or {}).get("PluginParameters")
            if got not in ([], None):
                probs.append("option-less plugin received PluginParameters %r" % (got,))
        for j, kind in enumerate(c["order"]):
            if kind != "opt":
                continue
            lst = obs["dumps"][j]
            if len(lst) != 1:
                probs.append("plugin %d: %d requests dumped under its own control options (expected 1)" % (j, len(lst)))
                continue
            got = (lst[0].get("head") or {}).get("PluginParameters") or []
            ctl = obs["plug"][j]["ctl"]
            rest = [x for x in got if x not in ctl]
            allowed = c["plugins"][j]["allowed"]
            if len(rest) != len(allowed) or any(r not in a for r, a in zip(rest, allowed)) or [x for x in got if x in ctl] != ctl:
                probs.append("plugin %d received PluginParameters %r" % (j, got))
        if probs:
            cc = {k: v for k, v in c.items() if k != "plugins"}
            ctx.violation({"check": "C11.params", "kind": "isolation", "order": "+".join(c["order"])}, cc,
                          {"problems": probs, "argv": obs["argv"]},
                          "every plugin receives exactly the options of its own -p text; none => empty list",
                          "plugin parameters leak between plugins of one run (%s)" % "+".join(c["order"]))


# ------------------------------------------------------------------------------------------- main
def repo_fingerprint(ctx, repo):
    """HEAD + working-tree diff of the repository (it may be committed to while we run)"""
    a = ctx.run(["git", "-C", repo, "rev-parse", "HEAD"], check=False).stdout.strip()
    b = ctx.run(["git", "-C", repo, "status", "--porcelain"], check=False).stdout
    c = ctx.run(["git", "-C", repo, "diff", "HEAD"], check=False).stdout
    return a + ":" + hashlib.sha1((b + c).encode()).hexdigest()


def setup(ctx):
    # thriftgo, the two plugins and the in-process harness must be built from the same state of the repository
    # (the in-process request is the reference for what the binary's plugin decodes), and the repository may be
    # committed to while the check runs: build everything from one snapshot of the working tree.
    repo = vlib.REPO
    snap = os.path.join(ctx.scratch, "repo-snap")
    for attempt in range(6):
        fp = repo_fingerprint(ctx, repo)
        shutil.rmtree(snap, ignore_errors=True)
        shutil.copytree(repo, snap, symlinks=True, ignore=shutil.ignore_patterns(".git"))
        if repo_fingerprint(ctx, repo) == fp:
            break
        time.sleep(1 + attempt)
    else:
        raise vlib.MachineryError("the repository kept changing while it was copied")
    vlib.REPO = snap
    bins = Bins()
    bins.thriftgo = ctx.build_repo(".", "thriftgo")
    bins.rec0 = build_plugin(ctx, "thrift-gen-verifrec", "v0.0.0")
    bins.rec42 = build_plugin(ctx, "thrift-gen-verifrec42", "v0.4.2")
    bins.workers = max(4, min(16, vlib.NCPU))
    c11req = ctx.build_harness("c11req")
    p = ctx.run([bins.thriftgo, "--version"], check=False)
    out = (p.stdout + p.stderr).strip().split()
    if p.returncode != 0 or len(out) < 2 or out[0] != "thriftgo":
        raise vlib.MachineryError("thriftgo --version: %r" % (p.stdout + p.stderr))
    return bins, c11req, out[1]


def run(ctx, args):
    t = TIERS[ctx.tier]
    bins, c11req, version = setup(ctx)
    if args.replay:
        rp = json.load(open(args.replay))
        c = rp["case"]
        st = c.get("stage")
        if st == "request":
            c.pop("pid", None)
            stage_requests(ctx, bins, c11req, [], {}, [], t, version, only=[c])
        elif st == "proto":
            stage_proto(ctx, bins, c11req, [], t, version, only=[c])
        elif st == "sdk":
            stage_proto(ctx, bins, c11req, [], t, version, only=[], sdk=sdk_traces(ctx, c11req, [], t, version, only=[c]))
        elif st == "backend":
            stage_backend_patches(ctx, bins, t, only=[c])
        elif st == "codec":
            p = materialise(ctx, dict(pid=0, prog=c["program"], comments=c.get("comments", []), dag=None, flav=["replay"],
                                      subdirs=False, kind="replay"))
            stage_codec(ctx, c11req, [p])
        elif st == "argv":
            stage_argv(ctx, c11req, [c["param"]])
        elif st == "isolation":
            stage_isolation(ctx, bins, only=[c])
        else:
            raise vlib.MachineryError("unknown replay stage %r" % st)
        return ctx.finish("replay of one case")
    rng = random.Random(ctx.seed)
    vlib.log("builds done at %.0fs" % (time.time() - ctx.t0))
    dags, params, proto, shapes = generate(ctx, t)
    vlib.log("generation done at %.0fs" % (time.time() - ctx.t0))
    progs = make_programs(ctx, t, dags, shapes, rng)
    parallel(lambda p: materialise(ctx, p), progs, 8)
    vlib.log("%d programs" % len(progs))
    vlib.log("programs written at %.0fs" % (time.time() - ctx.t0))
    refs = stage_codec(ctx, c11req, progs)
    vlib.log("codec stage done at %.0fs" % (time.time() - ctx.t0))
    stage_argv(ctx, c11req, params)
    vlib.log("in-process stages done at %.0fs" % (time.time() - ctx.t0))
    stage_backend_patches(ctx, bins, t)
    vlib.log("backend patch stage done at %.0fs" % (time.time() - ctx.t0))
    stage_requests(ctx, bins, c11req, progs, refs, params, t, version)
    vlib.log("request stage done at %.0fs" % (time.time() - ctx.t0))
    sdk = sdk_traces(ctx, c11req, proto, t, version)
    stage_proto(ctx, bins, c11req, proto, t, version, sdk=sdk)
    stage_isolation(ctx, bins)
    if ctx.tier == "thorough":
        stage_childhang(ctx, bins)
    ctx.exhaustive = False
    return ctx.finish(
        rule="TLC: all include DAGs with <= %d files (ordered includes, every file reachable), all option lists of "
             "length <= %d (plugin) / %d (generator) over the alphabets of MC_Params, all cases of MC_Proto (response "
             "contents <= %d items). In-process: every DAG x %d flavour vectors (+ all flavour pairs for <= 2 files) + "
             "3 presentations of the type-shape universe through the codec, every option list through the compiler's "
             "argument code. Binary: %d request cases and %d protocol cases (stratified by class, seeded) + backend "
             "patch cases; each protocol run validated by TLC as a trace of Plugin.tla. distinct class = stage + the "
             "case's abstract coordinates" % (t["maxn"], t["maxp"], t["maxg"], t["maxitems"], t["flav_per_dag"],
                                              t["n_req"], t["n_proto"]),
        assumptions=["a plugin scripted 'fast' answers within 20 s; 'slow' = %d ms sleep; thriftgo must be back within "
                     "limit + %.0f s of a timeout" % (SLOW_MS, SLACK_S),
                     "nil and empty lists/maps are the same canonical value (the wire cannot tell them apart)",
                     "an option written without '=' may arrive as 'key' or 'key='",
                     "empty option texts ('-p name:' / 'a,,b'), named patches for files that do not exist, a hanging "
                     "plugin without a time limit, plugins that leave children behind and -q are outside the universe "
                     "(statement silent)",
                     "generator options are ones that do not change the AST before plugins run (no trim_idl, no "
                     "streaming annotations)"],
        trusted=["TLC", "harness/pkg/c11canon", "harness/cmd/thrift-gen-verifrec", "harness/pkg/c11req",
                 "lib/c11_programs.py + lib/idl.py (rendering)", "plugin/export_verif.go (export-only hook)"])
