"""C04 - invalid input is diagnosed: non-zero exit, message, no output, no crash.

Layer A  spec/Pipeline/Pipeline.tla      the compile pipeline as a stage machine whose behaviours are what the
                                         statement allows; Broken(P, C) = the rule catalogue (Catalogue.tla) over
                                         the program model (IDLModel.tla) and the command-line model
Layer B  spec/Pipeline/PipelineImpl.tla  the mechanisms of the real pipeline, stage by stage
Universe spec/Pipeline/Edits.tla         every rule x variant x position as append-only edits of a base program

1. TLC (MC_Pipeline) enumerates base program x rule x variant x position x backend x -r and the command-line
   faults, applies each edit to the program model, checks that it breaks its rule (and that the bases break none),
   runs the transcribed pipeline on it and exports the case with the mechanism the model predicts and whether the
   model's run is a behaviour of layer A (a case where it is not is a candidate, nothing more).
2. Python applies the same edit operations to the program JSON, renders the files (syntax faults are text
   mutations) and runs the thriftgo binary built from /repo in a fresh directory: exit status, output, files
   under -o, crash marks, wall time.
3. TLC (Trace_Pipeline) judges every run against layer A: Broken is evaluated on the model image of the program
   that was really rendered; the run is accepted iff the abstract machine can end in the observed outcome.
   A rejected run is executed once more before it is reported.
4. Layer B is compared with the binary (mechanism inferred from the diagnostic; outcome class): differences are
   "implementation model drift" (exit code unaffected; VERIF_STRICT_MODEL=1 turns them into exit 2).
"""
import collections
import concurrent.futures
import json
import os
import random
import shutil
import sys
import time

import c04_model as M
import vlib

LEVEL = "model_checking"

REGISTRY = dict(
    level="model_checking",
    text="TLC enumerates base program x rule of the catalogue x variant x position (main / every transitively "
         "included file; struct / union / exception / args / throws; local / include-qualified) x {go, fastgo} x -r "
         "and the command-line faults from a TLA+ model of the programs, checks that every edit breaks its rule, and "
         "runs a stage-by-stage transcription of the pipeline's error mechanisms to predict the reporting stage. "
         "Every case is rendered and run on the thriftgo binary; TLC then judges each observed run (exit status, "
         "diagnostic, files written, crash marks, hang) against the abstract pipeline machine, with Broken evaluated "
         "on the model image of the program that was actually rendered.",
    design_ref="DESIGN.md 6 C04",
    note="Trusted: TLC; lib/c04_model.py (projection program JSON <-> model, text mutations for syntax faults, "
         "argv from the command-line model, classification of the process output); lib/idl.py renderer. Bounds: 6 "
         "(quick) / 9 (thorough) base programs of 1-4 files; one edit (thorough: also random pairs of edits and every "
         "backend option as configuration); identifiers as constant values are not kind-checked; container-typed "
         "constants are outside the catalogue. Runs predicted to overflow the stack (9-30 s each) are sampled.",
    technique="TLA+ stage machine (abstract + transcribed) + TLC case generation with predicted mechanism + replay on "
              "the binary + TLC validation of every observed run against the abstract machine")

TIERS = {
    # max_runs: the quick tier executes one case of every stratum (rule, variant, construct, position, backend, -r)
    # and fills up to max_runs with a seeded sample of the rest; thorough executes everything
    "quick": dict(gen="quick", pairs=0, overflow_runs=3, option_cases=0, max_runs=2000),
    "thorough": dict(gen="thorough", pairs=2000, overflow_runs=24, option_cases=10, max_runs=24000),
}

# Repairs of /repo that layer B (spec/Pipeline/PipelineImpl.tla, constant ImplFixes) follows. The transcription of
# the code before a repair is kept selectable (VERIF_C04_IMPL_FIXES=none, or a comma-separated subset) so that the
# check can be pointed at an older tree with VERIF_REPO:
#   "unionDefault" (C04-union-second-default), "getEnumCycle" (C04-getenum-typedef-cycle),
#   "dupArgs" (C04-duplicate-args-throws), "argDefaults" (C04-argument-default-identifiers),
#   "lateGen" (C04-late-gen-entry-errors)
# A stale list only produces MODEL-DRIFT lines; verdicts never depend on layer B.
ALL_IMPL_FIXES = ["unionDefault", "getEnumCycle", "dupArgs", "argDefaults", "lateGen"]   # all five are committed in /repo
IMPL_FIXES = ([x for x in os.environ["VERIF_C04_IMPL_FIXES"].split(",") if x and x != "none"]
              if "VERIF_C04_IMPL_FIXES" in os.environ else ALL_IMPL_FIXES)

GEN_CFG = """SPECIFICATION Spec
CONSTANTS
  Tier = "%s"
  ImplFixes = {%s}
VIEW View
INVARIANTS DesignInvariants Emit Emit2
CHECK_DEADLOCK FALSE
"""

# what the universe must contain (vacuity): rule -> set of `where` values that must occur
MUST_WHERE = {
    "dupFieldName": {"struct", "union", "exception", "args", "throws"},
    "dupFieldId": {"struct", "union", "exception", "args", "throws"},
    "undefinedType": {"typedef", "const", "struct", "union", "exception", "args", "throws", "return"},
    "nonType": {"typedef", "const", "struct", "union", "exception", "args", "throws", "return"},
    "undefinedConst": {"const", "struct", "union", "exception", "args"},
    "constKind": {"const", "struct", "union", "exception", "args"},
}
IDL_RULES = ["syntax", "missingInclude", "cyclicInclude", "dupGlobal", "dupFieldName", "dupFieldId", "dupFunction",
             "dupEnumName", "dupEnumNumber", "enumRange", "undefinedType", "nonType", "typedefChain",
             "undefinedConst", "ambiguousConst", "constKind", "oneway", "unknownBase", "unionDefaults"]
CMD_RULES = ["badFlag", "idlCount", "idlMissing", "noLang", "unknownBackend", "badOptionValue", "optionConflict",
             "missingPlugin"]


# ----------------------------------------------------------------------------- universe
def generate(ctx, tier, bases):
    t = TIERS[tier]
    fixes = ", ".join('"%s"' % x for x in IMPL_FIXES)
    bj = ctx.path("bases.json")
    with open(bj, "w") as fh:
        json.dump([{"name": b["name"], "prog": M.to_model(b)} for b in bases], fh)
    # development aid (sensitivity runs against many mutants): reuse the TLC-generated universe of an earlier run
    cache = os.environ.get("VERIF_C04_CASES_CACHE")

    def cached(tag, fn):
        f = "%s.%s" % (cache, tag) if cache else None
        if f and os.path.exists(f):
            ctx.notes.append("universe part '%s' loaded from VERIF_C04_CASES_CACHE (development aid)" % tag)
            return json.load(open(f))
        out = fn()
        if f:
            json.dump(out, open(f, "w"))
        return out

    def singles():
        r = ctx.tlc("Pipeline", "MC_Pipeline", "gen.cfg", files={"gen.cfg": GEN_CFG % (t["gen"], fixes), "bases.json": bj},
                    timeout=3600, label="MC_Pipeline[%s]" % t["gen"])
        return ctx.tlc_cases(r)

    def slot2():
        r2 = ctx.tlc("Pipeline", "MC_Pipeline", "gen.cfg", files={"gen.cfg": GEN_CFG % ("slot2", fixes), "bases.json": bj},
                     timeout=3600, label="MC_Pipeline[slot2]")
        return ctx.tlc_cases(r2, prefix="EDIT ")

    cases = cached("singles", singles)
    if t["pairs"]:
        # two-edit combinations: a TLC case (slot 1) x a TLC-enumerated edit with the fresh names of slot 2 on the
        # same base, both backends / -r as in the first case; the pair is judged by TLC on the rendered program
        second = collections.defaultdict(list)
        for e in sorted(cached("slot2", slot2), key=lambda e: json.dumps(e, sort_keys=True)):   # TLC's output order varies
            second[e["base"]].append(e["edit"])
        rnd = random.Random(ctx.seed * 7919 + 1)
        firsts = sorted((c for c in cases if c["case"]["kind"] == "idl"),
                        key=lambda c: json.dumps([c["base"], c["case"], c["cmd"]], sort_keys=True))
        for c in rnd.sample(firsts, min(t["pairs"], len(firsts))):
            e2 = rnd.choice(second[c["base"]])
            cases.append({"base": c["base"], "cmd": c["cmd"], "b": None, "broken": True, "expected": c["expected"],
                          "brokenRules": sorted({c["case"]["rule"], e2["rule"]}),
                          "case": {"kind": "pair", "rule": c["case"]["rule"], "edits": c["case"]["edits"] + [e2]}})
    return cases


SPEC_CFG = """SPECIFICATION SSpec
INVARIANTS SInvariant OnlyDoneStops %s
CHECK_DEADLOCK FALSE
"""


def layer_a_selfcheck(ctx, tier):
    """the abstract machine on its own (design level): it keeps the statement; in thorough also that the four
    kinds of ending it must allow are reachable (TLC has to violate the Nox assertions)"""
    ctx.tlc("Pipeline", "MC_PipelineSpec", "spec.cfg", files={"spec.cfg": SPEC_CFG % ""}, workers=2, timeout=600,
            label="MC_PipelineSpec")
    if tier == "thorough":
        for inv in ("NoAccept", "NoDiagnose", "NoRefuse", "NoPartial"):
            r = ctx.tlc("Pipeline", "MC_PipelineSpec", "spec.cfg", files={"spec.cfg": SPEC_CFG % inv}, workers=2,
                        timeout=600, expect_ok=False, label="MC_PipelineSpec[%s]" % inv)
            if r["violated"] != inv:
                raise vlib.MachineryError("layer A cannot reach an ending it must allow: %s holds" % inv)


def case_rules(c):
    cs = c["case"]
    if cs["kind"] in ("idl", "pair"):
        return [e["rule"] for e in cs["edits"]]
    if cs["kind"] == "cmd":
        return [cs["rule"]]
    return []


def vacuity(cases, bases, tier):
    """the universe must contain what the property quantifies over"""
    need = []
    by_rule = collections.defaultdict(list)
    for c in cases:
        for r in case_rules(c):
            by_rule[r].append(c)
    for r in IDL_RULES + CMD_RULES:
        if not by_rule.get(r):
            need.append("no case for rule " + r)
    singles = [c for c in cases if c["case"]["kind"] == "idl"]
    for r, ws in MUST_WHERE.items():
        have = {c["case"]["edits"][0]["where"] for c in singles if c["case"]["rule"] == r}
        if not ws <= have:
            need.append("rule %s: positions %s missing" % (r, sorted(ws - have)))
    lens = {c["case"]["edits"][0]["len"] for c in singles if c["case"]["rule"] == "cyclicInclude"}
    if not {1, 2, 3, 4} <= lens:
        need.append("include cycles of length 1..4: have %s" % sorted(lens))
    tl = {(c["case"]["edits"][0]["len"], c["case"]["edits"][0]["variant"]) for c in singles
          if c["case"]["rule"] == "typedefChain"}
    for n in (1, 2, 3):
        for v in ("unused", "constDerefs"):
            if (n, v) not in tl:
                need.append("typedef cycle of length %d, %s" % (n, v))
    # every file of every base is a position of every per-file rule
    for b in bases:
        for r in IDL_RULES:
            if r in ("cyclicInclude", "ambiguousConst"):
                continue
            fs = {c["case"]["edits"][0]["f"] for c in singles if c["case"]["rule"] == r and c["base"] == b["name"]}
            if fs != set(range(1, len(b["files"]) + 1)):
                need.append("rule %s is not placed in every file of base %s (%s)" % (r, b["name"], sorted(fs)))
    cfgs = {(c["cmd"]["langs"][0]["name"], c["cmd"]["recursive"]) for c in singles}
    if len(cfgs) != 4:
        need.append("configurations: %s" % sorted(cfgs))
    refs = {c["case"]["edits"][0]["variant"].split("/")[0] for c in singles if c["case"]["rule"] == "undefinedType"}
    if not {"local", "member", "unknownPrefix", "notDirectlyIncluded"} <= refs:
        need.append("undefinedType reference kinds: %s" % sorted(refs))
    if not [c for c in cases if c["case"]["kind"] == "base"]:
        need.append("no unedited base case")
    if tier == "thorough" and not [c for c in cases if c["case"]["kind"] == "pair"]:
        need.append("no two-edit case")
    # every stage of the transcribed pipeline reports somewhere, and the loop over -g entries is taken
    fam = {c["b"]["mech"].split(".")[0] for c in cases if c.get("b")}
    if not {"args", "parse", "circle", "check", "resolve", "targets", "backend", "ok"} <= fam:
        need.append("stages of layer B that never fire: have %s" % sorted(fam))
    if "lateGen" not in IMPL_FIXES and not [c for c in cases if c.get("b") and len(c["cmd"]["langs"]) > 1 and c["b"]["files"]]:
        need.append("no case in which layer B persists one -g entry and goes on to the next")
    if need:
        raise vlib.MachineryError("vacuous universe: " + "; ".join(need[:8]))


def used_reach(base):
    """files reachable from the main file through includes the including file references"""
    m = M.to_model(base)
    seen, front = {1}, [1]
    while front:
        f = front.pop()
        F = base["files"][f - 1]
        text = json.dumps(F["defs"])
        for inc in m["files"][f - 1]["incs"]:
            if inc["target"] and ('"%s.' % inc["prefix"]) in text and inc["target"] not in seen:
                seen.add(inc["target"])
                front.append(inc["target"])
    return seen


def option_configs(ctx, thriftgo):
    """every option of `thriftgo -h` as one valid configuration"""
    p = ctx.run([thriftgo, "-h"], check=False)
    names = []
    on = False
    for ln in (p.stdout + p.stderr).splitlines():
        if ln.strip().startswith("go (Go):"):
            on = True
            continue
        if on and ":" in ln and ln.startswith("    "):
            names.append(ln.strip().split(":")[0])
    if len(names) < 40:
        raise vlib.MachineryError("could not read the option list from thriftgo -h (%d names)" % len(names))
    def o(n, v=None):
        return {"n": n, "hasV": v is not None, "v": v or "", "vHasEq": bool(v and "=" in v)}
    cfgs = []
    for n in names:
        if n == "template":
            cfgs += [[o(n, "slim")], [o(n, "raw_struct")]]
        elif n == "naming_style":
            cfgs += [[o(n, "golint")], [o(n, "apache")], [o(n, "thriftgo")]]
        elif n == "use_package":
            cfgs.append([o(n, "a/b=c/d")])
        elif n in ("thrift_import_path", "package_prefix"):
            cfgs.append([o(n, "example.com/x")])
        elif n == "with_field_mask":
            cfgs.append([o("with_reflection"), o(n)])
        elif n == "apache_adaptor":
            cfgs.append([o(n)])
        else:
            cfgs.append([o(n)])
            cfgs.append([o(n, "false")])
    return cfgs


# ----------------------------------------------------------------------------- execution
class Universe:
    def __init__(self, ctx, bases):
        self.ctx = ctx
        self.bases = {b["name"]: b for b in bases}
        self.used = {b["name"]: used_reach(b) for b in bases}
        self.progs = {}      # key -> dict(id, dir, prog, syntax, rules, model)
        self.runs = []       # dict(id, pkey, case, cmd, argv, obs)

    def program(self, c):
        cs = c["case"]
        ops = [o for e in cs.get("edits", []) for o in e["ops"]]
        key = json.dumps([c["base"], ops], sort_keys=True)
        if key not in self.progs:
            prog, syntax = M.apply_ops(self.bases[c["base"]], ops)
            prog = {"files": prog["files"]}
            n = len(self.progs) + 1
            d = self.ctx.mkdir("progs", "p%d" % n)
            main = M.write_program(prog, d, syntax)
            self.progs[key] = dict(id=n, dir=d, prog=prog, syntax=syntax, main=main, rules=set(), nruns=0,
                                   model=M.to_model(prog, syntax_bad=set(syntax)))
        p = self.progs[key]
        p["rules"].update(r for r in case_rules(c) if r in IDL_RULES)
        return key

    def add(self, c):
        key = self.program(c)
        p = self.progs[key]
        p["nruns"] += 1
        out = "out%d" % p["nruns"]
        run = dict(id=len(self.runs) + 1, pkey=key, c=c, out=out, argv=M.argv_of(c["cmd"], p["main"], out))
        self.runs.append(run)
        return run

    def execute(self, thriftgo, runs, limit=30.0):
        """the runs are made by a helper process with a small heap (lib/c04_model.py run)"""
        self.nexec = getattr(self, "nexec", 0) + 1
        mf = self.ctx.path("runs-%d.ndjson" % self.nexec)
        of = self.ctx.path("obs-%d.ndjson" % self.nexec)
        keys = {}
        rows = []
        for r in runs:
            p = self.progs[r["pkey"]]
            if r["pkey"] not in keys:
                keys[r["pkey"]] = M.go_file_keys(p["prog"])
            rows.append({"id": r["id"], "binary": thriftgo, "argv": r["argv"], "cwd": p["dir"], "keys": keys[r["pkey"]],
                         "out": r["out"], "limit": limit})
        vlib.write_ndjson(mf, rows)
        self.ctx.run([sys.executable, os.path.join(vlib.VERIF, "lib", "c04_model.py"), "run", mf, of, str(vlib.NCPU)],
                     timeout=36000)
        by = {o["id"]: o for o in vlib.read_ndjson(of)}
        if set(by) != {r["id"] for r in runs}:
            raise vlib.MachineryError("the run helper returned %d observations for %d runs" % (len(by), len(runs)))
        for r in runs:
            r["obs"] = by[r["id"]]
        os.remove(mf)
        os.remove(of)

    def validate(self, runs, tag):
        """TLC judges the runs against layer A; returns (accepted ids, {id: broken})"""
        by = collections.defaultdict(list)
        for r in runs:
            by[r["pkey"]].append(r)
        rows = []
        for key, rs in by.items():
            p = self.progs[key]
            rows.append({"prog": p["model"], "rules": sorted(p["rules"]),
                         "runs": [{"id": r["id"], "cmd": r["c"]["cmd"],
                                   "obs": {k: r["obs"][k] for k in ("exit", "diag", "crash", "files")}} for r in rs]})
        acc, judged = set(), {}
        CH = 1500
        for off in range(0, len(rows), CH):
            f = self.ctx.path("obs-%s-%d.ndjson" % (tag, off))
            vlib.write_ndjson(f, rows[off:off + CH])
            r = self.ctx.tlc("Pipeline", "Trace_Pipeline", "Trace_Pipeline", files={"obs.ndjson": f}, timeout=2400,
                             label="Trace_Pipeline[%s+%d]" % (tag, off))
            for s in r["lines"]:
                if s.startswith("ACC "):
                    acc.add(int(s[4:]))
                elif s.startswith("RUN "):
                    _, i, b = s.split()
                    judged[int(i)] = (b == "broken")
                elif s.startswith("NOTBROKEN "):
                    _, pi, rule = s.split()
                    row = rows[off + int(pi) - 1]
                    raise vlib.MachineryError(
                        "the program rendered for a case does not break rule %s according to the catalogue "
                        "(Python edit and TLA+ edit disagree): run ids %s" % (rule, [x["id"] for x in row["runs"]][:5]))
            os.remove(f)
        missing = [r["id"] for r in runs if r["id"] not in judged]
        if missing:
            raise vlib.MachineryError("TLC did not judge %d runs (first: %s)" % (len(missing), missing[:5]))
        self.ctx.traces_validated += len(runs)
        return acc, judged


def position_of(u, base, e):
    errf = {o["f"] for o in e["ops"]}
    return "main" if errf == {1} else ("usedInclude" if max(errf) in u.used[base] else "unusedInclude")


def stratum(u, c):
    """cases of one stratum differ only in the base program / the file they are placed in"""
    cs = c["case"]
    cfg = (c["cmd"]["langs"][0]["name"] if c["cmd"]["langs"] else "", bool(c["cmd"]["recursive"]))
    if cs["kind"] == "idl":
        e = cs["edits"][0]
        return ("idl", e["rule"], e["variant"], e["where"], e["len"], position_of(u, c["base"], e)) + cfg
    return (cs["kind"], json.dumps(cs, sort_keys=True)) + cfg


def symptom(obs, broken):
    if obs["exit"] == "timeout":
        return "hang"
    if obs["exit"] == "signal":
        return "killed"
    if obs["crash"]:
        return "crashTrace" + ("Exit0" if obs["exit"] == "zero" else "")
    if broken:
        if obs["exit"] == "zero":
            return "accepted"
        if [f for f in obs["files"]]:
            return "filesWritten"
        if not obs["diag"]:
            return "noDiagnostic"
    else:
        if obs["exit"] == "zero":
            return "incompleteOutput"
    return "other"


def class_of(u, run, broken):
    c = run["c"]
    cs = c["case"]
    obs = run["obs"]
    cls = {"check": "C04.run", "kind": cs["kind"], "symptom": symptom(obs, broken), "mech": M.mechanism_of(obs)}
    if cs["kind"] in ("idl", "pair", "option"):
        es = cs["edits"]
        cls["rule"] = "+".join(sorted(e["rule"] for e in es))
        cls["where"] = "+".join(e["where"] for e in es)
        cls["position"] = "+".join(position_of(u, c["base"], e) for e in es)
    elif cs["kind"] == "cmd":
        cls["rule"] = cs["rule"]
        cls["variant"] = cs["variant"]
    if cs["kind"] == "option":
        cls["option"] = cs["option"]
    return cls


def explain(obs, broken, expected):
    want = ("exit != 0, a diagnostic, no file under -o, no crash trace, no hang" if broken else
            "exit 0 with exactly the files %s, or a refusal without crash" % expected)
    got = "exit=%s rc=%s diag=%s crash=%s files=%s" % (obs["exit"], obs["rc"], obs["diag"], obs["crash_marks"], obs["files"])
    return want, got


def run(ctx, args):
    thriftgo = ctx.build_repo(".", "thriftgo")
    if args.replay:
        return replay(ctx, thriftgo, args.replay)
    tier = ctx.tier
    T = TIERS[tier]
    rnd = random.Random(ctx.seed)
    bases = M.base_programs(tier)
    layer_a_selfcheck(ctx, tier)
    cases = generate(ctx, tier, bases)
    if not cases:
        raise vlib.MachineryError("TLC emitted no cases")
    vacuity(cases, bases, tier)

    # thorough: every backend option as the configuration of sampled broken IDL cases
    if T["option_cases"]:
        idl = [c for c in cases if c["case"]["kind"] == "idl"]
        for cfg in option_configs(ctx, thriftgo):
            for c in rnd.sample(idl, T["option_cases"]):
                c2 = json.loads(json.dumps(c))
                c2["cmd"]["langs"][0]["opts"] = cfg
                c2["case"] = dict(c2["case"], kind="option", option=",".join(M.option_text(o) for o in cfg))
                c2["b"] = None
                cases.append(c2)

    # runs the model predicts to overflow the stack cost 10-30 s each: a seeded, stratified sample
    cases.sort(key=lambda c: json.dumps([c["base"], c["case"], c["cmd"]], sort_keys=True))
    slow = [c for c in cases if c.get("b") and c["b"]["mech"] == "crash.stackOverflow"]
    keep = set()
    strata = collections.defaultdict(list)
    for c in slow:
        e = c["case"]["edits"][0]
        strata[(e["variant"], e["len"])].append(c)
    order = []
    for k in sorted(strata):
        rnd.shuffle(strata[k])
    while len(order) < T["overflow_runs"] and any(strata.values()):
        for k in sorted(strata):
            if strata[k] and len(order) < T["overflow_runs"]:
                order.append(strata[k].pop())
    keep = {id(c) for c in order}
    skipped = [c for c in slow if id(c) not in keep]
    todo = [c for c in cases if id(c) not in {id(x) for x in skipped}]

    u = Universe(ctx, bases)
    not_sampled = 0
    if T["max_runs"] and len(todo) > T["max_runs"]:
        groups = collections.defaultdict(list)
        for c in todo:
            groups[stratum(u, c)].append(c)
        chosen, rest = [], []
        for k in sorted(groups, key=str):
            g = groups[k]
            rnd.shuffle(g)
            chosen.append(g[0])
            rest += g[1:]
        rnd.shuffle(rest)
        chosen += rest[:max(0, T["max_runs"] - len(chosen))]
        not_sampled = len(todo) - len(chosen)
        vlib.log("%d strata; %d of %d cases run in this tier (seed %d)" % (len(groups), len(chosen), len(todo), ctx.seed))
        ids = {id(c) for c in chosen}
        todo = [c for c in todo if id(c) in ids]
        ctx.extra_cov["strata"] = len(groups)
    t_render = time.time()
    for c in todo:
        u.add(c)
    vlib.log("programs rendered in %.1fs" % (time.time() - t_render))
    vlib.log("%d cases (%d predicted stack overflows left out of %d), %d distinct programs" % (
        len(todo), len(skipped), len(slow), len(u.progs)))
    t_exec = time.time()
    u.execute(thriftgo, u.runs)
    vlib.log("%d runs executed in %.1fs" % (len(u.runs), time.time() - t_exec))
    acc, judged = u.validate(u.runs, "all")

    # a rejected run is executed once more; if the second observation differs it is judged again
    rejected = [r for r in u.runs if r["id"] not in acc]
    confirmed = []
    if rejected:
        first = {r["id"]: {k: r["obs"][k] for k in ("exit", "diag", "crash", "files")} for r in rejected}
        u.execute(thriftgo, rejected)
        changed = [r for r in rejected if {k: r["obs"][k] for k in ("exit", "diag", "crash", "files")} != first[r["id"]]]
        acc2 = set()
        if changed:
            acc2, _ = u.validate(changed, "again")
            ctx.notes.append("%d rejected runs behaved differently when executed again; %d of them were then accepted"
                             % (len(changed), len(acc2)))
        confirmed = [r for r in rejected if r["id"] not in acc2]

    # bookkeeping, model drift, verdicts
    drift = collections.Counter()
    mech_agree = mech_total = 0
    bad_ids = {r["id"] for r in confirmed}
    for r in u.runs:
        c = r["c"]
        broken = judged[r["id"]]
        cls = class_of(u, r, broken)
        ok = r["id"] not in bad_ids
        ctx.count(1, json.dumps({k: cls[k] for k in cls if k not in ("mech", "symptom", "option")}, sort_keys=True))
        if c.get("broken") is not None and bool(c["broken"]) != broken and c["case"]["kind"] != "option":
            raise vlib.MachineryError("Broken disagrees between the generated case and the rendered program: run %d %s"
                                      % (r["id"], json.dumps(c["case"])[:300]))
        b = c.get("b")
        if b:
            mech_total += 1
            if M.same_mechanism(b["mech"], cls["mech"]):
                mech_agree += 1
            if bool(b["conforms"]) != bool(ok):
                drift["model says %s (%s), binary %s (%s): %s" % (
                    "allowed" if b["conforms"] else "NOT allowed", b["mech"],
                    "allowed" if ok else "NOT allowed", cls["mech"], cls.get("rule"))] += 1
    vclasses = collections.Counter()
    for r in confirmed:
        broken = judged[r["id"]]
        cls = class_of(u, r, broken)
        vclasses[json.dumps({k: cls[k] for k in cls if k != "check"}, sort_keys=True)] += 1
        p = u.progs[r["pkey"]]
        want, got = explain(r["obs"], broken, r["c"].get("expected"))
        ctx.violation(cls,
                      {"base": r["c"]["base"], "case": r["c"]["case"], "cmd": r["c"]["cmd"], "program": p["prog"],
                       "syntax": {str(k): v for k, v in p["syntax"].items()}, "rules": sorted(p["rules"]),
                       "argv": r["argv"], "broken": broken},
                      {k: r["obs"][k] for k in ("exit", "rc", "diag", "crash_marks", "files", "other_files", "wall_s",
                                                "stdout", "stderr")},
                      want, "%s: %s [%s %s] -> %s" % (cls["symptom"], cls.get("rule", cls["kind"]), cls.get("variant", ""),
                                                     cls.get("where", ""), got),
                      rerun="thriftgo " + " ".join(r["argv"]))
    for r in u.runs[:: max(1, len(u.runs) // 4)][:4]:
        ctx.sample({"base": r["c"]["base"], "case": r["c"]["case"], "argv": r["argv"],
                    "observed": {k: r["obs"][k] for k in ("exit", "diag", "crash", "files")},
                    "broken": judged[r["id"]], "accepted_by_layer_A": r["id"] in acc})
    slow_runs = [r for r in u.runs if r["obs"].get("slow")]
    # layer B: the mechanisms the model has for each rule ("!" = the run they produce is not allowed by layer A)
    per_rule = collections.defaultdict(set)
    for c in cases:
        if c.get("b") and c["case"]["kind"] in ("idl", "cmd"):
            per_rule[c["case"]["rule"]].add(c["b"]["mech"] + ("" if c["b"]["conforms"] else "!"))
    per_rule = {r: sorted(v) for r, v in per_rule.items()}
    ctx.extra_cov.update({
        "cases_generated": len(cases), "runs": len(u.runs), "distinct_programs": len(u.progs),
        "rejected_by_layer_A": len(confirmed), "rejected_classes": dict(vclasses),
        "predicted_overflow_not_run": len(skipped), "cases_not_sampled_in_this_tier": not_sampled,
        "runs_over_30s_repeated_with_long_limit": len(slow_runs),
        "layer_B_mechanism_agreement": "%d/%d" % (mech_agree, mech_total),
        "layer_B_candidates": sorted({"%s -> %s" % ("+".join(case_rules(c)), c["b"]["mech"]) for c in cases
                                      if c.get("b") and not c["b"]["conforms"]}),
        "rules": sorted({r for c in cases for r in case_rules(c)}),
        "layer_B_mechanisms_per_rule": per_rule,
        "rules_without_a_firing_mechanism_in_the_model": sorted(r for r in per_rule if not any(
            m.split(" ")[0] not in ("ok",) and not m.endswith("!") for m in per_rule[r])),
    })
    if drift:
        for k, n in sorted(drift.items()):
            print("MODEL-DRIFT: property=C04 %s [%d run(s)]" % (k, n), flush=True)
        ctx.notes.append({"implementation_model_drift": dict(drift)})
        if os.environ.get("VERIF_STRICT_MODEL") == "1":
            raise vlib.MachineryError("layer B disagrees with the binary on %d runs" % sum(drift.values()))
    ctx.exhaustive = not skipped and not not_sampled
    return ctx.finish(
        rule="cases = TLC enumeration (MC_Pipeline, BFS) of base program x rule x variant x position x {go, fastgo} x -r "
             "plus command-line faults plus the unedited bases"
             + ("; plus TLC-simulated pairs of edits and every option of thriftgo -h as configuration of sampled cases"
                if tier == "thorough" else " (rules typed only by the backend under all four configurations, the "
                "others under go/no -r and fastgo/-r)")
             + "; each case rendered and run on the binary, each run judged by TLC (Trace_Pipeline) against the "
               "abstract machine. distinct class = (kind, rule(s), variant, construct, main/used/unused include, -r)",
        assumptions=[
            "rule catalogue transcribed from the property statement; command-line rules from thriftgo -h / README",
            "an identifier used as a constant value is not kind-checked against the declared type; constants of "
            "container types are outside the catalogue (the statement speaks of scalar and struct types)",
            "a run is a hang only if it exceeds 30 s and, executed again, 600 s (the machine may be loaded)",
            "runs the model predicts to end in a stack overflow are sampled (%d of %d run)" % (len(slow) - len(skipped), len(slow)),
            "diagnostic = any output line that is not a [WARN]/[INFO] log line",
        ],
        trusted=["TLC", "lib/c04_model.py (projection, text mutations, argv, output classification)", "lib/idl.py"])


def replay(ctx, thriftgo, path):
    rp = json.load(open(path))
    cs = rp["case"]
    prog = cs["program"]
    d = ctx.mkdir("replay")
    syntax = {int(k): v for k, v in cs.get("syntax", {}).items()}
    main = M.write_program(prog, d, syntax)
    obs = M.observe(thriftgo, M.argv_of(cs["cmd"], main, "out1"), d, M.go_file_keys(prog), out="out1")
    row = {"prog": M.to_model(prog, syntax_bad=set(syntax)), "rules": [r for r in cs.get("rules", []) if r in IDL_RULES],
           "runs": [{"id": 1, "cmd": cs["cmd"], "obs": {k: obs[k] for k in ("exit", "diag", "crash", "files")}}]}
    f = ctx.path("obs-replay.ndjson")
    vlib.write_ndjson(f, [row])
    r = ctx.tlc("Pipeline", "Trace_Pipeline", "Trace_Pipeline", files={"obs.ndjson": f}, timeout=600,
                label="Trace_Pipeline[replay]")
    ok = "ACC 1" in r["lines"]
    broken = "RUN 1 broken" in r["lines"]
    ctx.traces_validated += 1
    ctx.count(1, "replay")
    ctx.count(0, "replay-accepted" if ok else "replay-rejected")
    ctx.sample({"argv": M.argv_of(cs["cmd"], main, "out1"), "observed": {k: obs[k] for k in ("exit", "diag", "crash", "files")},
                "broken": broken, "accepted_by_layer_A": ok})
    print("replay: broken=%s exit=%s rc=%s diag=%s crash=%s files=%s -> %s" % (
        broken, obs["exit"], obs["rc"], obs["diag"], obs["crash_marks"], obs["files"],
        "accepted by layer A" if ok else "REJECTED by layer A"), flush=True)
    if not ok:
        want, got = explain(obs, broken, None)
        ctx.violation(rp.get("class", {"check": "C04.run"}), cs, obs, want, "replay: " + got)
    return ctx.finish(rule="replay of one case", assumptions=[], trusted=["TLC", "lib/c04_model.py"])
