"""C17 — dumping an AST to IDL text and parsing it back gives the same IDL.

Spec: spec/Lexical/Roundtrip.tla (the equality `Approx` the property demands and the acceptance requirement, evaluated by
TLC over every recorded pair), spec/Lexical/RtGen.tla + LexLit.tla (universe: literal contents over the alphabet
of the property, written the way the printer of Lexical.tla writes them; service-function shapes).
Flow: TLC enumerates literal contents and function shapes -> programs (lib/c03_seeds.py: one small valid program per
literal x place, per shape, plus hand-written programs for every node kind) -> harness `inproc dump`:
parse -> CheckAll + ResolveSymbols -> dump.DumpIDL -> parse the dumped text -> CheckAll + ResolveSymbols, both projections
-> TLC validates every pair against Roundtrip.tla (ACC n).  A pair TLC does not accept is a violation.
"""
import json
import os

import c03_lex as lex
import c03_seeds as seeds
import idl
import vlib

LEVEL = "model_checking"

REGISTRY = dict(
    level="model_checking",
    text="The round-trip law Parse(Dump(Parse(t))) ~ Parse(t) is stated in TLA+ (Roundtrip.tla: acceptance of the dumped text by "
         "parser and checker, and equality of the two ASTs up to a double re-read as the integer of equal value). TLC "
         "enumerates the universe the property names (every literal content over its alphabet up to a length, at every place a "
         "literal can stand; every argument x throws shape) and validates every (original AST, re-parsed AST) pair recorded from the "
         "real parser, checker and dump.DumpIDL.",
    design_ref="DESIGN.md 6 C17",
    note="Trusted: TLC, harness projection of parser.Thrift (harness/cmd/inproc/lexical.go), lib/idl.py renderer. The dumper "
         "is not transcribed. Not covered: cpp_type (not in the property's list), comments, files written by `trimmer -r` "
         "(the in-process DumpIDL call is observed instead).",
    technique="TLA+ round-trip law validated by TLC over recorded AST pairs; TLC-enumerated literal/shape universe")

ALPHABET = seeds.ALPHABET

TIERS = {
    "quick": dict(maxraw=3, raw_places={3: ["const"], 2: ["const", "default", "ann_field", "include"]}, maxlen=2, places=seeds.PLACES, maxlen_deep=2, deep_places=[], sq_places=["const", "ann_field"], deep_sq_places=[]),
    "thorough": dict(maxraw=3, raw_places={3: ["const", "default", "ann_field", "ann_type", "include"]}, maxlen=2, places=seeds.PLACES, maxlen_deep=3, deep_places=["const", "ann_field", "include"], sq_places=seeds.PLACES,
                     deep_sq_places=["const"]),
}

GEN_CFG = """INIT Init
NEXT Next
CONSTANTS
  Alphabet <- cAlphabet
  MaxLen = %d
  MaxArgs = 3
  MaxThrows = 3
  RawAlphabet <- cRawAlphabet
  MaxRaw = %d
  NumClasses <- cNumClasses
  NumPlaces <- cNumPlaces
INVARIANT Emit
CHECK_DEADLOCK FALSE
"""


def tla_str(s):
    return '"' + s.replace("\\", "\\\\").replace('"', '\\"') + '"'


# pieces of raw source text between the quotes (characters); judged by AST1 = AST2 only
RAW_ALPHABET = ["a", "\\t", "\\w", "\\\\", "\\\"", "\\'", "\"", "'"]


def mc_module():
    syms = ", ".join("<<" + ", ".join(tla_str(a) for a in seeds.alpha_atoms(sym)) + ">>" for sym in ALPHABET)
    raws = ", ".join("<<" + ", ".join(tla_str(c) for c in piece) + ">>" for piece in RAW_ALPHABET)
    return ("---- MODULE MC_RtGen ----\nEXTENDS RtGen\ncAlphabet == <<%s>>\ncRawAlphabet == <<%s>>\ncNumClasses == {%s}\ncNumPlaces == {%s}\n====\n" % (
        syms, raws, ", ".join(tla_str(c) for c in sorted(seeds.NUM_CLASSES)), ", ".join(tla_str(c) for c in seeds.NUM_PLACES)))


def inproc(ctx):
    dev = os.environ.get("VERIF_INPROC_BIN")       # development only: a prebuilt harness binary
    if dev:
        return dev
    return ctx.build_harness("inproc")


def render_program(p):
    files = {}
    for f in p["files"]:
        files[f["path"]] = idl.render_file(f)
    files.update(p.get("raw", {}))
    return {"id": p["name"], "main": p["files"][0]["path"], "files": files}


def features(p):
    """feature tags of a program, for the class string"""
    f = p["files"][0]
    tags = set()
    if f.get("includes"):
        tags.add("include")
    if f.get("cpp_includes"):
        tags.add("cpp_include")
    for ns in f.get("namespaces", []):
        tags.add("namespace+ann" if ns.get("ann") else "namespace")
    for d in f["defs"]:
        tags.add(d["k"])
    return "+".join(sorted(tags)) or "empty"


MARKERS = ["#OUTQUOTES", "##34;", "\\\"", "&", "\""]


def markers(content):
    """which of the character sequences the dumper treats specially occur in a literal content (class record)"""
    return "+".join(m for m in MARKERS if m in content) or "-"


def where_of(o):
    """coarse location of the first difference between the two projections (diagnosis only; the verdict is TLC's)"""
    if not o["acc"]:
        for k in ("dump_err", "parse2_err", "sem2_err"):
            if o.get(k):
                return k
        return "panic" if o.get("panic") else "not-accepted"
    import re
    d = lex.diff(norm_pair(o["p1"]), norm_pair(o["p2"]))
    if d is None:
        return None
    return re.sub(r"\[\d+\]", "", d.split(":")[0]).strip(".")


def norm_pair(p):
    """Python image of Norm() of Roundtrip.tla (used for diagnosis and as a cross-check of TLC's verdicts)"""
    def val(v):
        if v["t"] == "d" and v["int"] != "":
            return {"t": "i", "v": v["int"], "int": "", "l": [], "m": []}
        return {"t": v["t"], "v": v["v"], "int": "", "l": [val(e) for e in v["l"]], "m": [[val(k), val(e)] for k, e in v["m"]]}

    def fields(fs):
        return [dict(f, **{"def": val(f["def"])}) for f in fs]
    p = json.loads(json.dumps(p))
    for c in p["consts"]:
        c["value"] = val(c["value"])
    for k in ("structs", "unions", "exceptions"):
        for s in p[k]:
            s["fields"] = fields(s["fields"])
    for s in p["services"]:
        for fn in s["functions"]:
            fn["args"] = fields(fn["args"])
            fn["throws"] = fields(fn["throws"])
    return p


def run_dump(ctx, harness, reqs, tag):
    inp = ctx.path("dump-%s.in.ndjson" % tag)
    outp = ctx.path("dump-%s.out.ndjson" % tag)
    vlib.write_ndjson(inp, reqs)
    p = ctx.run([harness, "dump", inp, outp], timeout=3000, check=False)
    if p.returncode != 0:
        raise vlib.MachineryError("harness dump failed (rc=%d): %s" % (p.returncode, p.stderr[-3000:]))
    res = vlib.read_ndjson(outp)
    if len(res) != len(reqs):
        raise vlib.MachineryError("harness returned %d answers for %d requests" % (len(res), len(reqs)))
    return res


def validate(ctx, items, tag):
    """items: [(program name, class string, class record, observation)]; TLC decides every pair"""
    CH = 6000
    verdict = {}
    for off in range(0, len(items), CH):
        chunk = items[off:off + CH]
        pf = ctx.path("pairs-%s-%d.ndjson" % (tag, off))
        vlib.write_ndjson(pf, [{"id": it[0], "acc": bool(it[3]["acc"]), "p1": it[3]["p1"], "p2": it[3]["p2"]} for it in chunk])
        r = ctx.tlc("Lexical", "Roundtrip", "Trace_Roundtrip", files={"pairs.ndjson": pf}, timeout=3000,
                    label="Trace_Roundtrip[%s+%d]" % (tag, off))
        os.remove(pf)
        for s in r["lines"]:
            if s.startswith("ACC "):
                verdict[off + int(s[4:]) - 1] = ("ACC", "")
            elif s.startswith("REJ "):
                parts = s.split()
                verdict[off + int(parts[1]) - 1] = ("REJ", parts[2] if len(parts) > 2 else "")
    if len(verdict) != len(items):
        raise vlib.MachineryError("TLC judged %d of %d pairs" % (len(verdict), len(items)))
    nrej = 0
    for k, (name, cls, clsrec, o) in enumerate(items):
        ctx.count(1, cls)
        ctx.traces_validated += 1
        v, sect = verdict[k]
        w = where_of(o)
        if (v == "ACC") != (w is None):
            raise vlib.MachineryError("TLC verdict %s/%s and the Python image of Approx (%s) disagree on %s" % (v, sect, w, name))
        if v == "REJ":
            nrej += 1
            rec = dict(clsrec, check="C17.roundtrip", where=w)
            ctx.violation(rec, {"program": o["_req"]},
                          {k2: o.get(k2) for k2 in ("stage", "dumped", "dump_err", "parse2_err", "sem2_err", "panic", "p1", "p2")},
                          "dumped text accepted by parser and checker, and Approx(p1, p2) of spec/Lexical/Roundtrip.tla",
                          "round trip broken at %s: %s%s" % (w, name, (" -- dumped: " + repr(o.get("dumped", ""))[:160]) if o.get("dumped") else ""))
    return nrej


def run(ctx, args):
    wmax = int(os.environ.get("VERIF_TLC_WORKERS", "0") or 0)      # optional cap on TLC workers (loaded machines)
    if wmax:
        tlc0 = ctx.tlc
        ctx.tlc = lambda *a, **kw: tlc0(*a, **dict(kw, workers=min(wmax, kw.get("workers") or wmax)))
    harness = inproc(ctx)
    if args.replay:
        rp = json.load(open(args.replay))
        req = rp["case"]["program"]
        o = run_dump(ctx, harness, [req], "replay")[0]
        o["_req"] = req
        validate(ctx, [(req["id"], "replay", {"replay": True}, o)], "replay")
        return ctx.finish("replay of one program")
    T = TIERS[ctx.tier]

    # ---- 1. TLC: literal contents and function shapes
    r = ctx.tlc("Lexical", "MC_RtGen", "gen.cfg", files={"gen.cfg": GEN_CFG % (T["maxlen_deep"], T["maxraw"]), "MC_RtGen.tla": mc_module()},
                timeout=1200, label="RtGen[len<=%d]" % T["maxlen_deep"])
    lits, shapes, raws, nums = [], [], [], []
    for s in r["lines"]:
        if s.startswith("NUM "):
            nums.append(json.loads(s[4:]))
        elif s.startswith("RAW "):
            raws.append(json.loads(s[4:]))
        elif s.startswith("LIT "):
            lits.append(json.loads(s[4:]))
        elif s.startswith("SVC "):
            shapes.append(json.loads(s[4:]))
    lits.sort(key=lambda x: (len(x["syms"]), x["syms"]))
    shapes.sort(key=lambda x: json.dumps(x, sort_keys=True))
    good = [x for x in lits if x["ok"]]
    if not good or not shapes:
        raise vlib.MachineryError("TLC generated no literals / shapes")
    for x in good:     # the printer's raw text (TLC) must be what the shared renderer writes for these atoms
        if lex.esc(x["atoms"], '"') != x["raw"][1:-1]:
            raise vlib.MachineryError("Raw() of the spec and lib/c03_lex.esc disagree on %r" % x)
    need = {"#OUTQUOTES", "##34;", "&amp;", "\\", '"', "'"}
    have = set(a for x in good for a in x["atoms"])
    if not need <= have:
        raise vlib.MachineryError("vacuous universe: literal alphabet lacks %s" % (need - have))
    if not any(s["na"] == 1 and s["nt"] == 2 for s in shapes) or not any(s["nt"] == -1 for s in shapes):
        raise vlib.MachineryError("vacuous universe: function shapes incomplete")

    # ---- 2. programs
    progs = []      # (program, class string, class record)
    for p in seeds.c17_base_programs():
        progs.append((p, "base %s [%s]" % (p["name"], features(p)), {"family": "base", "program": p["name"]}))
    c03docs, special = seeds.c03_docs(ctx.tier)
    for n, f in c03docs + special:
        p = {"name": "c03_" + n, "files": [f]}
        progs.append((p, "c03doc %s" % n, {"family": "c03doc", "program": n}))
    k = 0
    for x in good:
        n = len(x["syms"])
        symtxt = "|".join(ALPHABET[i - 1] for i in x["syms"])
        for place in T["places"] if n <= T["maxlen"] else T["deep_places"]:
            for q in ('"', "'"):
                if q == "'" and (place in ("include", "cpp_include") or place not in (T["sq_places"] if n <= T["maxlen"] else T["deep_sq_places"])):
                    continue        # lib/idl.py writes include paths in double quotes
                k += 1
                p = seeds.literal_program(place, x["atoms"], k, q)
                progs.append((p, "literal place=%s quote=%s len=%d has=%s" % (place, q, n, markers("".join(x["atoms"]))),
                              {"family": "literal", "place": place, "has": markers("".join(x["atoms"]))}))
    for k, s in enumerate(shapes):
        p = seeds.service_program(s, k)
        progs.append((p, "function args=%d throws=%d oneway=%s ids=%s" % (s["na"], s["nt"], s["ow"], s["ids"]),
                      {"family": "function", "args": s["na"], "throws": s["nt"], "oneway": s["ow"]}))
    # numeric boundary family: doubles around the integer range (sign x magnitude class x place, enumerated by TLC)
    nums.sort(key=lambda x: json.dumps(x, sort_keys=True))
    for k, x in enumerate(nums):
        p = seeds.numeric_program(x["sign"], x["cls"], x["place"], k)
        progs.append((p, "double %s%s place=%s" % (x["sign"], x["cls"], x["place"]),
                      {"family": "double", "cls": x["cls"], "sign": x["sign"], "place": x["place"]}))
    if len(nums) != 2 * len(seeds.NUM_CLASSES) * len(seeds.NUM_PLACES) or not any(x["cls"] == "2p63" for x in nums):
        raise vlib.MachineryError("vacuous universe: numeric boundary family incomplete (%d cases)" % len(nums))
    # raw source literals, both quote styles where the grammar closes them; no content model: AST1 = AST2 decides
    raws.sort(key=lambda x: (len(x["syms"]), x["syms"]))
    nraw = 0
    for x in raws:
        n = len(x["syms"])
        places = T["raw_places"].get(n) or T["raw_places"][max(T["raw_places"])]
        pieces = [RAW_ALPHABET[i - 1] for i in x["syms"]]
        if "".join(pieces) != x["text"]:
            raise vlib.MachineryError("raw literal text of the spec differs from the piece table: %r" % x)
        feat = "+".join(sorted(set(("bs-dq" if pc == "\\\"" else "bs-sq" if pc == "\\'" else "bs-bs" if pc == "\\\\" else
                                     "bs-x" if pc.startswith("\\") else "dq" if pc == '"' else "sq" if pc == "'" else "plain")
                                    for pc in pieces)))
        for q, okq in (('"', x["dq"]), ("'", x["sq"])):
            if not okq:
                continue
            for place in places:
                nraw += 1
                p = seeds.raw_literal_program(place, x["text"], q, nraw)
                progs.append((p, "rawliteral place=%s quote=%s pieces=%d [%s]" % (place, q, n, feat),
                              {"family": "rawliteral", "place": place, "quote": q, "has": feat}))
    if nraw < 200 or not any(r_["family"] == "rawliteral" and "bs-dq" in r_["has"] and "bs-x" in r_["has"] and r_["quote"] == "'"
                             for _, _, r_ in progs):
        raise vlib.MachineryError("vacuous universe: raw source literals with an escape followed by \\\" in single quotes are missing")
    names = [p["name"] for p, _, _ in progs]
    if len(set(names)) != len(names):
        raise vlib.MachineryError("duplicate program names")

    # ---- 3. the real code
    reqs = [render_program(p) for p, _, _ in progs]
    obs = run_dump(ctx, harness, reqs, "all")
    items = []
    skipped = {}
    for (p, cls, rec), req, o in zip(progs, reqs, obs):
        o["_req"] = req
        if o.get("parse1_err") or o.get("sem1_err") or o["stage"] in ("parse1", "sem1"):
            # the original is not an accepted program: outside the quantifier (a panic there is C03/C04/C05 business)
            if rec["family"] in ("base", "function", "double"):
                raise vlib.MachineryError("universe program %s is not accepted: %s %s %s" % (
                    p["name"], o.get("parse1_err"), o.get("sem1_err"), o.get("panic")))
            skipped[rec["family"]] = skipped.get(rec["family"], 0) + 1
            continue
        items.append((p["name"], cls, rec, o))
    nrawacc = sum(1 for it in items if it[2]["family"] == "rawliteral")
    if nrawacc < 0.9 * nraw:
        raise vlib.MachineryError("only %d of %d raw-literal programs are accepted programs" % (nrawacc, nraw))
    ctx.extra_cov["raw_source_literals"] = nrawacc
    nlit = sum(1 for it in items if it[2]["family"] == "literal")
    ntot = sum(1 for _, _, rec in progs if rec["family"] == "literal")
    if nlit < 0.9 * ntot:
        raise vlib.MachineryError("only %d of %d literal programs are accepted programs" % (nlit, ntot))

    # ---- 4. TLC judges every pair
    validate(ctx, items, "u")
    for it in items[:2] + items[len(items) // 2:len(items) // 2 + 1]:
        ctx.sample({"program": it[3]["_req"]["files"][it[3]["_req"]["main"]][:300], "dumped": (it[3].get("dumped") or "")[:300],
                    "class": it[1]})
    ctx.extra_cov["programs"] = len(items)
    ctx.extra_cov["skipped_not_accepted_originals"] = skipped
    ctx.extra_cov["literal_contents"] = len(good)
    ctx.extra_cov["function_shapes"] = len(shapes)
    ctx.exhaustive = True
    return ctx.finish(
        rule="programs = hand-written valid programs for every node kind (lib/c03_seeds.py c17_base_programs), the C03 documents "
             "that are accepted programs, one minimal program per (literal content over the alphabet %s up to %d symbols [%d for "
             "places %s], place in %s), one per function shape (0..3 args x none/0..3 throws x oneway x id pattern) -- contents "
             "and shapes enumerated by TLC. distinct class = family + place + symbols | shape | program. "
             "traces_validated = (original AST, re-parsed AST) pairs judged by TLC against Roundtrip.tla" % (
                 ALPHABET, T["maxlen"], T["maxlen_deep"], T["deep_places"], T["places"]),
        assumptions=["both ASTs are projected after CheckAll (FixWarnings off) + ResolveSymbols, as the trimmer dumps a resolved AST",
                     "a double may come back as an integer literal of equal value (Norm in Roundtrip.tla treats both directions alike)",
                     "cpp_type, comments and literals containing raw line breaks are outside the universe",
                     "content-level literals (family literal) in which a backslash stands immediately before a quote character are outside the universe (the "
                     "alphabet symbols \\\\\" and \\\\' and the sequences backslash + quote): per docs/string-literals-in-the-IDL.md the walker "
                     "keeps a backslash pair, so such contents cannot be written in double quotes at all (LexLit.tla WalkLit / Plain); they are covered "
                     "at source level by family rawliteral (raw source texts over %s up to %d pieces, both quote styles), judged by AST1 = AST2 only" % (
                         RAW_ALPHABET, T["maxraw"]),
                     "documents whose original is rejected by parser or checker are outside the quantifier and skipped"],
        trusted=["TLC", "harness/cmd/inproc/lexical.go (projection)", "lib/idl.py renderer"])
