"""C18 — generated DeepEqual is structural equality; set uniqueness on Write.

Spec: Eq in spec/Wire/Wire.tla (value layer), laws and pair generation in spec/Wire/DeepEqGen.tla, the set-uniqueness
rule as part of Writable (Trace_Wire then demands "error iff two equal elements").
Flow: TLC enumerates pairs of values per struct-like type with the verdict of Eq (and checks reflexivity/symmetry on
the model); generated code (gen_deep_equal, and the reflect.DeepEqual path without it for sets) is compiled; the driver
builds both values independently, calls DeepEqual in both directions, on itself, on an independent copy and on nil;
write traces of set values are validated by TLC.
"""
import json

import c02
import genlab
import schema as schemalib
import universe
import vlib
from idl import F, T

LEVEL = "model_checking"

REGISTRY = dict(
    level="model_checking",
    text="Eq is specified in TLA+ on the same value model as the wire machine; TLC checks its laws on the bounded universe, "
         "generates all pairs among the first values of every struct-like type with Eq's verdict, and the generated DeepEqual "
         "is called on independently built Go objects for every pair (both directions, self, copy, nil). Set uniqueness on "
         "Write is validated by TLC trace validation (error iff two elements are Eq).",
    design_ref="DESIGN.md 6 C18",
    note="Trusted: harness Build (reflective construction from model values), TLC. NaN is kept out of the pair universe "
         "(reflexivity over NaN is not decided by the statement). Bounded: depth-1 shapes, <= 8 values per type.",
    technique="TLA+ Eq specification; TLC-generated value pairs replayed into generated DeepEqual; TLC trace validation of set writes")


def extras():
    return [
        {"k": "struct", "name": "KeyS", "fields": [F(1, "default", T("map", T("In"), T("string")), "m")]},
        {"k": "struct", "name": "SetIn", "fields": [F(1, "default", T("set", T("In")), "s")]},
        {"k": "struct", "name": "MapL", "fields": [F(1, "default", T("map", T("string"), T("list", T("i32"))), "m")]},
        {"k": "struct", "name": "MapS", "fields": [F(1, "default", T("map", T("i32"), T("In")), "m")]},
        {"k": "struct", "name": "SetL", "fields": [F(1, "default", T("set", T("list", T("i32"))), "s"),
                                                   F(2, "default", T("set", T("map", T("string"), T("i32"))), "sm")]},
        {"k": "struct", "name": "LL", "fields": [F(1, "default", T("list", T("In")), "a"), F(2, "default", T("list", T("In")), "b")]},
    ]


def has_nan(v):
    return "dbl:nan" in json.dumps(v)


def nil_in_set(sc, c):
    """does a set somewhere in the value hold a nil element?"""
    def walk(t, v):
        if v is None or "nil" in v:
            return False
        if t["n"] == "set":
            return any("nil" in e for e in v.get("l", [])) or any(walk(t["v"], e) for e in v.get("l", []))
        if t["n"] == "list":
            return any(walk(t["v"], e) for e in v.get("l", []))
        if t["n"] == "map":
            return any(walk(t["k"], k) or walk(t["v"], e) for k, e in v.get("m", []))
        if t["n"] == "struct":
            fs = v.get("s") if isinstance(v.get("s"), dict) else {}
            return any(walk(f["type"], fs[f["name"]]) for f in sc["structs"][t["s"]]["fields"] if f["name"] in fs)
        return False
    return walk({"n": "struct", "s": c["s"]}, c["v"])


def struct_key_class(sc, s):
    def walk(t):
        if t["n"] == "map":
            return t["k"]["n"] == "struct" or walk(t["v"])
        if t["n"] in ("list", "set"):
            return walk(t["v"])
        return False
    return any(walk(f["type"]) for f in sc["structs"][s]["fields"])


def run(ctx, args):
    thorough = ctx.tier == "thorough"
    shapes = universe.enumerate_shapes(ctx, 1)
    prog = universe.base_program(shapes, extra=extras())
    sc = schemalib.schema_of(prog)
    pv = 14 if thorough else 7
    tsc, _ = schemalib.to_tla(sc)
    cfg = ("INIT EqInit\nNEXT EqNext\nCONSTANTS\n  SetDups = TRUE\n  MaxVals = 40\n  Depth = 2\n  ReadVals = 1\n"
           "  Breadth = \"narrow\"\n  PairVals = %d\nINVARIANTS Reflexive Symmetric IdenticalAreEqual EqEmit\n"
           "CHECK_DEADLOCK FALSE\n" % pv)
    r = ctx.tlc("Wire", "DeepEqGen", "gen.cfg", files={"gen.cfg": cfg, "schema.json": json.dumps(tsc)},
                timeout=3000, label="DeepEqGen")
    cases = ctx.tlc_cases(r)
    eqc = [c for c in cases if c["k"] == "eq" and not has_nan(c)]
    wc = [c for c in cases if c["k"] == "w"]
    if not any(c["eq"] for c in eqc) or not any(not c["eq"] for c in eqc):
        raise vlib.MachineryError("vacuous pair universe")
    if not any(not c["writable"] for c in wc):
        raise vlib.MachineryError("vacuous: no set value with equal elements")
    vlib.log("universe: %d structs, %d pairs (%d equal), %d set write cases (%d refused)" % (
        len(sc["structs"]), len(eqc), sum(1 for c in eqc if c["eq"]), len(wc), sum(1 for c in wc if not c["writable"])))
    lab = genlab.Lab(ctx, "lab-eq")
    configs = [("e0", prog, ["gen_deep_equal"]), ("e1", prog, ["gen_deep_equal=false"])]
    if thorough:
        configs += [("e2", universe.present_typedef(prog, 2), ["gen_deep_equal"]),
                    # gen_deep_equal + value_type_in_container does not compile (containers of struct values): a
                    # C01 matter (option combination), so the combination is not a C18 configuration
                    ("e3", prog, ["gen_deep_equal", "enum_as_int_32", "naming_style=golint"]),
                    ("e4", universe.present_include(prog), ["gen_deep_equal", "nil_safe"])]
    for cid, p, o in configs:
        lab.add_case(cid, p, o)
    lab.generate()
    regs = []
    for cid, p, o in configs:
        c = lab.cases[cid]
        if c.rc != 0:
            raise vlib.MachineryError("thriftgo failed on %s: %s" % (cid, c.stderr[-2000:]))
        regs += genlab.struct_regs(c)
    lab.write_driver(regs)
    ok, out, binary = lab.build()
    if not ok:
        ctx.violation({"check": "C18.compile"}, {"cases": [c for c, _, _ in configs]}, out[-4000:], "compiles",
                      "generated code does not compile")
        return ctx.finish("compile failure")
    scen, meta = [], []
    for cid, p, o in configs:
        deq = "gen_deep_equal=false" not in o
        if deq:
            for k, c in enumerate(eqc):
                scen.append({"id": len(scen), "op": "deq", "case": cid, "s": c["s"], "x": {"x": c["x"], "y": c["y"]}})
                meta.append((cid, "eq", k))
        for k, c in enumerate(wc):
            if not deq and nil_in_set(sc, c):
                continue   # without gen_deep_equal equality is reflect.DeepEqual (nil != empty); the statement is about gen_deep_equal
            scen.append({"id": len(scen), "op": "w", "case": cid, "s": c["s"], "v": c["v"]})
            meta.append((cid, "w", k))
    res = lab.run_driver(binary, {cid: sc for cid, _, _ in configs}, scen, "eq", timeout=1500)
    wrows, widx = [], []
    for i, (r, (cid, kind, k)) in enumerate(zip(res, meta)):
        if kind == "eq":
            c = eqc[k]
            cls = c02.shape_class(sc, c["s"])
            ctx.count(1, "pair eq=%s %s" % (c["eq"], cls))
            x = r.get("x") or {}
            exp = {"xy": c["eq"], "yx": c["eq"], "xys": c["eq"], "ysx": c["eq"], "xx": True, "xx2": True, "x_nil": False, "nil_x": False, "nil_nil": True}
            bad = {n: x.get(n) for n in exp if x.get(n) != exp[n]}
            if bad:
                kind2 = "panic" if any(isinstance(v, str) for v in bad.values()) else "verdict"
                if set(bad) <= {"xx2", "xy", "yx", "xys", "ysx"} and all(exp[n] for n in bad):
                    relation = "equal-by-value-distinct-pointers"   # reported unequal although equal by value
                elif set(bad) & {"xy", "yx", "xys", "ysx"}:
                    relation = "different-reported-equal" if not c["eq"] else "mixed"
                else:
                    relation = "self/nil"
                ctx.violation({"check": "C18.pairs", "kind": kind2, "calls": ",".join(sorted(bad)), "relation": relation,
                               "struct_keys": struct_key_class(sc, c["s"]), "shape": cls},
                              {"case": cid, "s": c["s"], "x": c["x"], "y": c["y"]}, x, exp,
                              "DeepEqual deviates from Eq on %s (%s)" % (",".join(sorted(bad)), cls))
        else:
            c = wc[k]
            ctx.count(1, "setwrite writable=%s %s" % (c["writable"], c02.shape_class(sc, c["s"])))
            if r.get("panic"):
                ctx.violation({"check": "C18.setwrite", "kind": "panic"}, {"case": cid, "s": c["s"], "v": c["v"]},
                              r["panic"][:1500], "no panic", "Write panicked")
                continue
            wrows.append({"s": c["s"], "v": c["v"], "toks": r.get("toks") or [], "err": bool(r.get("err"))})
            widx.append(i)
    accepted, rejected, reach = c02.validate_write_traces(ctx, sc, wrows, "eq")
    for j in rejected:
        i = widx[j]
        cid, _, k = meta[i]
        c = wc[k]
        ctx.violation({"check": "C18.setwrite", "kind": "trace-rejected", "writable": c["writable"],
                       "shape": c02.shape_class(sc, c["s"])},
                      {"case": cid, "s": c["s"], "v": c["v"]},
                      {"toks": wrows[j]["toks"], "err": res[i].get("err")},
                      "Write errors iff a set holds two equal elements, otherwise the normal encoding",
                      "set write trace rejected by the wire spec")
    if eqc:
        ctx.sample({"pair": eqc[len(eqc) // 2]})
    if wrows:
        ctx.sample({"set_write": wrows[len(wrows) // 2]})
    return ctx.finish(
        rule="all pairs among the first %d values (TLC order) of each struct-like of the C02 universe + struct-keyed / "
             "struct-element / container-valued maps and sets; set write cases incl. duplicate elements; "
             "distinct class = (pair verdict | set writability, struct kind, requiredness, type shape)" % pv,
        assumptions=["NaN excluded from pairs",
                     "x and y are built independently; a third object holds y's value but shares with x every struct "
                     "pointer whose value is equal (shallow-copy-then-update aliasing)"],
        trusted=["harness pkg/drv Build", "TLC"])
