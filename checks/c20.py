"""C20 -- every documented backend option switches exactly its own feature.

(A) spec/Options/Options.tla: the documented option table (README + `thriftgo -h`, transcribed) as an
    abstract machine: options applied one at a time in any order, documented implications and
    documented-invalid combinations in Finish; nondeterministic where the documentation is unclear.
(B) spec/Options/OptionsImpl.tla: HandleOptions / checkOptions as the code does them (ordered table read
    from the real GoBackend.Options(), strings.HasPrefix first-match scan, singletons, doInitialisms).

1. the harness dumps the real option table (+ styles, templates, doInitialisms) -> table/impl.ndjson
2. TLC -simulate (seeded) generates random longer option lists
3. TLC explores (A) (invariants) and prints the allowed outcomes of the cases
4. TLC explores (B) over every option x {bare,=,=true,=false,=garbage...} and every ordered pair x {on,off}^2,
   lists every step that is not an (A) step (NONREFINE), every final observation (A) does not allow
   (DIVERGE), every (given name, table entry) with first-match != exact-match (SHADOWS) and prints every
   case with the outcomes (A) allows
5. every case is replayed into the real code (`inproc options`: fresh CodeUtils -> HandleOptions; cli level
   through args.Targets()) and a subset through the thriftgo binary (exit status + signatures in the
   generated text).  Verdicts: real behaviour not among the outcomes (A) allows.
A divergence of (B) that the real code does not show is a machinery error (wrong transcription).
"""
import concurrent.futures
import json
import os
import random
import re
import shutil
import time

import vlib

LEVEL = "model_checking"

REGISTRY = dict(
    level="model_checking",
    text="TLC explores the abstract option machine (documented table, implications, invalid combinations) and an "
         "implementation-shaped model of HandleOptions/checkOptions built on the real option table read at run "
         "time, checks the refinement step by step, and generates every option x {bare,=,=true,=false,=garbage}, "
         "every ordered pair x {on,off}^2 and seeded random longer lists with the allowed outcomes; every case is "
         "replayed in-process (Features by reflection, Template, NamingStyle and Identify behaviour, package "
         "prefix, import replacements, error) and single options / documented interplays through the thriftgo "
         "binary (exit status, signatures of a dozen features in the generated text).",
    design_ref="DESIGN.md 6 C20",
    note="Trusted: TLC, the hand-transcribed Doc table in spec/Options/Options.tla, the feature-key -> Go field "
         "table and the singleton reset in harness/cmd/inproc/options.go, the text signatures in checks/c20.py. "
         "Unclear documentation (with_field_mask without with_reflection, streamx without thrift_streaming, both "
         "json tag styles, always_gen_json_tag without gen_json_tag, template=default) is accepted either way.",
    technique="TLA+ refinement (Impl => Spec, listed step by step) + TLC-generated cases with allowed outcomes "
              "replayed into the real code and the real binary")

TIERS = {
    "quick": dict(lists=100, a=["small"], b=["quick"], refines=None),
    "thorough": dict(lists=1500, a=["thorough-backend", "thorough-cli", "thorough-triples"],
                     b=["thorough-backend", "thorough-cli", "thorough-triples"], refines="thorough-refines"),
}

CFG_A = """SPECIFICATION Spec
CONSTANTS
  Universe <- UOf
  Tier = "%s"
INVARIANTS AInvariants Emit
CHECK_DEADLOCK FALSE
"""
CFG_B = """SPECIFICATION BSpec
CONSTANTS
  Universe <- UOf
  Tier = "%s"
INVARIANTS RefInit Conform PositionFree EmitB
ACTION_CONSTRAINT RefStep
CHECK_DEADLOCK FALSE
"""
CFG_REF = """SPECIFICATION BSpec
CONSTANTS
  Universe <- UOf
  Tier = "%s"
PROPERTY Refines
CHECK_DEADLOCK FALSE
"""
CFG_L = """SPECIFICATION LSpec
CONSTANTS
  Universe <- UOf
  Tier = "lists"
INVARIANTS LEmit
CHECK_DEADLOCK FALSE
"""

IDENT = {"user_url": ("UserURL", "UserUrl"), "id": ("ID", "Id"), "http_api": ("HTTPAPI", "HttpApi")}

PROBE_IDL = """namespace go demo
include "inc.thrift"
include "e.thrift"
enum Color { RED = 1, GREEN = 2 }
struct Inner { 1: string v }
struct FooResult {
  1: required i64 user_url,
  2: optional string name = "x",
  3: list<Inner> kids,
  4: Color color,
  5: inc.Base base,
  6: i32 v1_2,
}
service Svc { FooResult get(1: FooResult req) }
"""
INC_IDL = "namespace go inc\nstruct Base { 1: string b }\n"
EMPTY_IDL = "namespace go empty\n"
# options with a crisp signature in the generated text of PROBE_IDL (default template)
PROBES = ["gen_setter", "gen_deep_equal", "keep_unknown_fields", "with_reflection", "nil_safe", "enum_as_int_32",
          "no_processor", "frugal_tag", "gen_db_tag", "json_enum_as_text", "skip_empty", "no_default_serdes"]
INTERPLAY = ["enable_nested_struct", "template", "gen_deep_equal", "naming_style", "ignore_initialisms"]


# ------------------------------------------------------------------------------------------------ cases
def occ(a):
    """the occurrence record of spec/Options for an argument string"""
    if "=" not in a:
        return {"n": a, "bare": True, "v": "", "a": a, "ok": False, "p": "", "r": ""}
    n, v = a.split("=", 1)
    o = {"n": n, "bare": False, "v": v, "a": a, "ok": False, "p": "", "r": ""}
    if "=" in v:
        o["ok"] = True
        o["p"], o["r"] = v.split("=", 1)
    return o


def name_of(a):
    return a.split("=", 1)[0]


def key_of(d):
    args = d.get("args")
    if isinstance(args, dict):      # ToJson of an empty function
        args = []
    return (d["lv"], tuple(args))


def norm_out(o):
    return (bool(o["err"]), tuple(sorted(o["on"])), o["style"], o["tmpl"], o["prefix"],
            tuple(sorted((p[0], p[1]) for p in o["repl"])))


def out_dict(t):
    return {"err": t[0], "on": list(t[1]), "style": t[2], "tmpl": t[3], "prefix": t[4],
            "repl": [list(p) for p in t[5]]}


class Expect:
    def __init__(self):
        self.outs = {}      # key -> set of normalized outcomes
        self.two = []       # two-target predictions of the implementation model

    def add(self, key, outs, src):
        s = set(outs)
        if key in self.outs and self.outs[key] != s:
            # the (A) machine (any order) and the (A) function (list order) must agree on cases without
            # repeated names
            raise vlib.MachineryError("specification inconsistent: %s gives other outcomes for %r" % (src, key))
        self.outs[key] = s


# ------------------------------------------------------------------------------------------------ in-process
def project(obs, boolnames):
    """the real observation in the shape of an abstract outcome, plus anomalies"""
    anomalies = []
    if obs.get("panic"):
        return None, ["panic"]
    if obs.get("terr"):
        return (True, (), "", "", "", ()), []
    if obs["err"] is not None:
        return (True, (), "", "", "", ()), []
    miss = [k for k in obs["missing"] if k in boolnames]
    if miss:
        raise vlib.MachineryError("feature key(s) without a Go field in golang.Features: %s -- update the table in "
                                  "harness/cmd/inproc/options.go" % miss)
    on = set(k for k in boolnames if k != "ignore_initialisms" and obs["feat"].get(k))
    st = set()
    for p, (a, b) in IDENT.items():
        v = obs["ident"].get(p)
        st.add("on" if v == a else "off" if v == b else "?")
    if st == {"off"}:
        on.add("ignore_initialisms")
    elif st != {"on"}:
        anomalies.append("ident")
    repl = obs["repl"]
    rp = tuple(sorted(repl.items())) if repl is not None else None
    return (False, tuple(sorted(on)), obs["style"], obs["template"], obs["prefix"], rp), anomalies


def diff_out(got, exp):
    """aspects in which a projected observation differs from one allowed outcome"""
    d = []
    if got[0] != exp[0]:
        return ["accepted-invalid" if exp[0] else "rejected-valid"]
    if got[0]:
        return []
    for k in sorted(set(got[1]) ^ set(exp[1])):
        d.append(k)
    if got[2] != exp[2]:
        d.append("style")
    if got[3] != exp[3]:
        d.append("template")
    if got[4] != exp[4]:
        d.append("prefix")
    if got[5] is not None and got[5] != exp[5]:
        d.append("import-replacement")
    return d


def best_diff(got, anomalies, outs):
    if got is None:
        return list(anomalies)
    best = None
    same = [o for o in sorted(outs) if o[0] == got[0]]     # explain against an outcome of the same kind
    for o in same or sorted(outs):
        d = diff_out(got, o)
        if best is None or len(d) < len(best):
            best = d
    return sorted(set(best + anomalies))


def run_harness(ctx, harness, reqs, tag):
    t0 = time.time()
    inf = ctx.path("req-%s.ndjson" % tag)
    outf = ctx.path("obs-%s.ndjson" % tag)
    vlib.write_ndjson(inf, reqs)
    ctx.run([harness, "options", inf, outf], timeout=900)
    obs = vlib.read_ndjson(outf)
    if len(obs) != len(reqs):
        raise vlib.MachineryError("harness returned %d observations for %d requests" % (len(obs), len(reqs)))
    if len(reqs) > 10:
        vlib.log("inproc options[%s]: %d requests in %.1fs" % (tag, len(reqs), time.time() - t0))
    return obs


def blame(key, bad):
    """option names of the smallest violating sub-case that was itself evaluated"""
    lv, args = key
    if args and (lv, ()) in bad:
        return ["(no option at all)"]
    if len(args) > 1:
        s1 = [a for a in args if (lv, (a,)) in bad]
        if s1:
            return sorted(set(name_of(a) for a in s1))
        if len(args) > 2:
            s2 = [(a, b) for a in args for b in args if a != b and (lv, (a, b)) in bad]
            if s2:
                a, b = s2[0]
                return sorted({name_of(a), name_of(b)})
    return sorted(set(name_of(a) for a in args))


def cls_of_case(key, outs):
    lv, args = key
    kind = "err" if all(o[0] for o in outs) else "ok" if not any(o[0] for o in outs) else "either"
    if len(args) <= 2:
        return "%s %s -> %s" % (lv, "+".join(sorted(name_of(a) for a in args)) or "(none)", kind)
    return "%s list n=%d -> %s" % (lv, len(args), kind)


# ------------------------------------------------------------------------------------------------ binary
def text_obs(outdir):
    txt = {}
    for r, _, fs in os.walk(outdir):
        for f in fs:
            with open(os.path.join(r, f), errors="replace") as fh:
                txt[os.path.relpath(os.path.join(r, f), outdir)] = fh.read()
    main = txt.get("demo/probe.go", "")
    o = {"files": sorted(txt)}
    o["init"] = "on" if "UserURL" in main else ("off" if "UserUrl" in main else "?")
    o["style"] = ("apache" if "type FooResult_ struct" in main else
                  "golint" if re.search(r"\bV1_2\b", main) else
                  "thriftgo" if re.search(r"\bV12\b", main) else "?")
    o["tmpl"] = ("default" if re.search(r"func \(p \*FooResult_?\) Read\(", main) else
                 "slim" if re.search(r"func \(p \*FooResult_?\) GetName", main) else
                 "raw_struct" if "type FooResult" in main else "?")
    m = re.search(r'"(?:([^"\n]*)/)?inc"', main)
    o["prefix"] = (m.group(1) or "") if m else "?"
    o["thriftlib"] = ('"github.com/apache/thrift/lib/go/thrift"' not in main, re.findall(r'"(example\.com/thrift|x/y)"', main))
    o["usepkg"] = sorted(set(re.findall(r'"(c/d|example\.com/drv)"', main)))
    o["gen_setter"] = "func (p *Inner) SetV(" in main
    o["gen_deep_equal"] = ") DeepEqual(" in main
    o["keep_unknown_fields"] = "_unknownFields" in main
    o["nil_safe"] = "if p != nil {\n\t\treturn p.V\n" in main
    o["enum_as_int_32"] = "type Color int32" in main
    o["frugal_tag"] = 'frugal:"' in main
    o["gen_db_tag"] = ' db:"' in main
    o["marshal"] = "func (p Color) MarshalText(" in main
    o["unmarshal"] = "func (p *Color) UnmarshalText(" in main
    o["no_processor"] = "SvcClient" not in main
    o["no_default_serdes"] = "fieldIDToName_Inner" not in main
    o["with_reflection"] = "demo/probe-reflection.go" in txt
    o["skip_empty"] = "empty/e.go" not in txt     # -r: a file per include, e.thrift has no content
    return o


def text_diff(o, exp):
    """aspects of the generated text that contradict the allowed outcome exp (not an error outcome)"""
    on = set(exp[1])
    d = []
    if "skip_go_gen" in on:
        return d
    if (o["init"] == "off") != ("ignore_initialisms" in on):
        d.append("ignore_initialisms")
    if "compatible_names" not in on and o["style"] != exp[2]:
        d.append("style")
    if (o["gen_deep_equal"]) != ("gen_deep_equal" in on) and exp[3] != "raw_struct":
        d.append("gen_deep_equal")
    if o["prefix"] != exp[4] and exp[3] != "raw_struct":
        d.append("prefix")
    if "no_default_serdes" in on:
        return d
    if o["tmpl"] != exp[3]:
        d.append("template")
    if exp[3] != "default":
        return d
    repl = dict(exp[5])
    lib = repl.get("github.com/apache/thrift/lib/go/thrift")
    if (lib is not None and lib != "github.com/apache/thrift/lib/go/thrift") != o["thriftlib"][0] or \
            (lib in ("example.com/thrift", "x/y") and lib not in o["thriftlib"][1]):
        d.append("thrift_import_path")
    if "database/sql/driver" in repl and repl["database/sql/driver"] not in o["usepkg"]:
        d.append("use_package")
    for k in ("gen_setter", "keep_unknown_fields", "nil_safe", "enum_as_int_32", "frugal_tag", "gen_db_tag",
              "no_processor", "no_default_serdes", "with_reflection", "skip_empty"):
        if k == "skip_empty" and "trim_idl" in on:
            continue        # the trimmer drops the unused include whose empty file is the signature
        if o[k] != (k in on):
            d.append(k)
    if o["marshal"] != ("json_enum_as_text" in on or "enum_marshal" in on):
        d.append("json_enum_as_text/enum_marshal")
    if o["unmarshal"] != ("json_enum_as_text" in on or "enum_unmarshal" in on):
        d.append("json_enum_as_text/enum_unmarshal")
    return d


def run_binary(ctx, thriftgo, keys):
    pdir = ctx.mkdir("probe")
    for n, c in (("probe.thrift", PROBE_IDL), ("inc.thrift", INC_IDL), ("e.thrift", EMPTY_IDL)):
        with open(os.path.join(pdir, n), "w") as fh:
            fh.write(c)

    def one(i):
        args = keys[i][1]
        g = "go" + (":" + ",".join(args) if args else "")
        o1 = os.path.join(pdir, "o%d" % i)
        p = ctx.run([thriftgo, "-r", "-o", o1, "-g", g, "probe.thrift"], cwd=pdir, timeout=300, check=False)
        res = {"rc": p.returncode, "msg": (p.stdout + p.stderr)[-400:],
               "cmd": "thriftgo -r -o out -g %s probe.thrift" % g}
        if p.returncode == 0:
            res["text"] = text_obs(o1)
        shutil.rmtree(o1, ignore_errors=True)
        return res
    with concurrent.futures.ThreadPoolExecutor(max_workers=vlib.NCPU) as ex:
        return list(ex.map(one, range(len(keys))))


# ------------------------------------------------------------------------------------------------ TLC
def lines_with(res, prefix):
    out = []
    for s in res["lines"]:
        if s.startswith(prefix):
            out.append(json.loads(s[len(prefix):]))
    return out


def tlc_data(ctx, dump):
    table = [{"name": t["name"], "def": "(Enabled by default)" in t["desc"], "chars": list(t["name"])}
             for t in dump["table"]]
    doinit = dump.get("doInitialisms")
    if doinit is None:
        doinit = dump.get("doInitialismsBehav")
    if doinit is None:
        raise vlib.MachineryError("cannot determine the initial doInitialisms of a CodeUtils")
    impl = {"doInit": bool(doinit), "styles": dump["styles"], "templates": dump["templates"],
            "thriftLib": dump["defaultThriftLib"]}
    return {"table.ndjson": "".join(json.dumps(t) + "\n" for t in table),
            "impl.ndjson": json.dumps(impl) + "\n"}


def gen_lists(ctx, data, n):
    files = dict(data)
    files["gen.cfg"] = CFG_L
    files["lists.ndjson"] = ""
    r = ctx.tlc("Options", "Gen_OptionLists", "gen.cfg", mode="simulate", simulate=n, depth=22, workers=1,
                files=files, timeout=1500, label="Gen_OptionLists[-simulate num=%d seed=%d]" % (n, ctx.seed))
    lists = lines_with(r, "LIST ")
    seen, out = set(), []
    for l in lists:
        k = json.dumps(l, sort_keys=True)
        if k not in seen:
            seen.add(k)
            out.append(l)
    if len(out) < n // 2:
        raise vlib.MachineryError("list generation produced only %d lists" % len(out))
    return out


def run_a(ctx, data, lists, tier, exp):
    files = dict(data)
    files["gen.cfg"] = CFG_A % tier
    files["lists.ndjson"] = "".join(json.dumps(l) + "\n" for l in lists)
    r = ctx.tlc("Options", "MC_Options", "gen.cfg", files=files, timeout=3000, label="MC_Options[%s]" % tier)
    per = {}
    for c in lines_with(r, "CASE "):
        per.setdefault(key_of(c), set()).add(norm_out(c["out"]))
    if not per:
        raise vlib.MachineryError("TLC emitted no cases for the abstract machine (%s)" % tier)
    for k, v in per.items():
        exp.add(k, v, "MC_Options[%s]" % tier)
    doc = lines_with(r, "DOC ")
    if not doc:
        raise vlib.MachineryError("no DOC line from TLC")
    return doc[0], set(per)


def run_b(ctx, data, lists, given, tier, exp):
    files = dict(data)
    files["gen.cfg"] = CFG_B % tier
    files["lists.ndjson"] = "".join(json.dumps(l) + "\n" for l in lists)
    files["given.ndjson"] = "".join(json.dumps({"s": n, "chars": list(n)}) + "\n" for n in given)
    r = ctx.tlc("Options", "MC_OptionsImpl", "gen.cfg", files=files, timeout=3000,
                label="MC_OptionsImpl[%s]" % tier)
    keys = set()
    for c in lines_with(r, "CASES "):
        k = key_of(c)
        exp.add(k, [norm_out(o) for o in c["outs"]], "MC_OptionsImpl[%s]" % tier)
        keys.add(k)
    if not keys:
        raise vlib.MachineryError("TLC emitted no cases for the implementation model (%s)" % tier)
    div = {}
    for c in lines_with(r, "DIVERGE "):
        div[key_of(c)] = c["obs"]
    nonref = set(key_of(c) for c in lines_with(r, "NONREFINE "))
    sh = lines_with(r, "SHADOWS ")
    pp = lines_with(r, "PREFIXPAIRS ")
    exp.two = lines_with(r, "TWOTARGETS ")
    return keys, div, nonref, (sh[0] if sh else []), (pp[0] if pp else []), files


# ------------------------------------------------------------------------------------------------ main
def doc_names_of_spec():
    """the option names transcribed in Options.tla (only used to hand TLC their characters)"""
    with open(os.path.join(vlib.VERIF, "spec", "Options", "Options.tla")) as fh:
        t = fh.read()
    names = re.findall(r'<<"([a-z0-9_]+)", (?:TRUE|FALSE)>>', t)
    m = re.search(r"ValueNames\s*==\s*\{([^}]*)\}", t)
    names += re.findall(r'"([a-z0-9_]+)"', m.group(1))
    return names


def check_readme(doc):
    """oracle drift: the hand-transcribed Doc must still be what README.md documents"""
    with open(os.path.join(vlib.REPO, "README.md")) as fh:
        t = fh.read()
    m = re.search(r"### Go backend options.*?\n\| Option \|.*?\n\|[-| ]+\n(.*?)\n\n", t, re.S)
    if not m:
        raise vlib.MachineryError("README.md: option table not found (oracle drift)")
    rows = {}
    for ln in m.group(1).splitlines():
        c = [x.strip() for x in ln.strip().strip("|").split("|")]
        n = re.match(r"`([a-z0-9_]+)", c[0])
        if n:
            rows[n.group(1)] = c[1]
    drift = []
    for n, d in rows.items():
        if n not in doc["names"]:
            drift.append("README documents %s, Doc does not" % n)
        elif n in doc["bools"] and ("true" in d) != (n in doc["on"]):
            drift.append("README default of %s is %r, Doc says %s" % (n, d, n in doc["on"]))
    for n in doc["names"]:
        if n not in rows and n not in doc["helponly"] and n != "always_gen_json_tag":
            drift.append("Doc has %s, README does not" % n)
    if len(rows) < 50 or drift:
        raise vlib.MachineryError("oracle drift between README.md and Doc in spec/Options/Options.tla: %s"
                                  % ("; ".join(drift[:5]) or "%d rows parsed" % len(rows)))


def check_help(ctx, thriftgo, dump):
    p = ctx.run([thriftgo, "-h"], check=False, timeout=60)
    txt = p.stdout + p.stderr
    names = re.findall(r"^    ([a-z0-9_]+): ", txt, re.M)
    tab = [t["name"] for t in dump["table"]]
    if names != tab:
        raise vlib.MachineryError("`thriftgo -h` lists %d option names, GoBackend.Options() %d -- the run-time "
                                  "table is not what -h documents" % (len(names), len(tab)))
    return names


def evaluate_inproc(ctx, harness, exp, keys, boolnames, tag):
    keys = sorted(keys)
    reqs = [{"op": "case", "level": k[0], "args": list(k[1])} for k in keys]
    obs = run_harness(ctx, harness, reqs, tag)
    bad = {}
    for k, o in zip(keys, obs):
        got, an = project(o, boolnames)
        d = best_diff(got, an, exp.outs[k])
        ctx.count(1, cls_of_case(k, exp.outs[k]))
        if d:
            bad[k] = (d, o)
    ctx.traces_validated += len(keys)
    if bad and not tag.endswith("-again"):
        # verdict rule: a violating case is executed once more
        again, _, _, _ = evaluate_again(ctx, harness, exp, sorted(bad), boolnames, tag + "-again")
        flaky = [k for k in bad if k not in again or again[k][0] != bad[k][0]]
        if flaky:
            raise vlib.MachineryError("%d violating case(s) do not reproduce when run again, e.g. %r" % (len(flaky), flaky[0]))
    if tag.endswith("-again"):
        return bad, obs, keys, []
    # leakage between cases: same cases, no reset of the process-wide singletons, shuffled
    rnd = random.Random(ctx.seed)
    idx = list(range(len(keys)))
    rnd.shuffle(idx)
    idx = idx[:4000]
    obs2 = run_harness(ctx, harness, [dict(reqs[i], noreset=True) for i in idx], tag + "-noreset")
    leaked = [keys[i] for j, i in enumerate(idx) if obs2[j] != obs[i]]
    return bad, obs, keys, leaked


def evaluate_again(ctx, harness, exp, keys, boolnames, tag):
    n0, d0, t0 = ctx.evaluations, set(ctx.distinct), ctx.traces_validated
    r = evaluate_inproc(ctx, harness, exp, keys, boolnames, tag)
    ctx.evaluations, ctx.distinct, ctx.traces_validated = n0, d0, t0      # not counted twice
    return r


def report_inproc(ctx, exp, bad):
    badset = set(bad)
    for k in sorted(bad, key=lambda x: (len(x[1]), x)):     # the smallest case represents its class
        d, o = bad[k]
        cls = {"check": "C20.inproc", "level": k[0], "diff": ",".join(d), "blame": ",".join(blame(k, badset))}
        ctx.violation(cls, {"lv": k[0], "args": list(k[1]), "where": "inproc"},
                      {k2: o.get(k2) for k2 in ("err", "terr", "panic", "template", "style", "ident", "prefix",
                                                "repl", "cliopts")} | {"on": sorted(x for x, v in (o.get("feat") or {}).items() if v)},
                      [out_dict(t) for t in sorted(exp.outs[k])],
                      "options %s (%s level): real settings differ from every documented outcome in: %s"
                      % (",".join(k[1]) or "(none)", k[0], ",".join(d)))


def evaluate_binary(ctx, thriftgo, exp, keys):
    keys = sorted(keys)
    t0 = time.time()
    res = run_binary(ctx, thriftgo, keys)
    vlib.log("thriftgo binary: %d option lists in %.1fs" % (len(keys), time.time() - t0))
    bad = {}
    for k, r in zip(keys, res):
        outs = exp.outs[k]
        ctx.count(1, "binary " + cls_of_case(k, outs))
        must_err = all(o[0] for o in outs)
        may_err = any(o[0] for o in outs)
        d = None
        if r["rc"] != 0:
            if not may_err:
                d = ["rejected-valid"]
        else:
            if must_err:
                d = ["accepted-invalid"]
            else:
                best = None
                for o in sorted(outs):
                    if o[0]:
                        continue
                    dd = text_diff(r["text"], o)
                    if best is None or len(dd) < len(best):
                        best = dd
                d = best
        if d:
            bad[k] = (d, r)
    ctx.traces_validated += len(keys)
    if bad:
        res2 = run_binary(ctx, thriftgo, sorted(bad))
        flaky = [k for k, r2 in zip(sorted(bad), res2) if r2["rc"] != bad[k][1]["rc"] or r2.get("text") != bad[k][1].get("text")]
        if flaky:
            raise vlib.MachineryError("%d violating binary case(s) do not reproduce when run again, e.g. %r" % (len(flaky), flaky[0]))
    badset = set(bad)
    for k in sorted(bad, key=lambda x: (len(x[1]), x)):
        d, r = bad[k]
        cls = {"check": "C20.binary", "diff": ",".join(d), "blame": ",".join(blame(k, badset))}
        ctx.violation(cls, {"lv": k[0], "args": list(k[1]), "where": "binary"}, r,
                      [out_dict(t) for t in sorted(exp.outs[k])],
                      "thriftgo -g go:%s: exit status / generated text contradict every documented outcome in: %s"
                      % (",".join(k[1]), ",".join(d)), rerun=r.get("cmd"))
    return bad


def two_targets(ctx, harness, exp, boolnames, bad):
    """Beyond the statement: two -g targets in one run share the naming-style objects.  The model's
    prediction for every pair of small target lists is replayed (args.Targets() over both, then backend
    1, then backend 2); a target that generates with settings its own list does not allow is a FINDING
    (a note in the evidence), never a verdict.  Model and real code must agree."""
    if not exp.two:
        return
    obs = run_harness(ctx, harness, [{"op": "leak", "first": t["t1"] if isinstance(t["t1"], list) else [],
                                      "second": t["t2"] if isinstance(t["t2"], list) else []} for t in exp.two],
                      "two-targets")
    leaks, mismatch = [], []
    for t, o in zip(exp.two, obs):
        a1 = t["t1"] if isinstance(t["t1"], list) else []
        a2 = t["t2"] if isinstance(t["t2"], list) else []
        for which, args, ob, pred, allowed in ((1, a1, o["first"], t["obs1"], t["allowed1"]),
                                               (2, a2, o["second"], t["obs2"], t["allowed2"])):
            got, an = project(ob, boolnames)
            if got is None:
                continue
            if got[5] is None:
                got = got[:5] + (norm_out(pred)[5],)
            if got != norm_out(pred):
                mismatch.append((a1, a2, which))
            if got not in set(norm_out(x) for x in allowed) and ("cli", tuple(args)) not in bad:
                # (a target whose list misbehaves on its own is a verdict above, not a leak)
                leaks.append("-g go:%s -g go:%s -> target %d generates with %s" % (
                    ",".join(a1), ",".join(a2), which,
                    "initialism correction " + ("off" if "ignore_initialisms" in got[1] else "on")))
    ctx.extra_cov["two_targets"] = {"pairs_of_target_lists": len(exp.two), "targets_with_foreign_settings": len(leaks),
                                    "model_and_code_disagree": len(mismatch)}
    if leaks:
        ctx.notes.append("FINDING (outside the statement, which speaks about one option list): with two -g targets in "
                         "one run a target can generate with the initialism setting of the OTHER target, because "
                         "naming styles are process-wide objects and args.Targets() pre-runs every option list: "
                         "%d of %d targets, e.g. %s" % (len(leaks), 2 * len(exp.two), "; ".join(leaks[:3])))
    if mismatch:
        ctx.notes.append("two-target model and real code disagree on %d target(s), e.g. %r" % (len(mismatch), mismatch[0]))


def binary_keys(keys, tier):
    out = []
    for k in keys:
        lv, args = k
        if lv != "cli":
            continue
        if any("," in a or ":" in a for a in args):
            continue
        names = [name_of(a) for a in args]
        if len(args) <= 1:
            out.append(k)
        elif len(args) == 2 and all(n in INTERPLAY for n in names):
            out.append(k)
        elif tier == "thorough" and len(args) == 2 and all(n in INTERPLAY or n in PROBES for n in names):
            out.append(k)
    return out


def vacuity(exp, keys, doc):
    names = set(doc["names"])
    singles = [k for k in keys if len(k[1]) == 1]
    pairs = [k for k in keys if len(k[1]) == 2 and k[0] == "backend"]
    if set(name_of(k[1][0]) for k in singles) != names:
        raise vlib.MachineryError("vacuous universe: not every documented option occurs alone")
    n = len(names)
    if len(pairs) < n * (n - 1) * 4:
        raise vlib.MachineryError("vacuous universe: %d ordered pairs, expected >= %d" % (len(pairs), n * (n - 1) * 4))
    need = {
        "a value that must be rejected": lambda k, o: len(k[1]) == 1 and all(x[0] for x in o),
        "an unclear combination (either outcome)": lambda k, o: len(set(x[0] for x in o)) == 2,
        "nested struct forcing slim": lambda k, o: k[0] == "cli" and "enable_nested_struct" in k[1] and all(x[3] == "slim" for x in o),
        "slim disabling deep-equal": lambda k, o: "template=slim" in k[1] and "gen_deep_equal" in k[1] and all("gen_deep_equal" not in x[1] for x in o),
        "apache_warning+apache_adaptor": lambda k, o: set(k[1]) == {"apache_warning", "apache_adaptor"} and all(x[0] for x in o),
        "a longer list": lambda k, o: len(k[1]) >= 5,
    }
    for what, f in need.items():
        if not any(f(k, exp.outs[k]) for k in keys):
            raise vlib.MachineryError("vacuous universe: no case with " + what)


def run(ctx, args):
    thriftgo = ctx.build_repo(".", "thriftgo")
    harness = ctx.build_harness("inproc")
    dump = run_harness(ctx, harness, [{"op": "dump"}], "dump")[0]
    check_help(ctx, thriftgo, dump)
    data = tlc_data(ctx, dump)
    exp = Expect()

    if args.replay:
        rp = json.load(open(args.replay))
        c = rp["case"]
        k = (c["lv"], tuple(c["args"]))
        lists = [{"level": k[0], "opts": [occ(a) for a in k[1]]}]
        doc, _ = run_a(ctx, data, lists, "lists", exp)
        boolnames = set(doc["bools"])
        if c.get("where") == "binary":
            evaluate_binary(ctx, thriftgo, exp, [k])
        else:
            bad, _, _, _ = evaluate_inproc(ctx, harness, exp, [k], boolnames, "replay")
            report_inproc(ctx, exp, bad)
        return ctx.finish("replay of one option list")

    T = TIERS[ctx.tier]
    lists = gen_lists(ctx, data, T["lists"])
    docnames = doc_names_of_spec()
    given = sorted(set(docnames) | set(t["name"] for t in dump["table"]))

    # the (A) runs and the (B) runs do not depend on each other: side by side
    def a_runs():
        e, ks, d = Expect(), set(), None
        for t in T["a"]:
            d, k1 = run_a(ctx, data, lists, t, e)
            ks |= k1
        return e, ks, d

    def b_runs():
        e, ks, dv, nr, sh, pp, bf = Expect(), set(), {}, set(), [], [], None
        for t in T["b"]:
            k1, d1, n1, sh, pp, bf = run_b(ctx, data, lists, given, t, e)
            ks |= k1
            dv.update(d1)
            nr |= n1
        return e, ks, dv, nr, sh, pp, bf
    with concurrent.futures.ThreadPoolExecutor(max_workers=2) as ex:
        fa, fb = ex.submit(a_runs), ex.submit(b_runs)
        ea, akeys, doc = fa.result()
        eb, bkeys, div, nonref, shadows, prefixpairs, bfiles = fb.result()
    exp.two = eb.two
    for e, src in ((ea, "MC_Options"), (eb, "MC_OptionsImpl")):
        for k, v in e.outs.items():
            exp.add(k, v, src)
    boolnames = set(doc["bools"])
    check_readme(doc)
    if set(doc["names"]) - set(given):
        raise vlib.MachineryError("Doc names not found by doc_names_of_spec: %s" % (set(doc["names"]) - set(given)))
    if doc["helponly"]:
        ctx.notes.append("options documented only by the run-time `-h` (not in the transcribed Doc, judged as "
                         "boolean switches): %s" % sorted(doc["helponly"]))
    if doc["gone"]:
        raise vlib.MachineryError("documented option(s) %s are no longer in GoBackend.Options(): their feature "
                                  "cannot be observed -- oracle drift, update Doc in spec/Options/Options.tla"
                                  % sorted(doc["gone"]))
    refinement = "listed: %d non-refining step(s), %d diverging final observation(s)" % (len(nonref), len(div))
    if T["refines"] and not nonref:
        files = dict(bfiles)
        files["gen.cfg"] = CFG_REF % T["refines"]
        ctx.tlc("Options", "MC_OptionsImpl", "gen.cfg", files=files, timeout=3000,
                label="MC_OptionsImpl[PROPERTY Refines, %s]" % T["refines"])
        refinement += "; PROPERTY Refines (OptionsImpl => Options!Spec) verified by TLC"
    keys = akeys | bkeys
    vacuity(exp, keys, doc)
    ctx.extra_cov["refinement"] = refinement
    ctx.extra_cov["first_match_is_not_exact_match"] = shadows
    ctx.extra_cov["documented_names_prefix_of_another"] = prefixpairs
    ctx.extra_cov["cases"] = {"in_process": len(keys)}
    if shadows:
        vlib.log("candidates: first prefix match differs from the exact match for %s" % shadows)

    # -------- real code, in process
    bad, obs, okeys, leaked = evaluate_inproc(ctx, harness, exp, keys, boolnames, "all")
    report_inproc(ctx, exp, bad)
    for i in (0, len(okeys) // 3, 2 * len(okeys) // 3):
        o = obs[i]
        ctx.sample({"level": okeys[i][0], "args": list(okeys[i][1]),
                    "allowed": [out_dict(t) for t in sorted(exp.outs[okeys[i]])],
                    "observed": {"err": o["err"], "on": sorted(k for k, v in o["feat"].items() if v),
                                 "template": o["template"], "style": o["style"], "ident": o["ident"],
                                 "prefix": o["prefix"], "repl": o["repl"]}})
    # candidates of (B) must reproduce on the real code
    ghost = sorted(k for k in div if k not in bad)
    if ghost:
        raise vlib.MachineryError("the implementation model diverges from the abstract machine on %d case(s) where "
                                  "the real code does not (e.g. %r): spec/Options/OptionsImpl.tla is a wrong "
                                  "transcription" % (len(ghost), ghost[0]))
    unpredicted = sorted(k for k in bad if k in bkeys and k not in div)
    if unpredicted:
        ctx.notes.append("%d violating case(s) are not predicted by the implementation model, e.g. %r"
                         % (len(unpredicted), unpredicted[0]))
    # -------- leakage (a finding, not a verdict: the statement speaks about one option list)
    if leaked:
        ctx.notes.append("process-wide state: %d case(s) observe other settings when the naming-style singletons "
                         "are not reset between cases (e.g. %r)" % (len(leaked), leaked[0]))
    two_targets(ctx, harness, exp, boolnames, bad)
    # -------- real binary
    bk = binary_keys(keys, ctx.tier)
    if len(bk) < len(doc["names"]) * 3:
        raise vlib.MachineryError("vacuous binary universe (%d cases)" % len(bk))
    ctx.extra_cov["cases"]["binary"] = len(bk)
    evaluate_binary(ctx, thriftgo, exp, bk)

    for n in ctx.notes:
        vlib.log("NOTE " + n)
    ctx.exhaustive = True
    return ctx.finish(
        rule="cases = every documented option alone in every form (bare, =, =true, =false, =garbage; legal / "
             "illegal / unclear values of the value options), every ordered pair of distinct options x {on,off}^2 "
             "(backend level; command-line level for every pair in the thorough tier and for pairs with "
             "enable_nested_struct / template / gen_deep_equal in the quick tier), a rejected value next to a "
             "legal option in both positions: all exhaustive; plus TLC -simulate random lists of 3..8 options "
             "(sampled, seeded). Each case is evaluated in-process against the outcomes the abstract machine "
             "allows; single options and documented interplays also through the thriftgo binary. distinct class = "
             "(level, option names, kind of allowed outcome)",
        assumptions=["documentation = README.md option table + `thriftgo -h` at the pinned commit (Doc in "
                     "spec/Options/Options.tla); options only the run-time -h lists are boolean switches",
                     "unclear documentation is accepted either way: with_field_mask without with_reflection, streamx "
                     "without thrift_streaming, both json tag styles, always_gen_json_tag without gen_json_tag, "
                     "template=default; repeated option names and unknown option names are outside the statement",
                     "random longer lists are a seeded sample, not exhaustive",
                     "initialism correction is observed through Identify on user_url / id / http_api"],
        trusted=["TLC", "Doc table in spec/Options/Options.tla", "harness/cmd/inproc/options.go (feature key -> Go "
                 "field table, singleton reset before every case)", "text signatures in checks/c20.py"])
