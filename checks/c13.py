"""C13 — field-mask filtered serialization emits exactly the selected data.

Spec: spec/Wire/MaskWire.tla (Sel over path sets in white/black mode, masked tree MTree, masked read MRead, conflict-free
mask sets enumerated by TLC as subsets of a path alphabet plus all subsets of the index groups), Trace_MaskWire.tla.
Flow: TLC enumerates (mask set, mode, value) cases and checks the design invariants; code is generated with
with_field_mask,with_reflection (+ field_mask_halfway, + field_mask_zero_required); masks are built by the REAL
fieldmask.NewFieldMask from the generated type descriptor and the case's path strings; the recorded Write traces are
validated by TLC against MTree (well-formed: every header count equals the elements that follow); masked Read of the full
reference encoding must store the selected part without error.
"""
import json

import c02
import genlab
import schema as schemalib
import vlib
from idl import F, T

LEVEL = "model_checking"

REGISTRY = dict(
    level="model_checking",
    text="Selection by a set of thrift paths is specified in TLA+ (Sel, white/black) on top of the wire machine; TLC enumerates "
         "all conflict-free path sets up to a size bound and every subset of the index groups, for a root type with every "
         "container kind, and each recorded Write trace under the real mask is validated step by step against the masked "
         "tree; masked Read results are compared with the spec's restriction of the value.",
    design_ref="DESIGN.md 6 C13",
    note="Trusted: fieldmask library for building the mask object from path strings (its own semantics is C14), apache "
         "TBinaryProtocol, harness, TLC. One root type; path sets of size <= 2 (thorough 3) + all index subsets over 4 "
         "elements; 4 values (containers of 0,1,2,4 elements).",
    technique="TLA+ path-set selection semantics + TLC-enumerated mask sets + TLC trace validation of masked Write")


def program():
    mi = {"k": "struct", "name": "MIn", "fields": [F(1, "default", T("i32"), "x"), F(2, "optional", T("string"), "y"),
                                                   F(3, "required", T("i32"), "z")]}
    root = {"k": "struct", "name": "MRoot", "fields": [
        F(1, "default", T("i32"), "s"), F(2, "required", T("i32"), "rs"), F(3, "required", T("MIn"), "rin"),
        F(4, "default", T("MIn"), "n"), F(5, "default", T("list", T("i32")), "li"), F(6, "default", T("list", T("MIn")), "ls"),
        F(7, "default", T("set", T("string")), "ss"), F(8, "default", T("map", T("string"), T("MIn")), "sm"),
        F(9, "default", T("map", T("i32"), T("i32")), "im"), F(10, "default", T("map", T("bool"), T("i32")), "bm"),
        F(11, "default", T("TdList"), "tl"), F(12, "optional", T("MIn"), "o"), F(13, "required", T("list", T("i32")), "rl"),
        F(14, "default", T("map", T("byte"), T("i32")), "bym"), F(15, "default", T("map", T("i64"), T("MIn")), "lm"),
        F(16, "default", T("map", T("i16"), T("i32")), "hm"),
        F(17, "default", T("list", T("list", T("i32"))), "ll"), F(18, "default", T("list", T("map", T("string"), T("i32"))), "lsm"),
        F(19, "default", T("map", T("string"), T("list", T("i32"))), "ml"), F(20, "default", T("list", T("set", T("i32"))), "lx"),
        F(64, "default", T("i32"), "far")]}
    td = {"k": "typedef", "name": "TdList", "type": T("list", T("i32"))}
    return {"files": [{"path": "a.thrift", "namespaces": [{"lang": "go", "name": "mk"}], "defs": [td, mi, root]}]}


def a(x):
    return {"a": x}


def min_(x, y, z):
    return {"s": {"x": a("i32:%d" % x), "y": ({"nil": True} if y is None else a("str:" + y)), "z": a("i32:%d" % z)}}


def value(k):
    return {"s": {
        "s": a("i32:7"), "rs": a("i32:8"), "rin": min_(1, "r", 2), "n": min_(3, None, 4),
        "li": {"l": [a("i32:%d" % (10 + i)) for i in range(k)]},
        "ls": {"l": [min_(20 + i, "q%d" % i, 50 + i) for i in range(k)]},
        "ss": {"l": [a("str:e%d" % i) for i in range(k)]},
        "sm": {"m": [[a("str:k%d" % (i + 1)), min_(60 + i, None, 70 + i)] for i in range(k)]},
        "im": {"m": [[a("i32:%d" % (i + 1)), a("i32:%d" % (11 + i))] for i in range(k)]},
        "bm": {"m": [[a("b:1"), a("i32:1")], [a("b:0"), a("i32:0")]][:min(k, 2)]},
        "tl": {"l": [a("i32:%d" % (30 + i)) for i in range(k)]},
        "o": ({"nil": True} if k % 2 == 0 and k != 4 else min_(5, "o", 6)),
        "rl": {"l": [a("i32:%d" % (40 + i)) for i in range(k)]},
        "bym": {"m": [[a("i8:%d" % (i + 1)), a("i32:%d" % (81 + i))] for i in range(k)]},
        "lm": {"m": [[a("i64:%d" % (i + 1)), min_(90 + i, None, 95 + i)] for i in range(k)]},
        "hm": {"m": [[a("i16:%d" % (i + 1)), a("i32:%d" % (85 + i))] for i in range(k)]},
        "ll": {"l": [{"l": [a("i32:%d" % (10 * (i + 1) + j)) for j in range(3)]} for i in range(min(k, 3))]},
        "lsm": {"l": [{"m": [[a("str:k1"), a("i32:%d" % (i + 1))], [a("str:k2"), a("i32:%d" % (i + 5))]]} for i in range(min(k, 2))]},
        "ml": {"m": [[a("str:k%d" % (i + 1)), {"l": [a("i32:%d" % (j + 1)) for j in range(3)]}] for i in range(min(k, 2))]},
        "lx": {"l": [{"l": [a("i32:%d" % (j + 1)) for j in range(2)]} for i in range(min(k, 2))]},
        "far": a("i32:64")}}


FID = {"s": 1, "rs": 2, "rin": 3, "n": 4, "li": 5, "ls": 6, "ss": 7, "sm": 8, "im": 9, "bm": 10, "tl": 11, "o": 12,
       "rl": 13, "bym": 14, "lm": 15, "hm": 16, "ll": 17, "lsm": 18, "ml": 19, "lx": 20, "far": 64, "x": 1, "y": 2, "z": 3}


def path(s):
    """'$.ls[1].x' -> steps"""
    import re
    steps = []
    for m in re.finditer(r'\.(\w+)|\[(\*|\d+)\]|\{(\*|\d+|"[^"]*")\}', s[1:]):
        if m.group(1):
            steps.append({"k": "f", "n": FID[m.group(1)]})
        else:
            e = m.group(2) or m.group(3)
            if e == "*":
                steps.append({"k": "*"})
            elif e.startswith('"'):
                steps.append({"k": "s", "s": e[1:-1]})
            else:
                steps.append({"k": "i", "n": int(e)})
    return steps


ALPHABET = ['$.s', '$.rs', '$.rin', '$.rin.x', '$.n', '$.n.x', '$.n.y', '$.li', '$.li[5]', '$.li[*]', '$.ls[0].x', '$.ls[*].x',
            '$.ls[1].y', '$.ss[0]', '$.ss[1]', '$.sm{"k1"}', '$.sm{"k2"}.x', '$.sm{"zz"}', '$.sm{*}.x', '$.im{1}', '$.im{2}',
            '$.im{9}', '$.im{*}', '$.bm', '$.bm{*}', '$.tl[1]', '$.o', '$.o.x', '$.far', '$.rl',
            '$.bym{1}', '$.bym{2}', '$.lm{1}.x', '$.lm{2}', '$.hm{1}',
            '$.ll[1][0]', '$.ll[*][2]', '$.ll[0]', '$.lsm[0]{"k1"}', '$.lsm[*]{"k2"}', '$.ml{"k1"}[1]', '$.ml{*}[0]', '$.lx[0][1]']
GROUPS = [['$.li[0]', '$.li[1]', '$.li[2]', '$.li[3]'], ['$.ls[0]', '$.ls[1]', '$.ls[2]', '$.ls[3]'],
          ['$.rl[0]', '$.rl[1]', '$.rl[2]', '$.rl[3]'], ['$.ss[0]', '$.ss[2]', '$.ss[3]'], ['$.im{1}', '$.im{3}', '$.im{4}']]


# write history for the "same object written twice" scenarios: masks that leave sub-masks on nested values
PRE = [['$.n.x'], ['$.ls[0].x', '$.o.x'], ['$.rin.x', '$.sm{"k2"}.x', '$.lm{1}.x'], ['$.ll[1][0]', '$.lsm[0]{"k1"}']]


def run(ctx, args):
    thorough = ctx.tier == "thorough"
    prog = program()
    sc = schemalib.schema_of(prog)
    tsc, sidx = schemalib.to_tla(sc)
    alpha = list(ALPHABET)
    groups = []
    for g in GROUPS:
        idx = []
        for p in g:
            if p not in alpha:
                alpha.append(p)
            idx.append(alpha.index(p) + 1)
        groups.append(idx)
    ks = [0, 1, 2, 4] if thorough else [0, 2, 4]
    tsc["alphabet"] = [{"p": path(p), "s": p} for p in alpha]
    tsc["groups"] = groups
    tsc["root"] = sidx["MRoot"]
    tsc["values"] = [value(k) for k in ks]
    tsc["strkeys"] = ["k1", "k2", "k3", "k4", "zz", "e0", "e1", "e2", "e3"]
    maxpaths = 2
    cfg = ("INIT MInit\nNEXT MNext\nCONSTANTS\n  SetDups = FALSE\n  MaxVals = 1\n  Depth = 1\n  ReadVals = 1\n  Breadth = \"narrow\"\n"
           "  MaxPaths = %d\nINVARIANTS NoMaskIsPlain WhiteHidesUntouched BlackWhiteComplement MEmit\nCHECK_DEADLOCK FALSE\n"
           % maxpaths)
    sc_json = json.dumps(tsc)
    r = ctx.tlc("Wire", "MaskWire", "gen.cfg", files={"gen.cfg": cfg, "schema.json": sc_json}, timeout=3000, label="MaskWire")
    cases = ctx.tlc_cases(r)
    if not thorough:   # quick: all single paths and groups, a seed-rotated third of the pairs
        keep = []
        for i, c in enumerate(cases):
            grp = any(set(c["ms"]) <= set(g) for g in groups)
            if len(c["ms"]) <= 1 or grp or (hash_ms(c["ms"]) + ctx.seed) % 3 == 0:
                keep.append(c)
        cases = keep
    vlib.log("universe: %d alphabet paths, %d cases" % (len(alpha), len(cases)))
    if not any(len(c["ms"]) >= 3 for c in cases):
        raise vlib.MachineryError("vacuous: no index-group subset of size >= 3")
    lab = genlab.Lab(ctx, "lab-mask")
    base = ["with_field_mask", "with_reflection"]
    configs = [("m0", base, False), ("m1", base + ["field_mask_halfway"], False), ("m2", base + ["field_mask_zero_required"], True)]
    # field_mask_zero_required + a typedef'd container field makes thriftgo fail (template error in ZeroWriter: the
    # typedef is not followed). thriftgo exits non-zero, so no property speaks about it; the zero-required package is
    # generated from the same program with the typedef written out (same schema).
    prog_notd = json.loads(json.dumps(prog))
    for d in prog_notd["files"][0]["defs"]:
        if d["k"] == "struct":
            for fl in d["fields"]:
                if fl["type"]["n"] == "TdList":
                    fl["type"] = T("list", T("i32"))
    for cid, o, zero in configs:
        lab.add_case(cid, prog_notd if zero else prog, o)
    lab.add_case("plain", prog, [])
    lab.generate()
    regs = []
    for cid in [c for c, _, _ in configs] + ["plain"]:
        c = lab.cases[cid]
        if c.rc != 0:
            raise vlib.MachineryError("thriftgo failed on %s: %s" % (cid, c.stderr[-2000:]))
        regs += genlab.struct_regs(c)
    lab.write_driver(regs)
    ok, out, binary = lab.build()
    if not ok:
        ctx.violation({"check": "C13.compile"}, {}, out[-4000:], "compiles", "generated code does not compile")
        return ctx.finish("compile failure")
    scen, meta = [], []
    for cid, o, zero in configs:
        for k, c in enumerate(cases):
            x = {"paths": c["paths"], "mode": c["mode"]}
            scen.append({"id": len(scen), "op": "mw", "case": cid, "s": "MRoot", "v": c["v"], "x": x})
            meta.append((cid, zero, k, "w"))
            scen.append({"id": len(scen), "op": "mr", "case": cid, "s": "MRoot", "toks": c["full"], "x": x})
            meta.append((cid, zero, k, "r"))
            if len(c["ms"]) <= 1 and cid != "m1":     # the same object, written before under masks that reach into nested
                # structs (not under field_mask_halfway, where sub-masks set on nested values are kept by design)
                scen.append({"id": len(scen), "op": "mw", "case": cid, "s": "MRoot", "v": c["v"], "x": dict(x, pre=PRE)})
                meta.append((cid, zero, k, "w"))
        for v in tsc["values"]:   # nil mask == code generated without the option
            scen.append({"id": len(scen), "op": "mw", "case": cid, "s": "MRoot", "v": v, "x": {"mode": "none"}})
            meta.append((cid, zero, v, "w0"))
            if cid != "m1":
                scen.append({"id": len(scen), "op": "mw", "case": cid, "s": "MRoot", "v": v, "x": {"mode": "none", "pre": PRE}})
                meta.append((cid, zero, v, "w0"))
    for v in tsc["values"]:
        scen.append({"id": len(scen), "op": "w", "case": "plain", "s": "MRoot", "v": v})
        meta.append(("plain", False, v, "w0"))
    res = lab.run_driver(binary, {cid: sc for cid in ("m0", "m1", "m2", "plain")}, scen, "mask", timeout=1500)
    rows, ridx = [], []
    st = {"n": "struct", "s": "MRoot"}
    for i, (r, (cid, zero, k, op)) in enumerate(zip(res, meta)):
        x = r.get("x") or {}
        if op == "w0":
            ctx.count(1, "nil-mask write %s" % cid)
            rows.append({"ms": [], "mode": "none", "v": k, "zero": zero, "toks": r.get("toks") or [], "err": bool(r.get("err"))})
            ridx.append(i)
            continue
        c = cases[k]
        cls = "%s %s n=%d %s" % (op, c["mode"], len(c["ms"]), "+".join(sorted(kind_of(p) for p in c["paths"])))
        ctx.count(1, cls)
        case = {"config": cid, "paths": c["paths"], "mode": c["mode"], "v": c["v"]}
        if r.get("panic"):
            ctx.violation({"check": "C13." + op, "kind": "panic"}, case, r["panic"][:1500], "no panic", "panic under a field mask")
            continue
        if x.get("mask_err"):
            # the library rejected a path set the model calls valid: C14's business; the case cannot be run
            ctx.notes.append("mask rejected by NewFieldMask: %s %s" % (c["paths"], x["mask_err"]))
            continue
        if op == "w":
            rows.append({"ms": c["ms"], "mode": c["mode"], "v": c["v"], "zero": zero, "toks": r.get("toks") or [],
                         "err": bool(r.get("err"))})
            ridx.append(i)
        else:
            what = None
            if r.get("err"):
                what = "error"
            elif x.get("unread"):
                what = "unread-bytes"
            else:
                got = c02.norm(sc, st, r.get("v"))
                if got != c02.norm(sc, st, c["read0"]) and got != c02.norm(sc, st, c["read1"]):
                    what = "object"
            if what:
                ctx.violation({"check": "C13.read", "kind": what, "mode": c["mode"], "paths": kinds(c["paths"])}, case,
                              {"err": r.get("err"), "v": r.get("v"), "x": x},
                              {"stored": c["read0"], "or_with_unselected_required_fields": c["read1"]},
                              "masked Read deviates: " + what)
    # TLC validation of masked writes
    accepted = set()
    CH = 20000
    for off in range(0, len(rows), CH):
        tf = ctx.path("mtraces-%d.ndjson" % off)
        vlib.write_ndjson(tf, rows[off:off + CH])
        rr = ctx.tlc("Wire", "Trace_MaskWire", "Trace_MaskWire", files={"traces.ndjson": tf, "schema.json": sc_json},
                     timeout=3000, label="Trace_MaskWire[%d]" % off)
        for s in rr["lines"]:
            if s.startswith("ACC "):
                accepted.add(off + int(s[4:]) - 1)
    ctx.traces_validated += len(rows)
    for j in [j for j in range(len(rows)) if j not in accepted]:
        i = ridx[j]
        cid, zero, k, op = meta[i]
        row = rows[j]
        paths = [alpha[a - 1] for a in row["ms"]]
        ctx.violation({"check": "C13.write", "kind": "trace-rejected", "mode": row["mode"], "paths": kinds(paths),
                       "zero_required": zero},
                      {"config": cid, "paths": paths, "mode": row["mode"], "v": row["v"]},
                      {"toks": row["toks"], "err": res[i].get("err")},
                      "well-formed encoding whose tree is MTree(value, mask)", "masked Write trace rejected by the spec")
    if rows:
        ctx.sample({"masked_write": rows[len(rows) // 2]})
    return ctx.finish(
        rule="mask sets = all conflict-free subsets of size <= %d of a %d-path alphabet (TLC, kSubset) + all subsets of 5 index/key "
             "groups over 4 elements; x {white, black} x values with containers of %s elements x {default, field_mask_halfway, "
             "field_mask_zero_required}; write and read; nil-mask writes vs code generated without the option. quick keeps "
             "singles, groups and a seed-rotated third of the pairs. distinct class = (op, mode, set size, path kinds)"
             % (maxpaths, len(alpha), ks),
        assumptions=["path sets where a '*' meets an explicit index/key at one position, or a path extends a complete path, are "
                     "left to C14 (order-dependent)",
                     "a masked Read may store or not store a required field that is not selected"],
        trusted=["fieldmask.NewFieldMask (mask construction)", "apache TBinaryProtocol", "harness", "TLC"])


def hash_ms(ms):
    h = 0
    for a in ms:
        h = h * 131 + a
    return h


def kind_of(p):
    if "[*]" in p or "{*}" in p:
        return "star"
    if "[" in p:
        return "index" + ("-sub" if p.count(".") > 1 else "")
    if "{" in p:
        return "key" + ("-sub" if p.count(".") > 1 else "")
    return "field" + ("-sub" if p.count(".") > 1 else "")


def kinds(paths):
    return "+".join(sorted(set(kind_of(p) for p in paths)))
