"""C19 — concurrent persist: all files written or an error, under every schedule
(generator.asyncPostProcess.OnFinished).

Layer A  spec/Persist/PersistSpec.tla   the statement as a state machine over what a caller can observe
Layer B  spec/Persist/Persist.tla       OnFinished transcribed action for action (select = two actions,
                                        semaphore, errs channel, wg, worker steps)
1. TLC checks B exhaustively within the tier's bounds: invariants, B => A (refinement), no deadlock,
   <>Returned and <>Terminated under weak fairness.  (design level: a failure is exit 2)
2. spec -> code: TLC generates schedules from B (one prefix per reachable model state = state cover;
   complete behaviours by simulation). The harness forces each through the gate of the verif hook into
   the REAL OnFinished in exactly that order (prefixes are then left to finish on their own).
3. code -> spec: the real OnFinished is run for every (n, k, fault vector) of the tier under random
   yields (free) and under a serialized random scheduler (rand); also without a post-processor, with
   concurrency <= 0, with 6..12 jobs (beyond the model's bounds), and through the real
   Generator.Generate + Generator.Persist on a real directory (harness subcommand persistfs).
4. Verdict: every recorded run is validated by TLC against layer A (Trace_PersistSpec; the event order
   comes from one mutex-protected log, never from clocks); a run that does not return is a liveness
   violation. A rejected run is re-executed before it is reported.
5. Conformance of B (never a verdict): recorded per-goroutine gate sequences are validated against B with
   the interleaving resolved by TLC (Trace_Persist), and exactly followed complete behaviours must end
   in the model's final state (return value, returned error, files). Differences are reported as
   "implementation model drift" (exit code unaffected; VERIF_STRICT_MODEL=1 turns them into exit 2).
"""
import itertools
import json
import os
import random
import shutil

import vlib

LEVEL = "model_checking"
SPECDIR = os.environ.get("C19_SPECDIR", "Persist")   # development knob: alternative spec directory

REGISTRY = dict(
    level="model_checking",
    text="TLC checks the action-for-action model of OnFinished (dispatcher select as two actions, semaphore, errs "
         "channel, WaitGroup, worker steps, every subset of failing steps) exhaustively: invariants, refinement of the "
         "abstract persist spec, deadlock freedom and <>Returned under weak fairness. TLC-generated schedules (one per "
         "reachable model state, plus simulated complete behaviours) are forced through the verif gate into the real "
         "OnFinished; the real code is also run for every (jobs, concurrency, fault vector) under random schedules. "
         "Every recorded run is validated by TLC against the abstract spec.",
    design_ref="DESIGN.md 6 C19, 5 hook 1",
    note="Trusted: TLC, harness/cmd/inproc/persist.go (gate, fake post-processor and write callback, one mutex-ordered "
         "log). Bounds: quick n<=4 k<=3 (model check n<=4 k<=2), thorough n<=5 k<=3; distinct paths; a panic inside "
         "PostProcess is outside the universe. Also covered: no post-processor (p.pp == nil), concurrency <= 0, "
         "6..12 jobs with up to 5 workers (random, abstract spec only), and Generator.Generate + Generator.Persist on a "
         "real directory (GOMAXPROCS as concurrency, real MkdirAll / WriteFile failures). A hang is decided by a "
         "watchdog (8 s, re-executed with 20 s). The outcome of a select with both branches ready cannot be forced; "
         "both are accepted. Differences between the real code and the implementation-shaped model that the abstract "
         "spec allows are reported as a note (model drift), not as a violation.",
    technique="TLA+ model checking (safety, liveness, refinement) + TLC-generated schedules replayed through a "
              "scheduler gate + TLC trace validation of every run")

TIERS = {
    # mc: (MaxN, MaxK, PPChoices); cover/sim: generation bounds; rnd: random runs per (n, k, fault vector, mode);
    # big: random runs beyond the model's bounds (layer A only); fs: Generator.Persist on a real directory
    "quick": dict(mc=[(4, 2, "{TRUE}"), (3, 2, "{FALSE}")], cover=[(3, 2)], sim=dict(n=4, k=3, num=1000),
                  rnd=dict(n=4, k=3, reps=1), nopp=dict(n=3, k=2), big=dict(ns=(6, 8), k=4, num=150),
                  fs=dict(n=3, k=2), btrace=600),
    "thorough": dict(mc=[(5, 3, "{TRUE}"), (4, 3, "{FALSE}")], cover=[(4, 2), (3, 3)], sim=dict(n=5, k=3, num=30000),
                     rnd=dict(n=5, k=3, reps=6), nopp=dict(n=4, k=3), big=dict(ns=(6, 7, 8, 10, 12), k=5, num=3000),
                     fs=dict(n=4, k=3), btrace=8000),
}

MC_CFG = """SPECIFICATION Spec
CONSTANTS
  MaxN = %d
  MaxK = %d
  PPChoices = %s
  AtomicDoneRelease = FALSE
INVARIANTS Invariants
PROPERTIES Refines AlwaysReturns Terminates
CHECK_DEADLOCK TRUE
"""
GEN_CFG = """SPECIFICATION GSpec
CONSTANTS
  MaxN = %d
  MaxK = %d
  PPChoices = {TRUE, FALSE}
  AtomicDoneRelease = TRUE
%s
INVARIANTS %s
CHECK_DEADLOCK FALSE
"""


# --------------------------------------------------------------------------- classification
def classify(t):
    """kind of a run the abstract spec rejects — from the observation only (label for the report)."""
    if t.get("hang"):
        return "no-return"
    if t.get("panic"):
        return "panic"
    exp = {j["path"]: ("pp(%s)" % j["content"] if t.get("withpp", True) else j["content"]) for j in t["jobs"]}
    raw = {j["path"]: j["content"] for j in t["jobs"]}
    for e in t["ev"]:
        if e["e"] != "ret" and e["path"] not in exp:
            return "wrong-path"
        if e["e"] == "wBegin" and exp[e["path"]] != e["content"]:
            return "wrong-content"
        if e["e"] == "ppBegin" and raw[e["path"]] != e["content"]:
            return "wrong-content"
    inwr, written, retd, ret_ok, failed = set(), {}, False, None, False
    for e in t["ev"]:
        k = e["e"]
        if k == "ret":
            retd, ret_ok = True, e["ok"]
            if inwr:
                return "return-while-write-in-flight"
            if e["ok"] and failed:
                return "success-despite-failed-step"
        elif k == "wBegin":
            if retd:
                return "write-after-return"
            written[e["path"]] = written.get(e["path"], 0) + 1
            if written[e["path"]] > 1:
                return "file-written-twice"
            inwr.add(e["path"])
        elif k == "wEnd":
            inwr.discard(e["path"])
            failed = failed or not e["ok"]
        elif k == "ppEnd":
            failed = failed or not e["ok"]
    if ret_ok:
        okw = {e["path"] for e in t["ev"] if e["e"] == "wEnd" and e["ok"]}
        if set(exp) - okw:
            return "success-with-unwritten-file"
    if not retd:
        return "no-return"
    return "not-a-behaviour-of-the-abstract-spec"


def trace_class(c, t):
    f = t.get("fault") or []
    early = "errRecv" in t.get("d", [])
    return "src=%s pp=%d n=%d k=%d ppfail=%d wrfail=%d ret=%s early=%s div=%s" % (
        c.get("src", c["mode"]), int(t.get("withpp", True)), min(t["n"], 9), t["k"], f.count("pp"), f.count("wr"),
        t.get("ret"), int(early), t.get("diverged") or "-")


# --------------------------------------------------------------------------- TLC helpers
def a_validate(ctx, traces, tag):
    """TLC validation against layer A. returns set of accepted indices (0-based)."""
    accepted = set()
    CH = 30000
    for off in range(0, len(traces), CH):
        chunk = traces[off:off + CH]
        cf = ctx.path("atr-%s-%d.ndjson" % (tag, off))
        vlib.write_ndjson(cf, [{"jobs": t["jobs"], "withpp": t["withpp"], "ev": t["ev"], "files": t["files"]} for t in chunk])
        r = ctx.tlc(SPECDIR, "Trace_PersistSpec", "Trace_PersistSpec", files={"traces.ndjson": cf},
                    timeout=1500, label="Trace_PersistSpec[%s+%d]" % (tag, off))
        for s in r["lines"]:
            if s.startswith("ACC "):
                accepted.add(off + int(s[4:]) - 1)
        os.remove(cf)
    return accepted


def a_diagnose(ctx, traces):
    """longest matched prefix per trace (list of ints, number of matched events)."""
    cf = ctx.path("adiag.ndjson")
    vlib.write_ndjson(cf, [{"jobs": t["jobs"], "withpp": t["withpp"], "ev": t["ev"], "files": t["files"]} for t in traces])
    r = ctx.tlc(SPECDIR, "Trace_PersistSpec", "Trace_PersistSpec_diag", files={"traces.ndjson": cf},
                timeout=600, workers=1, label="Trace_PersistSpec_diag")
    reach = {}
    for s in r["lines"]:
        if s.startswith("AT "):
            _, t, l = s.split()
            reach[int(t)] = max(reach.get(int(t), 0), int(l))
    return [reach.get(i + 1, 1) - 1 for i in range(len(traces))]


def b_validate(ctx, traces, tag):
    accepted = set()
    CH = 8000
    for off in range(0, len(traces), CH):
        chunk = traces[off:off + CH]
        cf = ctx.path("btr-%s-%d.ndjson" % (tag, off))
        vlib.write_ndjson(cf, [{"n": t["n"], "k": t["k"], "withpp": t["withpp"], "fault": t["fault"], "d": t["d"], "w": t["w"],
                                "ret": t["ret"], "got": max(t["got"], 0)} for t in chunk])
        r = ctx.tlc(SPECDIR, "Trace_Persist", "Trace_Persist", files={"traces.ndjson": cf},
                    timeout=2400, label="Trace_Persist[%s+%d]" % (tag, off))
        for s in r["lines"]:
            if s.startswith("ACC "):
                accepted.add(off + int(s[4:]) - 1)
        os.remove(cf)
    return accepted


# --------------------------------------------------------------------------- harness
def run_cases(ctx, harness, cases, tag):
    """run cases through the harness; cases with an "fs" field go through persistfs (one at a time, each in
    a fresh directory under the scratch area), the others through persist (in parallel)."""
    res = [None] * len(cases)
    for sub, sel in (("persist", [i for i, c in enumerate(cases) if not c.get("fs")]),
                     ("persistfs", [i for i, c in enumerate(cases) if c.get("fs")])):
        if not sel:
            continue
        casef = ctx.path("cases-%s-%s.ndjson" % (tag, sub))
        outf = ctx.path("runs-%s-%s.ndjson" % (tag, sub))
        rows = []
        for i in sel:
            row = {k: v for k, v in cases[i].items() if k not in ("src", "model")}
            if sub == "persistfs":
                ctx.fsdirs = getattr(ctx, "fsdirs", 0) + 1
                row["fs"] = dict(row["fs"], dir=ctx.path("fs", "%s-%d" % (tag, ctx.fsdirs), "out"))
            rows.append(row)
        vlib.write_ndjson(casef, rows)
        ctx.run([harness, sub, casef, outf], timeout=3000, cwd=ctx.scratch)
        out = vlib.read_ndjson(outf)
        if len(out) != len(sel):
            raise vlib.MachineryError("harness returned %d results for %d cases" % (len(out), len(sel)))
        for i, t in zip(sel, out):
            if t.get("panic", "").startswith("harness:"):
                raise vlib.MachineryError("harness could not prepare a case: " + t["panic"])
            res[i] = t
        os.remove(casef)
        os.remove(outf)
    shutil.rmtree(os.path.join(ctx.scratch, "fs"), ignore_errors=True)
    return res


def fill_faults(rng, c):
    out = []
    for j in range(c["n"]):
        pp, wr = c["pp"][j], c["wr"][j]
        if pp == "fail":
            out.append("pp")
        elif wr == "fail":
            out.append("wr")
        elif wr == "ok":
            out.append("none")
        elif pp == "ok":
            out.append(rng.choice(["none", "wr"]))
        elif not c["withpp"]:
            out.append(rng.choice(["none", "none", "wr"]))
        else:
            out.append(rng.choice(["none", "none", "pp", "wr"]))
    return out


def judge(ctx, harness, cases, runs, tag):
    """A-validate runs; re-execute and report the rejected ones. returns (accepted idx set)."""
    live = [i for i, t in enumerate(runs) if not t.get("skipped")]
    skipped = len(runs) - len(live)
    hung = [i for i in live if runs[i]["hang"]]
    tr = [runs[i] for i in live]
    acc = a_validate(ctx, tr, tag)
    accepted = {live[k] for k in acc}
    rejected = [i for i in live if i not in accepted]
    ctx.traces_validated += len(live)
    for i in live:
        ctx.count(1, trace_class(cases[i], runs[i]))
    if skipped and not hung:
        raise vlib.MachineryError("harness skipped cases without a hang")
    if not rejected:
        return accepted
    # diagnose + re-execute (at most 40)
    sub = rejected[:40]
    matched = a_diagnose(ctx, [runs[i] for i in sub])
    recases = []
    for i in sub:
        base = {k: v for k, v in cases[i].items()}
        base.update(full=True, hang_ms=20000)
        if cases[i]["mode"] == "replay":
            recases.append(dict(base, id=len(recases)))
        for s in range(3):
            recases.append(dict(base, id=len(recases), mode="rel", rel=runs[i]["rel"], seed=1000 + s, h=[]))
    owner = []
    for i in sub:
        cnt = 3 + (1 if cases[i]["mode"] == "replay" else 0)
        owner += [i] * cnt
    reruns = run_cases(ctx, harness, recases, tag + "-re")
    lv = [k for k, t in enumerate(reruns) if not t.get("skipped")]
    racc = a_validate(ctx, [reruns[k] for k in lv], tag + "-re")
    rej2 = {}
    for pos, k in enumerate(lv):
        if pos not in racc:
            rej2.setdefault(owner[k], (recases[k], reruns[k]))
    for pos, i in enumerate(sub):
        t = runs[i]
        kind = classify(t)
        confirmed = i in rej2
        if kind == "no-return" and not confirmed:
            ctx.notes.append("case %s/%s did not return within the watchdog once but returned when re-executed "
                             "(machine load?) - not reported" % (tag, cases[i].get("id")))
            continue
        rcase, rtrace = rej2.get(i, (dict(cases[i], full=True, mode="rel", rel=t["rel"], h=[]), t))
        cls = {"check": "C19.trace", "kind": kind}
        m = matched[pos]
        ctx.violation(cls, {k: v for k, v in rcase.items() if k not in ("src", "model")},
                      {"first_run": {k: t[k] for k in ("ev", "d", "w", "ret", "got", "hang", "files", "fault", "n", "k")},
                       "matched_events": m,
                       "rejected_event": t["ev"][m] if m < len(t["ev"]) else "(end of run: no return / files differ)",
                       "reproduced_on_reexecution": confirmed, "reexecution_log": rtrace.get("log")},
                      "a behaviour of spec/Persist/PersistSpec.tla that ends returned, files = successfully written jobs",
                      "real OnFinished run rejected by the abstract spec: " + kind)
    for i in rejected[40:]:
        if runs[i]["hang"]:
            continue
        ctx.violation({"check": "C19.trace", "kind": classify(runs[i])}, cases[i], {"ev": runs[i]["ev"]},
                      "a behaviour of PersistSpec.tla", "rejected run: " + classify(runs[i]))
    return accepted


def run(ctx, args):
    harness = ctx.build_harness("inproc")
    rng = random.Random(ctx.seed)
    if args.replay:
        rp = json.load(open(args.replay))
        base = dict(rp["case"], full=True, hang_ms=20000)
        cases = [dict(base, id=0)] + [dict(base, id=1 + s, seed=2000 + s) for s in range(9)]
        runs = run_cases(ctx, harness, cases, "replay")
        judge(ctx, harness, cases, runs, "replay")
        return ctx.finish("replay of one recorded schedule (10 executions)")
    T = TIERS[ctx.tier]

    # ---- 1. design level: the model itself
    ctx.tlc(SPECDIR, "PersistSpec", "MC_PersistSpec", timeout=300, label="MC_PersistSpec")
    for (mn, mk, ppc) in T["mc"]:
        ctx.tlc(SPECDIR, "Persist", "mc.cfg", files={"mc.cfg": MC_CFG % (mn, mk, ppc)}, timeout=6000,
                label="MC_Persist[n<=%d,k<=%d,pp:%s]" % (mn, mk, ppc))

    # ---- 2. generate schedules
    cover, seen = [], set()
    for (cn, ck) in T["cover"]:
        r = ctx.tlc(SPECDIR, "Gen_Persist", "gen.cfg",
                    files={"gen.cfg": GEN_CFG % (cn, ck, "VIEW View", "EmitState")}, timeout=3000,
                    label="Gen_Persist[cover n<=%d,k<=%d]" % (cn, ck))
        for c in ctx.tlc_cases(r):
            key = json.dumps([c["n"], c["k"], c["withpp"], c["wpc"], c["dpc"], c["pp"], c["wr"], c["nerrs"], c["got"]])
            if key not in seen:
                seen.add(key)
                cover.append(c)
    sw = 4
    r = ctx.tlc(SPECDIR, "Gen_Persist", "gen.cfg",
                files={"gen.cfg": GEN_CFG % (T["sim"]["n"], T["sim"]["k"], "", "EmitTerminal")},
                mode="simulate", simulate=max(1, T["sim"]["num"] // sw), depth=200, workers=sw, timeout=3000,
                label="Gen_Persist[simulate n<=%d,k<=%d]" % (T["sim"]["n"], T["sim"]["k"]))
    sim = ctx.tlc_cases(r)
    seen = set()
    usim = []
    for c in sim:
        key = json.dumps([c["n"], c["k"], c["withpp"], c["h"], c["fault"]])
        if key not in seen:
            seen.add(key)
            usim.append(c)
    sim = usim
    # vacuity: the universe must contain the interesting situations
    need = {
        "state: error received by the dispatch loop while a write is in flight":
            any(c["dpc"] == "errRecv" and c["inflight"] > 0 for c in cover),
        "state: dispatcher blocked on a full semaphore with an error pending":
            any(c["dpc"] == "select" and c["nerrs"] > 0 for c in cover),
        "state: two errors queued": any(c["nerrs"] >= 2 for c in cover),
        "state: returned while a worker has not released yet (n/a at hook grain) or all exited":
            any(c["terminal"] for c in cover),
        "state: n = 0": any(c["n"] == 0 for c in cover),
        "behaviour: select with both branches enabled": any(any(s["both"] for s in c["h"]) for c in sim),
        "behaviour: success": any(c["ret"] == "ok" and c["n"] >= 2 for c in sim),
        "behaviour: early error return": any(any(s["to"] == "errRecv" for s in c["h"]) for c in sim),
        "behaviour: error found after the final wait": any(any(s["to"] == "finalErr" for s in c["h"]) for c in sim),
        "behaviour: write failure": any("wr" in c["fault"] for c in sim),
        "behaviour: no post-processor": any(not c["withpp"] and c["n"] >= 2 for c in sim),
        "state: no post-processor, write in flight": any(not c["withpp"] and c["inflight"] > 0 for c in cover),
    }
    missing = [k for k, v in need.items() if not v]
    if missing:
        raise vlib.MachineryError("vacuous universe, missing: %s" % "; ".join(missing))

    cases = []
    for c in cover:
        cases.append(dict(id=len(cases), n=c["n"], k=c["k"], fault=fill_faults(rng, c), mode="replay", h=c["h"],
                          nopp=not c["withpp"], tail=rng.choice(["free", "rand"]), seed=rng.randrange(1 << 30),
                          src="cover", model=c))
    for c in sim:
        cases.append(dict(id=len(cases), n=c["n"], k=c["k"], fault=c["fault"], mode="replay", h=c["h"], tail="rand",
                          nopp=not c["withpp"], seed=rng.randrange(1 << 30), src="sim", model=c))
    nrep = len(cases)
    rn = T["rnd"]
    for n in range(0, rn["n"] + 1):
        for k in range(1, rn["k"] + 1):
            for fv in itertools.product(["none", "pp", "wr"], repeat=n):
                for mode in ("free", "rand"):
                    for _ in range(rn["reps"]):
                        cases.append(dict(id=len(cases), n=n, k=k, fault=list(fv), mode=mode,
                                          seed=rng.randrange(1 << 30), src=mode))
    # no post-processor configured (p.pp == nil)
    np_ = T["nopp"]
    for n in range(0, np_["n"] + 1):
        for k in range(1, np_["k"] + 1):
            for fv in itertools.product(["none", "wr"], repeat=n):
                for mode in ("free", "rand"):
                    cases.append(dict(id=len(cases), n=n, k=k, fault=list(fv), mode=mode, nopp=True,
                                      seed=rng.randrange(1 << 30), src="nopp-" + mode))
    # beyond the model's bounds: more jobs, more parallelism, random fault vectors (layer A only)
    bg = T["big"]
    for _ in range(bg["num"]):
        n = rng.choice(bg["ns"])
        pf = rng.choice([0.0, 0.1, 0.3, 0.6])
        fv = [rng.choice(["pp", "wr"]) if rng.random() < pf else "none" for _ in range(n)]
        cases.append(dict(id=len(cases), n=n, k=rng.randint(1, bg["k"]), fault=fv, mode=rng.choice(["free", "rand"]),
                          seed=rng.randrange(1 << 30), src="big"))
    # the real Generator.Generate + Generator.Persist on a real directory (path resolution, MkdirAll + WriteFile
    # callback; concurrency = GOMAXPROCS; write faults are real: parent is a file / path is a directory)
    fsb = T["fs"]
    for n in range(0, fsb["n"] + 1):
        for k in range(1, fsb["k"] + 1):
            for fv in itertools.product(["none", "pp", "wr"], repeat=n):
                for mode in ("free", "rand"):
                    cases.append(dict(id=len(cases), n=n, k=k, fault=list(fv), mode=mode, seed=rng.randrange(1 << 30),
                                      fs=dict(rel=rng.random() < 0.5), src="fs-" + mode))
            for fv in itertools.product(["none", "wr"], repeat=min(n, 2)):
                fv = list(fv) + ["none"] * (n - len(fv))
                cases.append(dict(id=len(cases), n=n, k=k, fault=fv, mode="rand", nopp=True, seed=rng.randrange(1 << 30),
                                  fs=dict(rel=rng.random() < 0.5), src="fs-nopp"))
    # concurrency <= 0 is normalised to 1
    for kk in (0, -1):
        for fv in (["none", "none"], ["pp", "none"], ["none", "wr"]):
            cases.append(dict(id=len(cases), n=2, k=kk, fault=fv, mode="rand", seed=rng.randrange(1 << 30), src="k<=0"))

    # ---- 3. run the real code
    runs = run_cases(ctx, harness, cases, "main")
    # a select whose outcome differed from the behaviour: try again (the choice is the runtime's)
    extra_cases, extra_runs = [], []
    todo = [i for i in range(nrep) if not runs[i].get("skipped") and runs[i]["diverged"] == "select"]
    for rnd_ in range(3):
        if not todo:
            break
        again = [dict(cases[i], id=k, seed=rng.randrange(1 << 30)) for k, i in enumerate(todo)]
        res = run_cases(ctx, harness, again, "sel%d" % rnd_)
        extra_cases += again
        extra_runs += res
        todo = [i for k, i in enumerate(todo) if not res[k].get("skipped") and res[k]["diverged"] == "select"]
    allcases = cases + extra_cases
    allruns = runs + extra_runs
    for t in allruns:
        if not t.get("skipped") and t["k"] <= 0:
            t["k"] = 1      # the statement of the normalisation; B-level only

    # ---- 4. verdicts: layer A
    accepted = judge(ctx, harness, allcases, allruns, "main")

    # ---- 5. conformance of the implementation-shaped model (never a verdict)
    drift = []
    exact = 0
    for i, (c, t) in enumerate(zip(allcases, allruns)):
        if t.get("skipped") or c["mode"] != "replay":
            continue
        if t["diverged"] == "drift":
            drift.append("case %d (%s): schedule could not be followed after %d of %d steps" % (
                i, c["src"], t["followed"], len(c["h"])))
            continue
        m = c["model"]
        if t["diverged"] == "" and m["terminal"] and t["followed"] == len(c["h"]):
            exact += 1
            files = {f["path"]: f["contents"] for f in t["files"]}
            want = {"f%d" % (j + 1): [("pp(c%d)" if m["withpp"] else "c%d") % (j + 1)]
                    for j in range(m["n"]) if m["files"][j] == 1}
            if t["ret"] != m["ret"] or (m["ret"] == "err" and t["got"] != m["got"]) or files != want:
                drift.append("case %d: model final state ret=%s got=%s files=%s, real ret=%s got=%s files=%s" % (
                    i, m["ret"], m["got"], sorted(want), t["ret"], t["got"], sorted(files)))
    if exact == 0:
        raise vlib.MachineryError("no complete behaviour could be followed exactly")
    pool = [i for i, (c, t) in enumerate(zip(allcases, allruns))
            if not t.get("skipped") and not t["hang"] and i in accepted and t["leaked"] == 0 and not t["fs"]
            and t["n"] <= 6
            and (c["mode"] != "replay" or t["diverged"] == "select" or not c["model"]["terminal"])]
    rng.shuffle(pool)
    pool = pool[:T["btrace"]]
    bacc = b_validate(ctx, [allruns[i] for i in pool], "b")
    for pos, i in enumerate(pool):
        if pos not in bacc:
            drift.append("case %d (%s): gate sequences d=%s w=%s are not a behaviour of Persist.tla" % (
                i, allcases[i]["src"], allruns[i]["d"], allruns[i]["w"]))
    ctx.extra_cov["impl_model"] = {"exactly_followed_complete_behaviours": exact,
                                   "prefixes_forced": sum(1 for c in allcases if c.get("src") == "cover"),
                                   "select_outcome_differed": sum(1 for t in allruns if t.get("diverged") == "select"),
                                   "gate_traces_validated_against_B": len(pool),
                                   "drift": len(drift)}
    if drift:
        vlib.log("WARNING implementation model drift (%d), e.g. %s" % (len(drift), drift[0][:600]))
        ctx.notes.append("implementation model drift (Persist.tla no longer describes OnFinished step for step; "
                         "verdicts are unaffected): %d case(s), e.g. %s" % (len(drift), drift[0][:600]))
        if os.environ.get("VERIF_STRICT_MODEL"):
            raise vlib.MachineryError("implementation model drift: " + "\n".join(drift[:5]))
    mid = allruns[len(allruns) // 3]
    if not mid.get("skipped"):
        ctx.sample({"case": {k: v for k, v in allcases[len(allruns) // 3].items() if k != "model"},
                    "run": {k: mid[k] for k in ("ev", "d", "w", "ret", "got", "files", "followed", "diverged")}})
    for i in (nrep, len(cases) - 1):
        if not allruns[i].get("skipped"):
            ctx.sample({"case": {k: v for k, v in allcases[i].items() if k != "model"},
                        "run": {k: allruns[i][k] for k in ("ev", "d", "w", "ret", "got", "files")}})
    ctx.exhaustive = False
    return ctx.finish(
        rule="model: exhaustive TLC check of Persist.tla (all n<=N, k<=K, all subsets of failing steps, all "
             "interleavings). real code: (a) one forced schedule prefix per reachable model state (state cover, "
             "hook grain), finished freely; (b) simulated complete behaviours forced step by step; (c) every "
             "(n, k, fault vector) under free random yields and under a serialized random scheduler. Every run "
             "validated by TLC against PersistSpec.tla. distinct class = (source, n, k, #pp faults, #write faults, "
             "return, early error return, select divergence)",
        assumptions=["distinct paths; post-processor present; a failing step returns an error (no panic)",
                     "a run that does not return within 8 s (20 s on re-execution) is taken as a deadlock",
                     "an error returned although no step failed is allowed by the abstract spec (statement is silent)"],
        trusted=["TLC", "harness/cmd/inproc/persist.go (gate/scheduler, fake post-processor and write callback, "
                        "mutex-ordered log)", "generator/persist_trace_verif.go (hook)"])
