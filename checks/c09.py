"""C09 — schema evolution: unknown fields are tolerated, and preserved when asked.

Spec: spec/Wire/Evolution.tla (families of old/new struct versions, the chain machine new->old->new on top of the
Wire reference codec, Rewrite = model of "re-write with unknown fields kept", design invariants OldReadsNew,
KeepRoundTrip, NoKeepLosesOnlyAdded) and spec/Wire/Trace_Evo.tla (validation of the recorded re-write).
Flow: TLC enumerates type shapes; Python builds one old and one new program holding a struct family per compatible edit
(field added at top level / in a nested struct used as field, list element and map value / member added to a union;
enum member added); TLC enumerates the values of each family and predicts old object, final object and the
carrying-unknown flag; three packages are generated (old, old+keep_unknown_fields, new) and the driver runs the chains
new->old->new and old->new->old across them; the recorded re-write traces are validated by TLC.
"""
import copy
import json

import c02
import c10
import genlab
import schema as schemalib
import universe
import vlib
from idl import F, T

LEVEL = "model_checking"

REGISTRY = dict(
    level="model_checking",
    text="Evolution is a TLA+ chain machine over the wire reference codec; TLC checks on the model that old readers accept "
         "new data, that keeping unknown fields round-trips exactly and that dropping them loses only the added field, "
         "generates every (edit, value) case with its predicted observations, and validates the recorded re-write trace of "
         "each executed chain (well-formed, no duplicated field, decodes under the new schema to the predicted value, "
         "carrying flag).",
    design_ref="DESIGN.md 6 C09",
    note="Trusted: apache TBinaryProtocol, harness pkg/drv + pkg/rec, TLC. One edit per family; type shapes to depth 1 (+ a few "
         "deeper unknown payloads); edits: add optional/default field at top level, in a nested struct, add union member, "
         "add enum member.",
    technique="TLA+ evolution chain machine + TLC-generated edits/values replayed across independently generated packages + "
              "TLC trace validation of the re-written encoding")

POS = ["top", "nested", "union"]


def deep_payloads():
    return [T("list", T("map", T("string"), T("list", T("In")))), T("map", T("i32"), T("set", T("list", T("i64")))),
            T("list", T("list", T("list", T("list", T("i32")))))]


def build_programs(shapes, reqs):
    """returns (old_prog, new_prog, families[{name, pos, req, type}])"""
    old_defs = [copy.deepcopy(universe.ENUM_E), copy.deepcopy(universe.STRUCT_IN)]
    new_defs = [copy.deepcopy(universe.ENUM_E), copy.deepcopy(universe.STRUCT_IN)]
    new_defs[0]["values"].append({"name": "D", "value": 9})      # AddEnumMember (every family sees it)
    fams = []
    k = [0]

    def family(pos, added_fields, req, t, label, empty_host=False):
        bn, inn, un = "B%d" % k[0], "I%d" % k[0], "U%d" % k[0]
        k[0] += 1

        def fam_defs(edit):
            ifs = [F(1, "default", T("i32"), "x"), F(2, "optional", T("string"), "y")]
            if empty_host:      # the old version of the nested struct declares no field at all
                ifs = []
            ufs = [F(1, "default", T("i32"), "p"), F(2, "default", T("string"), "q")]
            bfs = [F(1, "default", T("i32"), "a"), F(2, "optional", T("string"), "b"),
                   F(3, "default", T(inn), "n"), F(4, "default", T("list", T(inn)), "l"),
                   F(5, "optional", T(un), "u"), F(6, "default", T("E"), "e"),
                   F(7, "default", T("map", T("string"), T(inn)), "m")]
            if edit:
                {"top": bfs, "nested": ifs, "union": ufs}[pos].extend(copy.deepcopy(added_fields))
            return [{"k": "struct", "name": inn, "fields": ifs}, {"k": "union", "name": un, "fields": ufs},
                    {"k": "struct", "name": bn, "fields": bfs}]
        old_defs.extend(fam_defs(False))
        new_defs.extend(fam_defs(True))
        fams.append({"name": bn, "pos": pos, "req": req, "type": t, "label": label,
                     "host": {"top": bn, "nested": inn, "union": un}[pos]})

    for t in shapes:
        for req in reqs:
            for pos in POS:
                if pos == "union" and req == "optional":
                    continue   # union members have no requiredness of their own
                family(pos, [F(10, req if pos != "union" else "default", copy.deepcopy(t), "added")], req, t, "one")
        # the added field declares an IDL default: new code reading old data must produce it (also inside
        # list elements and map values)
        if t["n"] in universe.SCALAR_DEFAULTS:
            for req in reqs:
                for pos in ("top", "nested"):
                    family(pos, [F(10, req, copy.deepcopy(t), "added", universe.SCALAR_DEFAULTS[t["n"]])], req + "+default", t,
                           "one-default")
    # several fields added at once (a sequence of compatible edits); the string takes many lengths so that the
    # unknown-field store meets every buffer fill level
    lens = [{"a": "str:" + "x" * n} for n in list(range(0, 10)) + [15, 16, 17, 31, 33, 64]]
    for pos in ("top", "nested"):
        tag = F(10, "optional", T("string"), "added")
        tag["vals"] = lens
        family(pos, [tag, F(11, "optional", T("map", T("string"), T("i32")), "attrs"),
                     F(12, "optional", T("list", T("i64")), "nums"), F(13, "optional", T("In"), "sub")],
               "optional", T("string"), "multi")
        tag2 = F(11, "optional", T("string"), "added")
        tag2["vals"] = lens
        family(pos, [F(10, "default", T("map", T("i32"), T("string")), "first"), tag2,
                     F(12, "default", T("set", T("string")), "tags")], "optional", T("string"), "multi2")
    # a struct that declares nothing in the old version and gains its first fields in the new one
    family("nested", [F(10, "optional", T("string"), "added"), F(11, "default", T("i32"), "cnt")], "optional", T("string"),
           "empty-host", empty_host=True)
    family("nested", [F(10, "default", T("list", T("i32")), "added")], "default", T("list", T("i32")), "empty-host",
           empty_host=True)
    old = {"files": [{"path": "a.thrift", "namespaces": [{"lang": "go", "name": "evo"}], "defs": old_defs}]}
    new = {"files": [{"path": "a.thrift", "namespaces": [{"lang": "go", "name": "evo"}], "defs": new_defs}]}
    return old, new, fams


def merged_schema(sc_old, sc_new, fams):
    """one schema for TLC with both versions ('o:X' / 'n:X'), plus the families (forward and reversed)"""
    def ren(sc, pre):
        def ty(t):
            if t["n"] == "struct":
                return {"n": "struct", "s": pre + t["s"]}
            if t["n"] in ("list", "set"):
                return {"n": t["n"], "v": ty(t["v"])}
            if t["n"] == "map":
                return {"n": "map", "k": ty(t["k"]), "v": ty(t["v"])}
            return dict(t)
        return {pre + n: {"kind": st["kind"], "fields": [dict(f, type=ty(f["type"])) for f in st["fields"]]}
                for n, st in sc["structs"].items()}
    structs = {}
    structs.update(ren(sc_old, "o:"))
    structs.update(ren(sc_new, "n:"))
    # the E enum differs between versions (member added) but enums only matter for the value universe: use the new one
    merged = {"structs": structs, "enums": sc_new["enums"]}
    tsc, sidx = schemalib.to_tla(merged)
    families = []
    for f in fams:
        families.append({"o": sidx["o:" + f["name"]], "n": sidx["n:" + f["name"]], "host": sidx["n:" + f["host"]],
                         "fname": "added"})
    nf = len(families)
    for f in fams:   # reversed: old data, new reader
        families.append({"o": sidx["n:" + f["name"]], "n": sidx["o:" + f["name"]], "host": 0, "fname": ""})
    tsc["families"] = families
    return tsc, sidx, nf


def run(ctx, args):
    thorough = ctx.tier == "thorough"
    shapes = universe.enumerate_shapes(ctx, 1)
    if not thorough:
        step = 2
        shapes = shapes[(ctx.seed % step)::step]
    shapes = shapes + deep_payloads()
    old, new, fams = build_programs(shapes, ["optional", "default"])
    # cap the value domains of the family's own fields: the added field carries the variety
    for prog in (old, new):
        for d in prog["files"][0]["defs"]:
            if d["k"] in ("struct", "union") and d["name"][0] in "BIU" and d["name"] != "In":
                for fl in d["fields"]:
                    if fl["name"] not in ("added", "attrs", "nums", "sub", "first", "tags"):
                        fl["w"] = 1
    sc_old, sc_new = schemalib.schema_of(old), schemalib.schema_of(new)
    tsc, sidx, nfwd = merged_schema(sc_old, sc_new, fams)
    cfg = ("INIT EvoInit\nNEXT EvoNext\nCONSTANTS\n  SetDups = FALSE\n  MaxVals = 6\n  Depth = 2\n  ReadVals = 1\n"
           "  Breadth = \"narrow\"\nINVARIANTS OldReadsNew KeepRoundTrip NoKeepLosesOnlyAdded EvoEmit\nCHECK_DEADLOCK FALSE\n")
    sc_json = json.dumps(tsc)
    sc_json_bin = json.dumps(c10.strbin(tsc))   # for the lexed re-writes: strings and binaries are one thing on the wire
    r = ctx.tlc("Wire", "Evolution", "gen.cfg", files={"gen.cfg": cfg, "schema.json": sc_json}, timeout=3000,
                label="Evolution")
    cases = ctx.tlc_cases(r)
    fwd = [c for c in cases if c["fam"] <= nfwd]
    rev = [c for c in cases if c["fam"] > nfwd]
    if not any(c["carry"] for c in fwd) or not any(not c["carry"] for c in fwd):
        raise vlib.MachineryError("vacuous: carrying flag never/always expected")
    vlib.log("universe: %d families (x2 directions), %d forward cases, %d reverse cases" % (nfwd, len(fwd), len(rev)))
    lab = genlab.Lab(ctx, "lab-evo")
    lab.add_case("old", old, [])
    lab.add_case("oldk", old, ["keep_unknown_fields"])
    lab.add_case("new", new, [])
    lab.add_case("newk", new, ["keep_unknown_fields"])
    lab.generate()
    regs = []
    for cid in ("old", "oldk", "new", "newk"):
        c = lab.cases[cid]
        if c.rc != 0:
            raise vlib.MachineryError("thriftgo failed on %s: %s" % (cid, c.stderr[-2000:]))
        regs += genlab.struct_regs(c)
    lab.write_driver(regs)
    ok, out, binary = lab.build()
    if not ok:
        ctx.violation({"check": "C09.compile"}, {}, out[-4000:], "compiles", "generated code does not compile")
        return ctx.finish("compile failure")
    scen, meta = [], []
    for k, c in enumerate(cases):
        forward = c["fam"] <= nfwd
        fam = fams[(c["fam"] - 1) % nfwd]
        for keep in (False, True):
            if forward:
                wcase, rcase = "new", ("oldk" if keep else "old")
            else:
                wcase, rcase = "old", ("newk" if keep else "new")
            scen.append({"id": len(scen), "op": "evo", "case": wcase, "s": fam["name"], "v": c["v"],
                         "x": {"old_case": rcase}})
            meta.append((k, keep, forward))
    schemas = {"old": sc_old, "oldk": sc_old, "new": sc_new, "newk": sc_new}
    res = lab.run_driver(binary, schemas, scen, "evo", timeout=1500)
    rows, ridx = [], []
    for i, (r, (k, keep, forward)) in enumerate(zip(res, meta)):
        c = cases[k]
        fam = fams[(c["fam"] - 1) % nfwd]
        cls = "%s %s %s %s keep=%s" % ("fwd" if forward else "rev", fam["pos"], fam["req"],
                                       c02.type_sig(schemalib.Resolver(new).stype("a.thrift", fam["type"])), keep)
        ctx.count(1, cls)
        x = r.get("x") or {}
        case = {"family": fam["name"], "edit": {"pos": fam["pos"], "req": fam["req"],
                                                "type": c02.type_sig(schemalib.Resolver(new).stype("a.thrift", fam["type"]))},
                "direction": "new->old->new" if forward else "old->new->old", "keep_unknown_fields": keep, "v": c["v"]}
        what = None
        errs = {e: x[e] for e in x if e.startswith("err_")}
        wsc, rsc = (sc_new, sc_old) if forward else (sc_old, sc_new)
        st = {"n": "struct", "s": fam["name"]}
        if r.get("panic"):
            what = "panic"
        elif errs and not (set(errs) <= {"err_write_old", "err_read_new"} and not keep and not c["old_writable"]):
            what = "error"
        elif errs:
            # without keep_unknown_fields the statement only promises that the old code READS the data; an old object
            # that the old schema itself cannot write (a union whose only member was the unknown one) ends the chain
            ctx.count(1, cls + " (old object not writable: chain ends after the read)")
            if c02.norm(rsc, st, x.get("old_v")) != c02.norm(rsc, st, c["old_obj"]):
                ctx.violation({"check": "C09.chain", "kind": "intermediate-object", "pos": fam["pos"], "keep": keep,
                               "direction": "fwd" if forward else "rev"}, case, {"x": x}, {"old_obj": c["old_obj"]},
                              "evolution chain deviates: intermediate-object")
            continue
        elif x.get("lexerr"):
            what = "rewrite-not-an-encoding"
        elif x.get("unread"):
            what = "unread-bytes"
        elif c02.norm(rsc, st, x.get("old_v")) != c02.norm(rsc, st, strip(c["old_obj"])):
            what = "intermediate-object"
        else:
            expf = c["final_keep"] if keep else c["final_nokeep"]
            if c02.norm(wsc, st, x.get("final_v")) != c02.norm(wsc, st, expf):
                what = "final-object"
        if what:
            ctx.violation({"check": "C09.chain", "kind": what, "pos": fam["pos"], "keep": keep,
                           "direction": "fwd" if forward else "rev"}, case,
                          {"x": {a: b for a, b in x.items()}, "panic": r.get("panic")},
                          {"old_obj": c["old_obj"], "final": c["final_keep"] if keep else c["final_nokeep"]},
                          "evolution chain deviates: " + what)
            continue
        rows.append({"fam": c["fam"], "v": c10.strbin(c["v"]), "keep": keep, "toks": r.get("toks") or [],
                     "carry": x.get("carry", "na")})
        ridx.append(i)
    # TLC validation of the re-written encodings
    accepted = set()
    CH = 20000
    for off in range(0, len(rows), CH):
        tf = ctx.path("evotraces-%d.ndjson" % off)
        vlib.write_ndjson(tf, rows[off:off + CH])
        rr = ctx.tlc("Wire", "Trace_Evo", "Trace_Evo", files={"traces.ndjson": tf, "schema.json": sc_json_bin}, timeout=3000,
                     label="Trace_Evo[%d]" % off)
        for s in rr["lines"]:
            if s.startswith("ACC "):
                accepted.add(off + int(s[4:]) - 1)
    ctx.traces_validated += len(rows)
    for j in [j for j in range(len(rows)) if j not in accepted][:200]:
        i = ridx[j]
        k, keep, forward = meta[i]
        c = cases[k]
        fam = fams[(c["fam"] - 1) % nfwd]
        ctx.violation({"check": "C09.rewrite", "kind": "trace-rejected", "pos": fam["pos"], "keep": keep,
                       "direction": "fwd" if forward else "rev"},
                      {"family": fam["name"], "edit": {"pos": fam["pos"], "req": fam["req"]}, "keep_unknown_fields": keep,
                       "v": c["v"]},
                      {"toks": rows[j]["toks"], "carry": rows[j]["carry"]},
                      {"expected_carry": c["carry"], "final": c["final_keep"] if keep else c["final_nokeep"]},
                      "re-written encoding rejected by the evolution spec")
    if rows:
        ctx.sample({"chain": rows[len(rows) // 2]})
    return ctx.finish(
        rule="families = TLC-enumerated type shapes (every 2nd in quick, seed-rotated; all in thorough) + 3 deep payloads x "
             "{optional, default} x {top-level field, nested-struct field (as field, list element, map value), union member}; "
             "values = the rich value with every value of the added field; both directions; with and without "
             "keep_unknown_fields; distinct class = (direction, edit position, requiredness, added type, keep)",
        assumptions=["one compatible edit per family (plus the enum member every family sees)",
                     "nil and empty containers are the same abstract value on the read side"],
        trusted=["apache/thrift TBinaryProtocol", "harness pkg/drv, pkg/rec", "TLC"])


def strip(v):
    return v
