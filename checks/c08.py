"""C08 — generated client and processor carry a call end to end.

Spec: spec/Rpc/Rpc.tla (Client and Server processes over two FIFO message channels; the synthesised <fn>_args /
<fn>_result are struct-likes of spec/Wire/Wire.tla), RpcGen.tla (bounded universe: TLC explores every call sequence x
argument values x handler outcome x server lag, checks the invariants of the property and emits every quiescent
history), Trace_Rpc.tla (validation of a recorded connection), RpcShapes.tla (method shapes).
Flow: TLC enumerates method shapes -> lib/c08_model.py builds the service universe (five services over three files,
awkward names) -> thriftgo (built from /repo) generates code -> the typed half of the driver (handlers implementing the
generated interfaces, client stubs) is generated from the *generated* Go interfaces -> harness/pkg/c08rpc wires generated
Client <-> bytes in memory <-> generated Processor with recording protocols on all four protocol ends and replays every
TLC case -> TLC validates each connection's event list against Trace_Rpc; caller-visible results and handler-visible
arguments are also compared with the specification's predictions.
"""
import json
import os
import random

import c02
import c08_model as M
import genlab
import vlib

LEVEL = "model_checking"
WIRE = os.path.join(vlib.VERIF, "spec", "Wire", "Wire.tla")

REGISTRY = dict(
    level="model_checking",
    text="The RPC exchange is an explicit TLA+ machine (client, server, two FIFO channels of wire tokens; dispatch table with "
         "inheritance; handler outcomes value / void / declared exception / other error; oneway). TLC checks the property's "
         "invariants exhaustively over bounded call sequences and generates every case; each case is replayed through the "
         "generated Client and Processor over an in-memory connection with recording protocols on all four ends, and TLC "
         "validates the recorded connection step by step (message headers, order-free trees of written structs, reference "
         "reader on read structs, handler arguments, caller-visible result, silence after oneway).",
    design_ref="DESIGN.md 6 C08",
    note="Trusted: apache/thrift v0.13.0 TStandardClient (client-side sequence ids and header checks), TBinaryProtocol, "
         "TMemoryBuffer; harness recorder/driver (pkg/rec, pkg/drv, pkg/c08rpc); TLC. Bounded: 52 method shapes (result kind x "
         "0..3 arguments x 0..2 throws) in five services over three files, <= 12 argument tuples and <= 4 results per method, "
         "call sequences of length <= 3 over method mixes. Compile failures of generated code are C01 observations, logged only.",
    technique="TLA+ RPC machine; TLC-generated call sequences and outcomes; TLC trace validation of recorded four-ended "
              "connections; spec-predicted results compared with the caller's view")

OPTION_SETS = {
    "quick": [[]],
    "thorough": [[], ["naming_style=golint"], ["naming_style=apache"], ["compatible_names"], ["nil_safe", "gen_setter"],
                 ["keep_unknown_fields"], ["reorder_fields"], ["with_reflection"], ["enum_as_int_32", "typed_enum_string"],
                 ["value_type_in_container"]],
}


# ----------------------------------------------------------------------------------------------
def enumerate_shapes(ctx):
    r = ctx.tlc("Rpc", "RpcShapes", "RpcShapes", label="RpcShapes")
    shapes = ctx.tlc_cases(r)
    order = {"void": 0, "oneway": 1, "scalar": 2, "struct": 3, "container": 4}
    shapes.sort(key=lambda s: (s["nt"], s["na"], order[s["ret"]]))
    if len(shapes) != 52:
        raise vlib.MachineryError("RpcShapes: expected 52 method shapes, got %d" % len(shapes))
    return shapes


def method_kind(m):
    return ("oneway" if m["oneway"] else "void" if m["void"] else
            "value:" + ("struct" if m["ret"]["n"] == "struct" else "container" if m["ret"]["n"] in ("list", "set", "map")
                        else "scalar"))


def make_plans(svcs, vidx, tier, seed):
    """single-call plans over whole dispatch tables (all values) + sequence plans over method mixes (one value)."""
    plans = []
    meta = []
    for s in svcs:
        tab = M.table(svcs, s["name"])
        refs = [[vidx[ds["name"]], ds["methods"].index(m) + 1] for ds, m in tab]
        plans.append({"svc": vidx[s["name"]], "methods": refs, "max": 1, "vals": 0, "raw": True, "rawknown": True})
        meta.append({"kind": "single", "svc": s["name"]})
    rnd = random.Random(seed)
    for tname in ("Svc", "Derived"):
        tab = M.table(svcs, tname)
        ch = M.chain(svcs, tname)

        def pick(pred, j):
            c = [(ds, m) for ds, m in tab if pred(ds, m)]
            return c[j % len(c)] if c else None
        nmix = 1 if tier == "quick" else 2
        base = rnd.randrange(1000)
        for j in range(nmix):
            jj = base + j
            mix = [pick(lambda ds, m: ds is ch[0] and m["oneway"], jj),
                   pick(lambda ds, m: ds is ch[0] and m["void"] and not m["oneway"], jj),
                   pick(lambda ds, m: ds is ch[0] and not m["void"] and len(m["throws"]) == 2, jj),
                   pick(lambda ds, m: ds is ch[-1] and not m["oneway"], jj),
                   pick(lambda ds, m: ds is not ch[0] and (m["oneway"] if j % 2 else len(m["throws"]) > 0), jj)]
            if tier == "quick":
                mix = mix[:4]
            mix = [x for x in mix if x]
            seen = []
            for x in mix:
                if x not in seen:
                    seen.append(x)
            refs = [[vidx[ds["name"]], ds["methods"].index(m) + 1] for ds, m in seen]
            plans.append({"svc": vidx[tname], "methods": refs, "max": 3, "vals": 1, "raw": True, "rawknown": False})
            meta.append({"kind": "seq", "svc": tname, "mix": [m["name"] for _, m in seen]})
    return plans, meta


def gen_cases(ctx, tsc, tsvcs, plans, label):
    r = ctx.tlc("Rpc", "MC_RpcGen", "MC_RpcGen",
                files={"schema.json": json.dumps(tsc), "services.json": json.dumps(tsvcs), "plans.json": json.dumps(plans),
                       "Wire.tla": WIRE},
                timeout=3000, label=label)
    return ctx.tlc_cases(r)


# ----------------------------------------------------------------------------------------------
def split_msg(toks):
    if not toks:
        return {"t": "NONE"}, [], False
    end = len(toks) >= 2 and toks[-1].get("t") == "MSGE"
    return toks[0], (toks[1:-1] if end else toks[1:]), end


def to_trace(events, svcs, vidx, tname):
    """driver event list -> events of Trace_Rpc (indexes instead of names, messages split into header/body/end)"""
    by = {s["name"]: s for s in svcs}
    tab = M.table(svcs, tname)

    def ref(ds, mname):
        s = by.get(ds)
        if s:
            for i, m in enumerate(s["methods"]):
                if m["name"] == mname:
                    return [vidx[ds], i + 1]
        return [0, 0]
    out = []
    call = None
    for e in events:
        k = e["e"]
        if k == "call":
            call = e
        elif k == "cw":
            hdr, body, end = split_msg(e["toks"])
            r = [0, 0]
            if call:
                for ds, m in tab:
                    if m["name"] == call["m"]:
                        r = [vidx[ds["name"]], ds["methods"].index(m) + 1]
                        break
            out.append({"e": "cw", "r": r, "a": call["a"] if call else {"s": {}}, "hdr": hdr, "body": body, "end": end})
            call = None
        elif k == "raw":
            hdr, body, end = split_msg(e["toks"])
            out.append({"e": "raw", "hdr": hdr, "body": body})
        elif k == "sr":
            hdr, body, end = split_msg(e["toks"])
            out.append({"e": "srh", "hdr": hdr})
            out.append({"e": "sra", "body": body, "end": end})
        elif k == "h":
            if e.get("bad"):
                out.append({"e": "bad", "what": e["bad"]})
            out.append({"e": "h", "r": ref(e["ds"], e["m"]), "seen": e["seen"], "out": e["out"]})
        elif k == "sw":
            hdr, body, end = split_msg(e["toks"])
            out.append({"e": "sw", "hdr": hdr, "body": body, "end": end})
        elif k == "ret":
            hdr, body, end = split_msg(e.get("toks") or [])
            if e.get("bad"):
                out.append({"e": "bad", "what": e["bad"]})
            out.append({"e": "ret", "k": e["k"], "none": not e.get("toks"), "hdr": hdr, "body": body, "end": end,
                        "res": e["res"]})
        elif k == "p":
            if e.get("panic"):
                out.append({"e": "bad", "what": "panic in Process: " + e["panic"][:300]})
            out.append({"e": "pe"})
        elif k == "end":
            out.append({"e": "end", "c2s": e["c2s"], "s2c": e["s2c"]})
        else:
            out.append({"e": "bad", "what": e.get("what", k)})
    return out


def validate_traces(ctx, tsc, tsvcs, rows, label):
    accepted = set()
    CH = 8000
    files = {"schema.json": json.dumps(tsc), "services.json": json.dumps(tsvcs), "Wire.tla": WIRE}
    for off in range(0, len(rows), CH):
        tf = ctx.path("rtraces-%s-%d.ndjson" % (label, off))
        vlib.write_ndjson(tf, rows[off:off + CH])
        r = ctx.tlc("Rpc", "Trace_Rpc", "Trace_Rpc", files=dict(files, **{"traces.ndjson": tf}), timeout=3000,
                    label="Trace_Rpc[%s+%d]" % (label, off))
        for s in r["lines"]:
            if s.startswith("ACC "):
                accepted.add(off + int(s[4:]) - 1)
        os.remove(tf)
    ctx.traces_validated += len(rows)
    rejected = [i for i in range(len(rows)) if i not in accepted]
    reach = {}
    if rejected:
        sub = rejected[:40]
        tf = ctx.path("rdiag-%s.ndjson" % label)
        vlib.write_ndjson(tf, [rows[i] for i in sub])
        r = ctx.tlc("Rpc", "Trace_Rpc", "Trace_Rpc_diag", files=dict(files, **{"traces.ndjson": tf}), timeout=600, workers=1,
                    label="Trace_Rpc_diag[%s]" % label)
        for s in r["lines"]:
            if s.startswith("AT "):
                _, t, l = s.split()
                i = sub[int(t) - 1]
                reach[i] = max(reach.get(i, 0), int(l))
    return rejected, reach


def res_equal(sc, m, obs, exp):
    """caller-visible result vs the specification's prediction"""
    if obs.get("k") != exp.get("k"):
        return False
    k = exp["k"]
    if k == "val":
        return c02.norm(sc, m["ret"], obs.get("v")) == c02.norm(sc, m["ret"], exp["v"])
    if k == "exc":
        if obs.get("i") != exp["i"]:
            return False
        t = {"n": "struct", "s": m["throws"][exp["i"] - 1]["s"]}
        return c02.norm(sc, t, obs.get("v")) == c02.norm(sc, t, exp["v"])
    return True   # void / none / app (the statement does not fix the application exception's type id)


# ----------------------------------------------------------------------------------------------
class Universe:
    pass


def build_universe(ctx):
    u = Universe()
    u.shapes = enumerate_shapes(ctx)
    u.prog = M.main_program(u.shapes)
    u.sc, u.svcs = M.rpc_schema(u.prog)
    u.tsc, u.tsvcs, u.sidx, u.vidx = M.to_tla(u.sc, u.svcs)
    # vacuity: the universe has what the quantifier names
    allm = [m for s in u.svcs for m in s["methods"]]
    need = {
        "oneway": any(m["oneway"] for m in allm),
        "void": any(m["void"] and not m["oneway"] for m in allm),
        "value scalar/struct/container": {method_kind(m) for m in allm} >= {"value:scalar", "value:struct", "value:container"},
        "0..3 arguments": {len(m["argl"]) for m in allm} >= {0, 1, 2, 3},
        "0..2 throws": {len(m["throws"]) for m in allm} >= {0, 1, 2},
        "two levels of included base services": len(M.chain(u.svcs, "Svc")) == 3 and
        len({s["file"] for s in M.chain(u.svcs, "Svc")}) == 3,
        "local base service": len({s["file"] for s in M.chain(u.svcs, "Derived")}) == 1,
        "awkward names": {"p", "err", "ctx", "r", "_result", "success", "type", "range"} <=
        ({a["name"] for m in allm for a in m["argl"]} | {m["name"] for m in allm}),
    }
    fns = [fn for _, d in M.services_of(u.prog) for fn in d["functions"]]
    u.req_throws = {fn["name"] for fn in fns if any(t.get("req") == "required" for t in fn.get("throws") or [])}
    need["throws written required and optional"] = bool(u.req_throws) and any(
        t.get("req") == "optional" for fn in fns for t in fn.get("throws") or [])
    need["arguments written optional and required"] = {"optional", "required"} <= {a.get("req") for fn in fns for a in fn["args"]}
    by = {s["name"]: s for s in u.svcs}
    need["derived service whose included base shares its bare name with an unrelated local service"] = any(
        s["base"] and by[s["base"]]["file"] != s["file"] and
        any(o["idl"] == by[s["base"]]["idl"] and o["file"] == s["file"] for o in u.svcs) for s in u.svcs)
    missing = [k for k, v in need.items() if not v]
    if missing:
        raise vlib.MachineryError("vacuous universe: missing " + ", ".join(missing))
    return u


def run_lab(ctx, u, cases, plan_meta, opts_list, tag):
    lab = genlab.Lab(ctx, "lab-" + tag)
    cids = []
    for k, opts in enumerate(opts_list):
        cid = "p%d" % k
        lab.add_case(cid, u.prog, opts)
        cids.append(cid)
    probes = M.probe_programs() if tag == "main" else {}
    for name, pr in probes.items():
        lab.add_case(name, pr["prog"], [])
    lab.generate()
    gg = M.GoGen()
    regs = []
    usable = []
    tested = [s["name"] for s in u.svcs]
    for cid in cids:
        c = lab.cases[cid]
        if c.rc != 0:
            raise vlib.MachineryError("thriftgo failed on the service universe (%s): %s" % (" ".join(c.cmd), c.stderr[-2000:]))
    # which cases compile at all (generated code only): a failure is a C01 observation
    ok_all, out = lab.build_all()
    failing = set()
    if not ok_all:
        for ln in out.splitlines():
            if ln.startswith("g/") or ln.startswith("# labmod/g/"):
                failing.add(ln.split("/")[2 if ln.startswith("# ") else 1])
        if not failing:
            raise vlib.MachineryError("generated code does not build and the failing case cannot be identified:\n" + out[-3000:])
    for cid in cids:
        if cid in failing:
            ctx.violation({"check": "C08.compile", "opts": " ".join(lab.cases[cid].opts)}, {"case": cid, "opts": lab.cases[cid].opts},
                          [ln for ln in out.splitlines() if "/%s/" % cid in ln][:20],
                          "generated services compile", "generated code of the service universe does not compile (see C01)")
            continue
        if gg.add_case(lab, lab.cases[cid], u.sc, u.svcs, tested):
            regs += genlab.struct_regs(lab.cases[cid])
            usable.append(cid)
    for cid, what in gg.problems:
        ctx.violation({"check": "C08.iface", "what": what.split(":")[0][:60]}, {"case": cid}, what,
                      "every service has a Go interface a handler can implement, with one method per IDL function",
                      "generated service interface cannot be driven: " + what)
    for name, pr in probes.items():
        c = lab.cases[name]
        obs = None
        if c.rc != 0:
            obs = "thriftgo fails (exit %d): %s" % (c.rc, (c.stderr.strip().splitlines() or [""])[0][:300])
        elif name in failing:
            obs = "generated code does not compile: " + "; ".join(
                ln.strip() for ln in out.splitlines() if ln.startswith("g/%s/" % name))[:400]
        else:
            try:
                psc, psvcs = M.rpc_schema(pr["prog"])
                g2 = M.GoGen()
                if not g2.add_case(lab, c, psc, psvcs, [s["name"] for s in psvcs]):
                    obs = g2.problems[0][1]
            except ValueError as ex:
                # a probe the model cannot express (e.g. an identifier-valued argument default): it generates
                # and compiles now; it stays an observation
                obs = None
                ctx.notes.append("probe %s compiles; not driven (%s)" % (name, ex))
        u.probe_obs[name] = obs
        if obs:
            ctx.notes.append("observation outside C08 (C01/C04 business, not judged here): %s -> %s" % (pr["what"], obs))
            vlib.log("probe %s (%s): %s" % (name, pr["what"], obs))
        else:
            vlib.log("probe %s (%s): compiles" % (name, pr["what"]))
    if not usable:
        return
    imports, code = gg.render()
    lab.write_driver(regs, extra_imports=imports, extra_code=code)
    ok, bout, binary = lab.build()
    if not ok:
        # the generated packages build on their own: this is the driver's typed half not fitting the generated API
        raise vlib.MachineryError("driver build failed:\n" + bout[-4000:])
    scen = []
    meta = []
    for cid in usable:
        for ci, tc in enumerate(cases):
            calls = []
            for c in tc["calls"]:
                if "raw" in c:
                    rc = {"raw": c["raw"], "seq": c["seq"], "mt": c["mt"], "body": c["body"]}
                    if c["out"].get("k") in ("val", "void", "exc", "other"):
                        rc["out"] = c["out"]     # a known method: the handler runs
                    calls.append(rc)
                else:
                    calls.append({"m": c["m"], "args": c["args"], "out": c["out"], "lag": c["lag"]})
            scen.append({"id": len(scen), "op": "rpc", "case": cid, "s": "X2", "x": {"svc": tc["svc"], "calls": calls}})
            meta.append((cid, ci))
    res = lab.run_driver(binary, {cid: u.sc for cid in usable}, scen, tag)
    rows = []
    opts_of = {cid: lab.cases[cid].opts for cid in usable}
    for r, (cid, ci) in zip(res, meta):
        tc = cases[ci]
        x = r.get("x") or {}
        events = x.get("events") or []
        rows.append({"svc": u.vidx[tc["svc"]], "ev": to_trace(events, u.svcs, u.vidx, tc["svc"])})
    rejected, reach = validate_traces(ctx, u.tsc, u.tsvcs, rows, tag)
    rej = set(rejected)
    for i, (r, (cid, ci)) in enumerate(zip(res, meta)):
        tc = cases[ci]
        x = r.get("x") or {}
        events = x.get("events") or []
        pm = plan_meta[tc["plan"] - 1]
        tab = {m["name"]: (ds, m) for ds, m in reversed(M.table(u.svcs, tc["svc"]))}
        depth_of = {s["name"]: d for d, s in enumerate(M.chain(u.svcs, tc["svc"]))}
        rets = {e["k"]: e for e in events if e["e"] == "ret"}
        hs = [e for e in events if e["e"] == "h"]
        what = None
        detail = None
        shape = []
        hi = 0
        for k, c in enumerate(tc["calls"], 1):
            if "raw" in c:
                obs = (rets.get(k) or {}).get("res") or {}
                if obs.get("k") != c["exp"]["k"] and not what:
                    what, detail = "result", {"call": k, "observed": obs, "expected": c["exp"]}
                if not c["known"]:
                    shape.append("raw-unknown")
                    continue
                ds, m = tab[c["raw"]]
                pert = ("dropreq" if c["out"]["k"] == "argerr" else
                        "unk" if any(t.get("id") == 99 for t in c["body"]) else "rev")
                shape.append("raw-%s %s a%d t%d inh%d %s" % (pert, method_kind(m), len(m["argl"]), len(m["throws"]),
                                                             depth_of[ds["name"]], c["out"]["k"]))
                if c["out"]["k"] == "argerr":
                    continue
                if hi < len(hs):
                    h = hs[hi]
                    hi += 1
                    t = {"n": "struct", "s": m["args"]}
                    if (h["ds"], h["m"]) != (ds["name"], m["name"]) and not what:
                        what, detail = "dispatch", {"call": k, "method": c["raw"], "handler": [h["ds"], h["m"]]}
                    elif c02.norm(u.sc, t, h["seen"]) != c02.norm(u.sc, t, c["seen"]) and not what:
                        what, detail = "arguments", {"call": k, "method": c["raw"], "observed": h["seen"], "expected": c["seen"]}
                elif not what:
                    what, detail = "handler-not-invoked", {"call": k, "method": c["raw"]}
                continue
            ds, m = tab[c["m"]]
            shape.append("%s a%d t%d inh%d %s%s" % (method_kind(m), len(m["argl"]), len(m["throws"]), depth_of[ds["name"]],
                                                     c["out"]["k"] + (":" + c["out"]["var"] if "var" in c["out"] else "")
                                                     + ("+val" if "also" in c["out"] else ""),
                                                     " lag" if c["lag"] else ""))
            obs = (rets.get(k) or {}).get("res") or {}
            if not res_equal(u.sc, m, obs, c["exp"]) and not what:
                what, detail = "result", {"call": k, "method": c["m"], "observed": obs, "expected": c["exp"]}
            # the handler's view: requests are handled in order, so the hi-th handler event belongs to this call
            if hi < len(hs):
                h = hs[hi]
                hi += 1
                t = {"n": "struct", "s": m["args"]}
                if (h["ds"], h["m"]) != (ds["name"], m["name"]) and not what:
                    what, detail = "dispatch", {"call": k, "method": c["m"], "handler": [h["ds"], h["m"]]}
                elif c02.norm(u.sc, t, h["seen"]) != c02.norm(u.sc, t, c["seen"]) and not what:
                    what, detail = "arguments", {"call": k, "method": c["m"], "observed": h["seen"], "expected": c["seen"]}
            elif not what:
                what, detail = "handler-not-invoked", {"call": k, "method": c["m"]}
        if hi != len(hs) and not what:
            what, detail = "extra-handler-invocation", {"handlers": [[h["ds"], h["m"]] for h in hs]}
        if not x.get("bytes_ok", False) and not what:
            what, detail = "bytes", {"notes": x.get("notes")}
        # a reply / exception message "arrives" only if the processor flushes its output protocol after writing it: on a
        # transport that buffers until Flush an unflushed message stays in the server
        unfl = [n for n, e in enumerate(events) if e["e"] == "sw" and e.get("flushed") is False]
        if unfl and not what:
            what, detail = "reply-not-flushed", {"event_index": unfl[0], "call": max(1, min(len(shape), sum(
                1 for e in events[:unfl[0]] if e["e"] == "sr")))}
        if i in rej and not what:
            at = reach.get(i)
            tr = rows[i]["ev"]
            nxt = tr[at - 1] if at and at - 1 < len(tr) else None
            # the request the connection was busy with when the trace left the specification
            kreq = sum(1 for e in tr[:at or 0] if e["e"] in ("cw", "raw"))
            if nxt and nxt["e"] in ("srh", "sra", "h", "sw", "pe"):
                kreq = sum(1 for e in tr[:at or 0] if e["e"] == "srh") + (0 if nxt["e"] != "srh" else 1)
            what, detail = "trace-rejected", {"matched_events": (at - 1) if at else None, "next_event": nxt,
                                              "call": max(1, min(kreq, len(shape))) if at else None,
                                              "event": nxt["e"] if nxt else None}
        if pm["kind"] == "single":
            cls = "single | " + shape[0]
        else:
            # sequences: per call the result kind, inheritance depth, outcome and lag (argument/throws counts are
            # covered by the single-call classes)
            short = []
            for sh in shape:
                w = sh.split()
                short.append(sh if w[0].startswith("raw") else " ".join([w[0]] + w[3:]))
            cls = "seq | " + " ; ".join(short)
        ctx.count(1, cls)
        if what:
            first = shape[detail.get("call", 1) - 1] if isinstance(detail, dict) and detail.get("call") else shape[0]
            cls_v = {"check": "C08.rpc", "kind": what, "shape": first.replace(" lag", "")}
            if what == "trace-rejected" and detail.get("event"):
                cls_v["event"] = detail["event"]
            ctx.violation(cls_v,
                          {"case": cid, "opts": opts_of[cid], "svc": tc["svc"], "calls": tc["calls"], "plan": tc["plan"],
                           "plan_kind": pm["kind"]},
                          {"detail": detail, "events": events, "trace_accepted": i not in rej},
                          {"calls": [c.get("exp") for c in tc["calls"]]},
                          "generated client/processor deviate from the Rpc specification: " + what)
    if rows:
        ctx.sample({"connection": {"svc": cases[meta[len(rows) // 3][1]]["svc"], "events": rows[len(rows) // 3]["ev"]}})


def _stratified(rnd, items, keyfn, budget):
    strata = {}
    for c in items:
        strata.setdefault(keyfn(c), []).append(c)
    keys = sorted(strata)
    per = max(1, budget // max(1, len(keys)))
    out = []
    for k in keys:
        v = strata[k]
        out += v if len(v) <= per else rnd.sample(v, per)
    return out


def sample_cases(ctx, cases, plan_meta, budget_single, budget_seq):
    """seed-stratified samples: single calls by (service, method, outcome), sequences by (plan, length, first and
    last method); every stratum stays represented"""
    single = [c for c in cases if plan_meta[c["plan"] - 1]["kind"] == "single"]
    seqs = [c for c in cases if plan_meta[c["plan"] - 1]["kind"] == "seq"]
    rnd = random.Random(ctx.seed)
    if len(single) > budget_single:
        def k1(c):
            x = c["calls"][0]
            o = x.get("out", {})
            pert = ("unk" if any(t.get("id") == 99 for t in x["body"]) else "rev") if "raw" in x else ""
            return (c["plan"], x.get("m") or "raw:" + x["raw"], pert, o.get("k", ""), o.get("var", ""), o.get("i", 0), "also" in o)
        single = _stratified(rnd, single, k1, budget_single)
    if len(seqs) > budget_seq:
        seqs = _stratified(rnd, seqs, lambda c: (c["plan"], len(c["calls"]), c["calls"][0].get("m", "raw"),
                                                  c["calls"][-1].get("m", "raw"), any(x.get("lag") for x in c["calls"])),
                           budget_seq)
    return single + seqs


def run(ctx, args):
    if args.replay:
        return replay(ctx, args.replay)
    thorough = ctx.tier == "thorough"
    u = build_universe(ctx)
    u.probe_obs = {}
    plans, plan_meta = make_plans(u.svcs, u.vidx, ctx.tier, ctx.seed)
    cache = os.environ.get("C08_CASE_CACHE")   # development aid only: reuse the TLC cases of an earlier run (same tier/seed)
    if cache and os.path.exists(cache):
        cases = json.load(open(cache))
        vlib.log("DEV: %d TLC cases loaded from %s" % (len(cases), cache))
    else:
        cases = gen_cases(ctx, u.tsc, u.tsvcs, plans, "RpcGen")
        if cache:
            json.dump(cases, open(cache, "w"))
    # dedupe (the same history can be reached through different interleavings only if it differs in `lag`)
    seen = set()
    uniq = []
    for c in cases:
        key = json.dumps(c, sort_keys=True)
        if key not in seen:
            seen.add(key)
            uniq.append(c)
    cases = uniq
    cases.sort(key=lambda c: json.dumps(c, sort_keys=True))
    # vacuity of the generated universe
    flat = [(c, x) for c in cases for x in c["calls"]]
    need = {
        "a declared exception": any(x.get("out", {}).get("k") == "exc" for _, x in flat),
        "exception together with a result": any("also" in x.get("out", {}) for _, x in flat),
        "another error": any(x.get("out", {}).get("k") == "other" for _, x in flat),
        "an undeclared exception type": any(x.get("out", {}).get("var") == "undeclared" for _, x in flat),
        "unknown method": any("raw" in x and not x["known"] for _, x in flat),
        "known method with reordered arguments, as raw bytes": any("raw" in x and x["known"] and x["out"]["k"] in ("val", "void")
                                                                   for _, x in flat),
        "required argument missing": any("raw" in x and x["out"]["k"] == "argerr" for _, x in flat),
        "lagging oneway": any(x.get("lag") for _, x in flat),
        "sequence of 3": any(len(c["calls"]) == 3 for c in cases),
        "oneway followed by a call": any(len(c["calls"]) >= 2 and c["calls"][0].get("exp", {}).get("k") == "none"
                                         and c["calls"][1].get("exp", {}).get("k") not in ("none", None) for c in cases),
        "inherited through two included files": any(x.get("ds") == "Root" and c["svc"] == "Svc" for c, x in flat),
        "successful call of a method with a `required` throws entry": any(
            x.get("m") in u.req_throws and x["out"]["k"] in ("val", "void") for _, x in flat),
        "exception from a method with a `required` throws entry": any(
            x.get("m") in u.req_throws and x["out"]["k"] == "exc" for _, x in flat),
        "call inherited from the included namesake service": any(x.get("m") == "shared_inc" and c["svc"] == "Ext" for c, x in flat),
        "nil struct argument": any(a == {"nil": True} for _, x in flat for a in x.get("args", [])),
    }
    missing = [k for k, v in need.items() if not v]
    if missing:
        raise vlib.MachineryError("vacuous case universe: no case with " + ", ".join(missing))
    total = len(cases)
    if not thorough:
        cases = sample_cases(ctx, cases, plan_meta, 1200, 1300)
    vlib.log("universe: %d services, %d methods, %d plans, %d TLC cases (%d replayed)" % (
        len(u.svcs), sum(len(s["methods"]) for s in u.svcs), len(plans), total, len(cases)))
    ctx.extra_cov["tlc_cases_total"] = total
    ctx.extra_cov["cases_replayed_per_configuration"] = len(cases)
    opts = OPTION_SETS[ctx.tier]
    run_lab(ctx, u, cases, plan_meta, opts[:1], "main")
    if thorough:
        B = 3
        sub = sample_cases(ctx, cases, plan_meta, 1000, 1000)
        for off in range(1, len(opts), B):
            run_lab(ctx, u, sub, plan_meta, opts[off:off + B], "o%d" % off)
    ctx.extra_cov["probe_observations"] = u.probe_obs
    return ctx.finish(
        rule="method shapes enumerated by TLC (result kind x 0..3 arguments x 0..2 throws) assembled into five services over "
             "three files (two-level included base, local base), awkward method/argument/throws names; TLC (RpcGen) enumerates "
             "single calls over every dispatch table with all bounded argument tuples and outcomes, and call sequences of "
             "length <= 3 over method mixes incl. an unknown method injected as raw bytes and lagging oneway requests. "
             "distinct class = (plan kind, per call: result kind, #args, #throws, inheritance depth, outcome, lag)",
        assumptions=["Go names of struct-likes equal their IDL names (names chosen to be style-invariant); Go method names and "
                     "parameter types are read from the generated interfaces, matched to IDL functions by position",
                     "nil and empty containers/binaries are the same abstract value",
                     "the application exception's type id and message are not constrained by the statement",
                     "single-threaded connection: the server runs when the client flushes (or later, for lagging oneway calls)"],
        trusted=["apache/thrift v0.13.0 TStandardClient/TBinaryProtocol/TMemoryBuffer", "harness pkg/rec, pkg/drv, pkg/c08rpc",
                 "TLC", "go toolchain"])


def replay(ctx, path):
    """re-run the one connection of a replay file against the current tree"""
    rp = json.load(open(path))
    case = rp.get("case") or {}
    if "calls" not in case:
        raise vlib.MachineryError("replay: %s is not a connection case (class %s)" % (path, rp.get("class")))
    u = build_universe(ctx)
    u.probe_obs = {}
    tc = {"plan": 1, "svc": case["svc"], "calls": case["calls"]}
    run_lab(ctx, u, [tc], [{"kind": case.get("plan_kind", "single")}], [case.get("opts") or []], "replay")
    return ctx.finish(rule="replay of one recorded connection case", trusted=["see the C08 registry entry"])
