"""C07 — code generation is deterministic.

Spec: spec/Determinism/DetSites.tla (program feature vectors, configurations, the table of emission sites at which an
unordered collection is walked, Risky / Reached / Leaky), spec/Determinism/Determinism.tla (two executions over one shared
file system with every source of non-determinism an explicit choice: walk order per site, persist schedule via
spec/Persist/PersistSpec.tla, output directory name, previous directory contents; the property Deterministic),
spec/Determinism/Gen_Determinism.tla (case generation).

Flow
 1. TLC checks Determinism with Layer="A" (every site a function of its key set): Deterministic holds under all walk orders,
    schedules, directory names and previous contents.  With Layer="B" (sites as transcribed from thriftgo as it is now) and
    Layer="P" (as transcribed from the pinned commit, before the three leaks this check found were repaired) TLC shows that
    executions diverge only where the layer's table says a site leaks its walk order and reports every pair it found diverging
    executions for; the check requires that this set equals the table's leaky pairs (consistency of the model with itself;
    for B that set is empty now, for P it is the 83 pairs of the quick universe the real binary used to diverge on).
 2. TLC enumerates the (feature vector, configuration) universe and emits the cases with the key counts per site.
 3. Python turns each feature vector into a concrete program (lib/idl.py), re-derives the key counts from the program and
    requires them to equal the spec's (binding of the feature vector to the program).
 4. The deciding oracle is external: the thriftgo binary built from /repo is executed N times per case with
    GOMAXPROCS in {1, 2, 16} into different output directories, once more into the directory of an earlier execution and once
    into a directory pre-populated with longer garbage under the same file names; every file is hashed with the directory
    name blanked; the request a recording plugin received on stdin is hashed the same way.  All executions must agree.
 5. spec/Determinism/Replacer.tla: the one order-sensitive primitive behind the site "fm.replacer" (strings.Replacer fed from
    a map): TLC shows (bounded) that a prefix-free key set makes the argument order irrelevant and that marker-shaped keys are
    prefix-free, and emits marker texts; each is replayed many times into the real generator.FileManager (harness
    `inproc c07replacer`): every replay must give the same content.
Level: exploration (map-iteration seeds are sampled by repetition, not enumerated).
"""
import concurrent.futures
import gzip
import hashlib
import json
import os
import random
import re
import shutil
import struct
import subprocess

import idl
import vlib

LEVEL = "exploration"

REGISTRY = dict(
    level="exploration",
    text="TLC enumerates program-feature x configuration cases from a TLA+ table of the emission sites that walk unordered "
         "collections (and model-checks, on a two-execution machine with explicit walk orders, persist schedules, directory "
         "names and previous contents, that the property holds when every site is order-free and where the transcribed "
         "generator can diverge); each case is executed N times by the real thriftgo binary under GOMAXPROCS 1/2/16, into "
         "fresh, re-used and garbage-filled directories, and all output trees and plugin stdin bytes must hash identically.",
    design_ref="DESIGN.md 6 C07",
    note="The deciding oracle is external (SHA-256 over repeated executions); Go's map iteration seeds are sampled, not "
         "enumerated: N = 8 (quick) / 32 (thorough) executions per case, every risky feature also at 8 keys where one more "
         "execution misses a leaking site with probability 1/8 (Go 1.23 maps). Trusted: TLC, lib/idl.py renderer, sha256, "
         "harness/cmd/thrift-gen-verifdump.",
    technique="TLA+ site table + self-composed two-execution model (TLC), TLC-generated feature/config cases, repeated "
              "execution of the real binary with hash comparison")

TIERS = {
    "quick": dict(gen="Gen_quick", n=8),
    "thorough": dict(gen="Gen_thorough", n=32),
}
GOMAXPROCS = ["1", "2", "16"]
TLC_WORKERS = int(os.environ.get("C07_TLC_WORKERS", "0")) or None      # development aid on a loaded machine; default: all cores
LANGS = ["go", "java", "py", "cpp", "rb", "php", "js", "rs", "swift", "lua", "cs", "perl"]


# ---------------------------------------------------------------------------------------------- feature vector -> program
def ann_list(k, tag):
    return [["c07.%s%d" % (tag, i + 1), "v%d" % (i + 1)] for i in range(k)] if k > 0 else None


def map_val(k):
    return {"m": [[{"s": "k%d" % (i + 1)}, {"i": i + 1}] for i in range(k)]}


def build_program(p):
    """feature vector (DetSites.tla Base fields) -> program JSON exhibiting exactly those features."""
    decl = ann_list(p["ann"], "d") if p["annAt"] in ("decl", "both") else None
    memb = ann_list(p["ann"], "m") if p["annAt"] in ("member", "both") else None
    files = []
    main = {"path": "main.thrift", "includes": [], "namespaces": [], "defs": []}
    for j in range(1, p["inc"] + 1):
        main["includes"].append("inc%d.thrift" % j)
        f = {"path": "inc%d.thrift" % j, "includes": [], "namespaces": [{"lang": "go", "name": "c07.inc%d" % j}],
             "defs": [{"k": "struct", "name": "Inc%dS" % j, "fields": [idl.F(1, "default", idl.T("i32"), "a")]}]}
        if p["diamond"]:
            f["includes"].append("base.thrift")
            f["defs"][0]["fields"].append(idl.F(2, "optional", idl.T("base.BaseS"), "b"))
        files.append(f)
    if p["diamond"] and p["inc"] > 0:
        files.append({"path": "base.thrift", "includes": [], "namespaces": [{"lang": "go", "name": "c07.base"}],
                      "defs": [{"k": "struct", "name": "BaseS", "fields": [idl.F(1, "default", idl.T("i32"), "a")]}]})
    for i in range(p["ns"]):
        lang = LANGS[i]
        main["namespaces"].append({"lang": lang, "name": "c07.main" if lang == "go" else "c07.%sx" % lang})
    defs = main["defs"]
    if p["kinds"] == "all":
        defs.append({"k": "enum", "name": "E", "ann": decl,
                     "values": [{"name": "A", "value": 1, "ann": memb}, {"name": "B", "value": 2, "ann": memb}]})
        defs.append({"k": "typedef", "name": "T", "type": idl.T("i32"), "ann": decl})
        defs.append({"k": "union", "name": "U", "ann": decl,
                     "fields": [idl.F(1, "default", idl.T("i32"), "a", ann=memb), idl.F(2, "default", idl.T("string"), "b")]})
    s1 = [idl.F(1, "default", idl.T("i32"), "a", ann=memb), idl.F(2, "optional", idl.T("string"), "b", ann=memb)]
    if p["mapDefault"] > 0:
        s1.append(idl.F(3, "default", idl.T("map", idl.T("string"), idl.T("i32")), "md", default=map_val(p["mapDefault"])))
    for j in range(1, p["inc"] + 1):
        s1.append(idl.F(10 + j, "optional", idl.T("inc%d.Inc%dS" % (j, j)), "f%d" % j))
    defs.append({"k": "struct", "name": "S1", "fields": s1, "ann": decl})
    for i in range(2, p["defs"] + 1):
        defs.append({"k": "struct", "name": "S%d" % i, "fields": [idl.F(1, "default", idl.T("i32"), "a")]})
    if p.get("req", 0) > 0:
        defs.append({"k": "struct", "name": "R",
                     "fields": [idl.F(i, "required", idl.T("i32"), "r%d" % i) for i in range(1, p["req"] + 1)]})
    if p.get("wide", 0) > 0:
        defs.append({"k": "struct", "name": "W",
                     "fields": [idl.F(i, "optional", idl.T("i32"), "w%d" % i) for i in range(1, p["wide"] + 1)]})
    if p.get("evals", 0) > 0:
        defs.append({"k": "enum", "name": "BigE",
                     "values": [{"name": "V%d" % i, "value": i} for i in range(1, p["evals"] + 1)]})
    if p.get("funcs", 0) > 0:
        defs.append({"k": "service", "name": "Wide", "extends": None,
                     "functions": [{"name": "g%d" % i, "oneway": False, "ret": None, "args": [], "throws": None}
                                   for i in range(1, p["funcs"] + 1)]})
    if p["mapConst"] > 0:
        defs.append({"k": "const", "name": "CM", "type": idl.T("map", idl.T("string"), idl.T("i32")),
                     "value": map_val(p["mapConst"]), "ann": decl})
    for i in range(1, p["exc"] + 1):
        defs.append({"k": "exception", "name": "X%d" % i, "fields": [idl.F(1, "default", idl.T("string"), "m")], "ann": decl})
    for i in range(1, p["svc"] + 1):
        throws = [idl.F(k, "default", idl.T("X%d" % k), "x%d" % k) for k in range(1, p["exc"] + 1)] or None
        defs.append({"k": "service", "name": "Svc%d" % i, "extends": None, "ann": decl,
                     "functions": [{"name": "f", "oneway": False, "ret": idl.T("S1"),
                                    "args": [idl.F(1, "default", idl.T("S1"), "a")], "throws": throws, "ann": memb}]})
    return {"files": [main] + files}


def main_go_path(p):
    return "c07/main/main.go" if p["ns"] >= 1 else "main/main.go"


def derived_keys(prog, cfg):
    """key counts per site re-derived from the concrete program (independent of the spec's KeyCount)."""
    m = prog["files"][0]
    decl, memb, cmap, dmap, throws, req, members = [0], [0], [0], [0], [0], [0], [0]
    for d in m["defs"]:
        decl.append(len(d.get("ann") or []))
        members.append(len(d.get("fields") or d.get("values") or d.get("functions") or []))
        if d["k"] in ("struct", "union", "exception"):
            req.append(sum(1 for f in d["fields"] if f.get("req") == "required"))
        if d["k"] == "const" and "m" in d["value"]:
            cmap.append(len(d["value"]["m"]))
        for f in d.get("fields", []):
            memb.append(len(f.get("ann") or []))
            if f.get("default") and "m" in f["default"]:
                dmap.append(len(f["default"]["m"]))
        for v in d.get("values", []):
            memb.append(len(v.get("ann") or []))
        if d["k"] == "service":
            seen = set()
            for fn in d["functions"]:
                memb.append(len(fn.get("ann") or []))
                for t in fn.get("throws") or []:
                    seen.add(t["type"]["n"])
            throws.append(len(seen))
    k = {"refl.ann.decl": max(decl), "refl.ann.member": max(memb), "refl.namespaces": len(m["namespaces"]),
         "refl.includes": len(m["includes"]), "refl.constmap": max(cmap), "refl.defaultmap": max(dmap),
         "go.constmap": max(cmap), "go.defaultmap": max(dmap), "go.throws": max(throws), "go.tags": max(memb),
         "fastgo.required": max(req), "go.members": max(members), "fastgo.fields": max(members),
         "plugin.names": len(m["defs"]), "plugin.ast": len(m["defs"]), "dfs.includes": len(m["includes"]),
         "persist.jobs": len(prog["files"]) if cfg["recursive"] else 1}
    return k


# ---------------------------------------------------------------------------------------------- schema-less thrift binary
def _tval(b, off, t, tag=None):
    """parse one value of ttype t at b[off:]; returns (canonical form, new offset); map entries canonicalised by sorting;
    tag (the run directory) is blanked inside strings."""
    if t == 2 or t == 3:
        return ("b", b[off]), off + 1
    if t == 4 or t == 10:
        return ("q", b[off:off + 8]), off + 8
    if t == 6:
        return ("h", b[off:off + 2]), off + 2
    if t == 8:
        return ("i", b[off:off + 4]), off + 4
    if t == 11:
        n = struct.unpack(">i", b[off:off + 4])[0]
        if n < 0 or off + 4 + n > len(b):
            raise ValueError("string length")
        sv = bytes(b[off + 4:off + 4 + n])
        return ("s", sv.replace(tag, b"@RUN@") if tag else sv), off + 4 + n
    if t == 12:
        fields = []
        while True:
            ft = b[off]
            off += 1
            if ft == 0:
                break
            fid = struct.unpack(">h", b[off:off + 2])[0]
            off += 2
            v, off = _tval(b, off, ft, tag)
            fields.append((fid, ft, v))
        return ("S", tuple(fields)), off
    if t == 13:
        kt, vt = b[off], b[off + 1]
        n = struct.unpack(">i", b[off + 2:off + 6])[0]
        off += 6
        ents = []
        for _ in range(n):
            k, off = _tval(b, off, kt, tag)
            v, off = _tval(b, off, vt, tag)
            ents.append((k, v))
        ents.sort(key=repr)
        return ("M", kt, vt, tuple(ents)), off
    if t == 14 or t == 15:
        et = b[off]
        n = struct.unpack(">i", b[off + 1:off + 5])[0]
        off += 5
        xs = []
        for _ in range(n):
            v, off = _tval(b, off, et, tag)
            xs.append(v)
        return ("L", t, et, tuple(xs)), off
    raise ValueError("ttype %d" % t)


def thrift_canon(b, tag=None):
    """canonical form of a thrift-binary struct with map entries sorted, or None if it does not parse."""
    try:
        v, off = _tval(b, 0, 12, tag)
        return (v, bytes(b[off:]))
    except Exception:
        return None


RAWDESC = re.compile(rb"(_rawDesc = \[\]byte\{)(.*?)(\n\})", re.S)


def rawdesc_bytes(src):
    m = RAWDESC.search(src)
    if not m:
        return None
    try:
        return bytes(int(x, 16) for x in re.findall(rb"0x([0-9a-fA-F]{1,2})", m.group(2)))
    except Exception:
        return None


def classify_file_diff(rel, a, b):
    """what kind of difference two versions of one generated file show (from the observation only)."""
    base = os.path.basename(rel)
    if base.endswith("-reflection.go"):
        if RAWDESC.sub(rb"\1\3", a) == RAWDESC.sub(rb"\1\3", b):
            ra, rb_ = rawdesc_bytes(a), rawdesc_bytes(b)
            try:
                ca, cb = thrift_canon(gzip.decompress(ra)), thrift_canon(gzip.decompress(rb_))
                if ca is not None and ca == cb:
                    return "reflection-descriptor-map-entry-order"
            except Exception:
                pass
            return "reflection-descriptor-bytes"
        return "reflection-file-content"
    la, lb = a.split(b"\n"), b.split(b"\n")
    if sorted(la) == sorted(lb):
        diff = [x for x, y in zip(la, lb) if x != y]
        if all(re.match(rb'^\s*([A-Za-z_0-9]+\s+)?"[^"]+"\s*$', x) for x in diff):
            return ("fastgo-" if base.startswith("k-") else "") + "import-line-order"
        return "line-order"
    return "file-content"


def classify_stdin_diff(a, taga, b, tagb):
    """a, b: raw request bytes; taga, tagb: the run directories they mention"""
    ca, cb = thrift_canon(a, taga), thrift_canon(b, tagb)
    if ca is not None and ca == cb:
        return "request-map-entry-order"
    return "request-bytes"


# ---------------------------------------------------------------------------------------------- executing one case
class Runner:
    def __init__(self, ctx, thriftgo, plugin, n):
        self.ctx = ctx
        self.thriftgo = thriftgo
        self.plugin = plugin
        self.n = n
        self.root = ctx.mkdir("runs")
        self.rng = random.Random(ctx.seed)
        self.offset = self.rng.randrange(3)
        self.garbage = bytes(self.rng.randrange(32, 127) for _ in range(997))

    def cmd(self, case, idl_main, rundir):
        cfg = case["cfg"]
        g = cfg["backend"]
        if cfg["opts"]:
            g += ":" + ",".join(sorted(cfg["opts"]))
        cmd = [self.thriftgo, "-g", g, "-o", os.path.join(rundir, "out")]
        if cfg["plugin"] != "none":
            par = "out=%s" % os.path.join(rundir, "req.bin")
            if cfg["plugin"] == "patch":
                par += ",patch=%s" % main_go_path(case["p"])
            # thriftgo kills a plugin after one minute by default; a loaded machine must not look like a verdict
            cmd += ["-plugin-time-limit", "20m", "-p", "verifdump=%s:%s" % (self.plugin, par)]
        if cfg["recursive"]:
            cmd.append("-r")
        cmd.append(idl_main)
        return cmd

    def execute(self, case, idl_main, rundir, gmp):
        os.makedirs(rundir, exist_ok=True)
        req = os.path.join(rundir, "req.bin")
        if os.path.exists(req):
            os.remove(req)
        env = dict(self.ctx.env)
        env["GOMAXPROCS"] = gmp
        cmd = self.cmd(case, idl_main, rundir)
        rc, err = None, ""
        for attempt in (1, 2):      # a failing execution is repeated once before it counts (DESIGN 2.2)
            try:
                pr = subprocess.run(cmd, cwd=rundir, env=env, stdout=subprocess.PIPE, stderr=subprocess.PIPE, timeout=1200)
            except subprocess.TimeoutExpired:
                raise vlib.MachineryError("thriftgo did not finish within 1200 s: %s" % " ".join(cmd))
            rc, err = pr.returncode, (pr.stdout + pr.stderr).decode("utf-8", "replace")
            if rc == 0:
                break
        return self.snapshot(rundir, rc, err), cmd

    def snapshot(self, rundir, rc, err):
        """{relative path: sha256 of content with the run directory blanked}, plus the plugin's stdin"""
        tag = rundir.encode()
        tree = {}
        out = os.path.join(rundir, "out")
        for dp, _, fs in os.walk(out):
            for f in fs:
                full = os.path.join(dp, f)
                with open(full, "rb") as fh:
                    data = fh.read()
                tree[os.path.relpath(full, out)] = hashlib.sha256(data.replace(tag, b"@RUN@")).hexdigest()
        stdin = None
        req = os.path.join(rundir, "req.bin")
        if os.path.exists(req):
            with open(req, "rb") as fh:
                stdin = hashlib.sha256(fh.read().replace(tag, b"@RUN@")).hexdigest()
        return {"rc": rc, "tree": tree, "stdin": stdin, "err": err.replace(rundir, "@RUN@")[-600:] if rc != 0 else ""}

    def run_case(self, case):
        """returns dict(executions, diffs=[...], error=None|str)"""
        cdir = os.path.join(self.root, case["id"])
        os.makedirs(cdir)
        prog = build_program(case["p"])
        idl_main = idl.write_program(prog, os.path.join(cdir, "idl"))
        snaps, dirs = [], []
        res = {"executions": 0, "diffs": [], "error": None, "files": 0, "cmd": None}
        for i in range(self.n):
            rundir = os.path.join(cdir, "r%03d" % i)
            gmp = GOMAXPROCS[(i + self.offset) % 3]
            s, cmd = self.execute(case, idl_main, rundir, gmp)
            s["how"] = "fresh directory, GOMAXPROCS=%s" % gmp
            snaps.append(s)
            dirs.append(rundir)
            res["cmd"] = cmd
        # into a directory that holds the result of a previous execution
        pdir = os.path.join(cdir, "r%03d" % self.n)
        os.makedirs(pdir)
        if os.path.isdir(os.path.join(dirs[0], "out")):
            shutil.copytree(os.path.join(dirs[0], "out"), os.path.join(pdir, "out"))
        s, _ = self.execute(case, idl_main, pdir, GOMAXPROCS[self.offset % 3])
        s["how"] = "directory holding the result of a previous execution"
        snaps.append(s)
        dirs.append(pdir)
        # into a directory pre-populated with longer garbage under the same names
        gdir = os.path.join(cdir, "r%03d" % (self.n + 1))
        for rel in snaps[0]["tree"]:
            dst = os.path.join(gdir, "out", rel)
            os.makedirs(os.path.dirname(dst), exist_ok=True)
            with open(os.path.join(dirs[0], "out", rel), "rb") as fh:
                data = fh.read()
            with open(dst, "wb") as fh:
                fh.write(self.garbage + data + self.garbage)
        s, _ = self.execute(case, idl_main, gdir, GOMAXPROCS[(self.offset + 1) % 3])
        s["how"] = "directory pre-populated with garbage under the same file names"
        snaps.append(s)
        dirs.append(gdir)
        res["executions"] = len(snaps)
        res["hows"] = [s["how"] for s in snaps]
        ref = snaps[0]
        res["files"] = len(ref["tree"])
        if ref["rc"] != 0 or not ref["tree"]:
            ok = [s for s in snaps if s["rc"] == 0 and s["tree"]]
            if ok:      # some executions of the same command succeed, others do not
                res["diffs"].append({"object": "exit", "kind": "exit-status", "path": "", "how": ok[0]["how"],
                                     "detail": "rc %s (%s) vs rc 0" % (ref["rc"], ref["err"])})
                res["distinct_trees"] = len({json.dumps(s["tree"], sort_keys=True) for s in snaps})
                res["distinct_stdin"] = len({s["stdin"] for s in snaps})
                return res
            res["error"] = "thriftgo failed on a generated case (rc=%s): %s" % (ref["rc"], ref["err"])
            return res
        if case["cfg"]["plugin"] != "none" and ref["stdin"] is None:
            res["error"] = "recording plugin wrote no request"
            return res
        seen = set()
        for k in range(1, len(snaps)):
            s = snaps[k]
            if s["rc"] != ref["rc"]:
                res["diffs"].append({"object": "exit", "kind": "exit-status", "path": "", "how": s["how"],
                                     "detail": "rc %s vs %s: %s" % (ref["rc"], s["rc"], s["err"])})
                continue
            for rel in sorted(set(ref["tree"]) | set(s["tree"])):
                if ref["tree"].get(rel) == s["tree"].get(rel) or rel in seen:
                    continue
                seen.add(rel)
                if rel not in ref["tree"] or rel not in s["tree"]:
                    res["diffs"].append({"object": "tree", "kind": "file-set", "path": rel, "how": s["how"],
                                         "detail": "file present in one execution only"})
                    continue
                with open(os.path.join(dirs[0], "out", rel), "rb") as fh:
                    a = fh.read().replace(dirs[0].encode(), b"@RUN@")
                with open(os.path.join(dirs[k], "out", rel), "rb") as fh:
                    b = fh.read().replace(dirs[k].encode(), b"@RUN@")
                res["diffs"].append({"object": obj_of(rel), "kind": classify_file_diff(rel, a, b), "path": rel,
                                     "how": s["how"], "detail": first_diff(a, b)})
            if ref["stdin"] != s["stdin"] and "stdin" not in seen:
                seen.add("stdin")
                if s["stdin"] is None:
                    res["diffs"].append({"object": "stdin", "kind": "request-missing", "path": "<plugin stdin>",
                                         "how": s["how"], "detail": ""})
                    continue
                with open(os.path.join(dirs[0], "req.bin"), "rb") as fh:
                    a = fh.read()
                with open(os.path.join(dirs[k], "req.bin"), "rb") as fh:
                    b = fh.read()
                res["diffs"].append({"object": "stdin",
                                     "kind": classify_stdin_diff(a, dirs[0].encode(), b, dirs[k].encode()),
                                     "path": "<plugin stdin>", "how": s["how"],
                                     "detail": first_diff(a.replace(dirs[0].encode(), b"@RUN@"),
                                                          b.replace(dirs[k].encode(), b"@RUN@"))})
        res["distinct_trees"] = len({json.dumps(s["tree"], sort_keys=True) for s in snaps})
        res["distinct_stdin"] = len({s["stdin"] for s in snaps})
        shutil.rmtree(cdir, ignore_errors=True)
        return res


def obj_of(rel):
    b = os.path.basename(rel)
    if b.endswith("-reflection.go"):
        return "refl"
    if b.startswith("k-"):
        return "fast"
    if b.endswith(".go"):
        return "code"
    return "extra"


def first_diff(a, b):
    n = min(len(a), len(b))
    i = 0
    while i < n and a[i] == b[i]:
        i += 1
    lo = max(0, i - 40)
    return {"offset": i, "len": [len(a), len(b)],
            "a": a[lo:i + 60].decode("latin-1"), "b": b[lo:i + 60].decode("latin-1")}


# ---------------------------------------------------------------------------------------------- miss probability
def miss_probability(k, n):
    """probability that n executions walk a k-key Go 1.23 map (k <= 8, one bucket, random start slot) in the same order."""
    k = min(k, 8)
    return ((9 - k) / 8.0) ** n + (k - 1) * (1 / 8.0) ** n


# ---------------------------------------------------------------------------------------------- the check
def case_id(c):
    h = hashlib.sha1(json.dumps([c["cfg"], c["p"]], sort_keys=True).encode()).hexdigest()[:12]
    return "c" + h


def norm_case(c):
    c["cfg"]["opts"] = sorted(c["cfg"]["opts"])
    c["leaky"] = sorted(c["leaky"])
    c["leaky_pinned"] = sorted(c.get("leaky_pinned", []))
    c["objects"] = sorted(c["objects"])
    c["reached"] = sorted(c["reached"], key=lambda r: r["site"])
    c["id"] = case_id(c)
    return c


def pkey(p):
    return json.dumps(p, sort_keys=True)


MC_CFG = """SPECIFICATION Spec
CONSTANTS
  Many = 8
  Layer = "%(layer)s"
  Programs <- %(progs)s
  Configs <- %(cfgs)s
  DirNames <- Dirs2
  StaleChoices <- %(stale)s
  MaxPerm = %(perm)d
  MaxJobs = %(jobs)d
VIEW View
INVARIANTS TypeOK %(inv)s WrittenIsJobs NameBlanked
PROPERTIES OnlyOwnDir
CHECK_DEADLOCK FALSE
"""
DYN_NAMES = {"go", "go+reflection", "fastgo+no_fmt", "go/dump", "go+reflection/patch", "go/flat"}   # MC_Determinism!DynNames
FULL_NAMES = {"fastgo+no_fmt", "go/dump"}      # MC_Determinism!CfgFull
CFG_NAMES = {"CfgDyn": DYN_NAMES, "CfgFull": FULL_NAMES, "CfgP2": {"go+reflection/patch", "fastgo+no_fmt"},
             "CfgPW2": {"go+reflection", "fastgo+no_fmt"}, "CfgQuick": None}
PROG_WEIGHTS = {"ProgsW1": {0, 1}, "ProgsW1Low": {0, 1}, "ProgsW2": {0, 1, 2}, "ProgsFull": {99}}
MC_RUNS = {
    "quick": [dict(layer="B", progs="ProgsW1Low", cfgs="CfgDyn", perm=2, jobs=2, stale="StaleBoth"),
              dict(layer="P", progs="ProgsW1Low", cfgs="CfgP2", perm=2, jobs=2, stale="StaleBoth")],
    "thorough": [dict(layer="A", progs="ProgsW1", cfgs="CfgQuick", perm=2, jobs=2, stale="StaleBoth"),
                 dict(layer="B", progs="ProgsW1", cfgs="CfgQuick", perm=2, jobs=2, stale="StaleBoth"),
                 dict(layer="P", progs="ProgsW1", cfgs="CfgQuick", perm=2, jobs=2, stale="StaleBoth"),
                 dict(layer="B", progs="ProgsW1Low", cfgs="CfgDyn", perm=3, jobs=2, stale="StaleBoth"),
                 dict(layer="P", progs="ProgsW1Low", cfgs="CfgDyn", perm=3, jobs=2, stale="StaleBoth"),
                 dict(layer="B", progs="ProgsW1Low", cfgs="CfgDyn", perm=2, jobs=3, stale="StaleAny"),
                 dict(layer="P", progs="ProgsW1Low", cfgs="CfgDyn", perm=2, jobs=3, stale="StaleAny"),
                 dict(layer="B", progs="ProgsW2", cfgs="CfgDyn", perm=2, jobs=2, stale="StaleBoth"),
                 dict(layer="P", progs="ProgsW2", cfgs="CfgPW2", perm=2, jobs=2, stale="StaleBoth"),
                 dict(layer="P", progs="ProgsFull", cfgs="CfgFull", perm=2, jobs=2, stale="StaleBoth")],
}


def is_low(p):
    """mirror of MC_Determinism!ProgsW1Low"""
    return (all(p[f] != 8 for f in ("ann", "ns", "mapConst", "mapDefault", "inc", "defs", "exc"))
            and p.get("wide", 0) == 0 and p.get("evals", 0) == 0 and p.get("funcs", 0) == 0 and p.get("req", 0) != 20)


def model_check(ctx, cases_by_key):
    """step 1: the two-execution machine.  Layer A: Deterministic.  Layers B (thriftgo as it is) and P (thriftgo at the
    pinned commit): TLC finds diverging executions exactly for the pairs the layer's table calls leaky, in exactly the
    objects the leaky sites belong to (consistency of the model with itself).  Returns {layer: number of diverging pairs}."""
    persist = os.path.join(vlib.VERIF, "spec", "Persist", "PersistSpec.tla")
    total = {"B": 0, "P": 0}
    for k, r in enumerate(MC_RUNS[ctx.tier]):
        inv = "Deterministic" if r["layer"] == "A" else "DivergesOnlyWhereLeaky ReportDivergence"
        cfg = MC_CFG % dict(r, inv=inv)
        res = ctx.tlc("Determinism", "MC_Determinism", "mc.cfg", files={"mc.cfg": cfg, "PersistSpec.tla": persist},
                      timeout=3000, workers=TLC_WORKERS, label="MC_Determinism[%s %s x %s perm=%d jobs=%d]" % (
                          r["layer"], r["progs"], r["cfgs"], r["perm"], r["jobs"]))
        if r["layer"] == "A":
            continue
        lk = "leaky" if r["layer"] == "B" else "leaky_pinned"
        div = {}
        for s in res["lines"]:
            if s.startswith("DIVERGE "):
                d = json.loads(s[8:])
                div.setdefault((d["cfg"], pkey(d["p"])), set()).update(d["objs"])
        for (cn, pk), objs in div.items():
            c = cases_by_key.get((cn, pk))
            if c is None:
                continue
            want = set(site_objects(c[lk]))
            if objs != want:
                raise vlib.MachineryError("model inconsistency (layer %s): TLC diverges in %s but the table says %s for %s %s" % (
                    r["layer"], sorted(objs), sorted(want), cn, pk))
        for (cn, pk), c in cases_by_key.items():
            if r["progs"] == "ProgsW1Low" and not is_low(c["p"]):
                continue
            if CFG_NAMES[r["cfgs"]] is not None and cn not in CFG_NAMES[r["cfgs"]]:
                continue
            if c["weight"] in PROG_WEIGHTS[r["progs"]] and c["cfg"]["name"] != "s" and c[lk] and (cn, pk) not in div:
                raise vlib.MachineryError("model inconsistency (layer %s): the table says %s leak but TLC found no diverging "
                                          "executions for %s %s" % (r["layer"], c[lk], cn, pk))
        total[r["layer"]] += len(div)
    if total["P"] == 0:
        raise vlib.MachineryError("vacuous: the model of the pinned commit never diverges")
    return total


def site_objects(sites):
    return sorted({SITE_OBJECT.get(s.split(".")[0], "tree") for s in sites})


REPLACER_CFG = """SPECIFICATION RSpec
CONSTANTS
  Letters = {"p", "q"}
  MaxName = 2
  MaxMarkers = %(markers)d
  Patches = {"P", ""}
INVARIANTS OrderFree MarkersFree Emit
CHECK_DEADLOCK FALSE
"""


def replacer_conformance(ctx):
    """the one order-sensitive primitive behind site fm.replacer: TLC proves (bounded) that a prefix-free key set makes
    strings.Replacer order-free and emits marker texts with the result; each is replayed many times into the real
    generator.FileManager (a fresh Go map, hence a fresh walk order, per replay): one result only."""
    inproc = ctx.build_harness("inproc")
    markers, reps = (2, 8) if ctx.tier == "quick" else (3, 32)
    r = ctx.tlc("Determinism", "Replacer", "rep.cfg", files={"rep.cfg": REPLACER_CFG % dict(markers=markers)},
                timeout=1500, workers=TLC_WORKERS, label="Replacer[markers=%d]" % markers)
    cases = ctx.tlc_cases(r, prefix="RCASE ")
    if not cases:
        raise vlib.MachineryError("Replacer emitted no cases")
    if not any(len(c["names"]) >= 2 and any(a != b and a == b[:len(a)] for a in c["names"] for b in c["names"])
               for c in cases):
        raise vlib.MachineryError("vacuous: no replacer case with a name that is a prefix of another name")
    for c in cases:
        c["reps"] = reps
    cf, of = ctx.path("replacer-cases.ndjson"), ctx.path("replacer-obs.ndjson")
    vlib.write_ndjson(cf, cases)
    ctx.run([inproc, "c07replacer", cf, of], timeout=900)
    obs = vlib.read_ndjson(of)
    if len(obs) != len(cases):
        raise vlib.MachineryError("c07replacer returned %d results for %d cases" % (len(obs), len(cases)))
    mismatch = 0
    for c, o in zip(cases, obs):
        ctx.count(1, "replacer names=%d markers=%d prefix=%s" % (
            len(c["names"]), c["text"].count("("),
            any(a != b and a == b[:len(a)] for a in c["names"] for b in c["names"])))
        if o["panic"] or o["errors"]:
            raise vlib.MachineryError("FileManager refused a replacer case: %s %s" % (c, o))
        if len(o["results"]) != 1:
            ctx.violation({"check": "C07.replacer", "kind": "order-dependent-patching", "object": "code"},
                          {"replacer_case": c}, {"distinct_results": o["results"], "content": o["content"], "replays": reps},
                          "one result whatever order the insertion-point map is walked in (spec/Determinism/Replacer: OrderFree)",
                          "BuildResponse gives different contents for the same file and patches")
        elif o["results"][0] != "".join(c["want"]):
            mismatch += 1
    ctx.extra_cov["replacer_cases"] = len(cases)
    ctx.extra_cov["replacer_replays_per_case"] = reps
    ctx.extra_cov["replacer_result_differs_from_model"] = mismatch   # deterministic but not what Replacer.tla computes
    ctx.sample({"replacer_case": cases[len(cases) // 2], "observed": obs[len(cases) // 2]})
    return len(cases)


SITE_OBJECT = {"refl": "refl", "fastgo": "fast", "plugin": "stdin", "go": "code", "fm": "code"}


def check_vacuity(cases):
    """the generated universe must contain what the property is about"""
    reached_sites = {r_["site"] for c in cases for r_ in c["reached"]}
    need = {"refl.ann.decl", "refl.ann.member", "refl.namespaces", "refl.includes", "refl.constmap",
            "refl.defaultmap", "go.imports", "go.stdlibs", "go.throws", "fastgo.imports", "fastgo.fields", "fastgo.required",
            "fm.replacer", "plugin.names", "persist.jobs"}
    if not need <= reached_sites:
        raise vlib.MachineryError("vacuous universe: sites never reached: %s" % sorted(need - reached_sites))
    for s in need:
        ks = {r_["keys"] for c in cases for r_ in c["reached"] if r_["site"] == s}
        if max(ks) < 8:
            raise vlib.MachineryError("vacuous universe: site %s never walked with >= 8 keys" % s)
    if not any(not c["risky"] for c in cases):
        raise vlib.MachineryError("vacuous universe: no non-risky control case")
    for pl in ("dump", "patch"):
        if not any(c["cfg"]["plugin"] == pl for c in cases):
            raise vlib.MachineryError("vacuous universe: no case with plugin=%s" % pl)


def run(ctx, args):
    tier = TIERS[ctx.tier]
    thriftgo = ctx.build_repo(".", "thriftgo")
    plugin = ctx.build_harness("thrift-gen-verifdump")

    if args.replay:
        rp = json.load(open(args.replay))
        if "replacer_case" in rp["case"]:
            inproc = ctx.build_harness("inproc")
            rc = dict(rp["case"]["replacer_case"], reps=256)
            cf, of = ctx.path("replacer-cases.ndjson"), ctx.path("replacer-obs.ndjson")
            vlib.write_ndjson(cf, [rc])
            ctx.run([inproc, "c07replacer", cf, of], timeout=900)
            o = vlib.read_ndjson(of)[0]
            for k_, res_ in enumerate(o["results"] or ["<none>"]):
                ctx.count(1, "replay replacer: distinct result %d" % k_)
            ctx.count(1, "replay replacer: %d replays" % rc["reps"])
            ctx.sample({"replacer_case": rc, "observed": o})
            if len(o["results"]) != 1:
                ctx.violation({"check": "C07.replacer", "kind": "order-dependent-patching", "object": "code"},
                              {"replacer_case": rc}, o, "one result", "BuildResponse gives different contents")
            return ctx.finish("replay of one replacer case, 256 replays")
        cases = [norm_case(rp["case"])]
        n = max(TIERS["thorough"]["n"], int(rp["case"].get("n", 0)))
    else:
        r = ctx.tlc("Determinism", "Gen_Determinism", tier["gen"], timeout=1500, workers=TLC_WORKERS, label=tier["gen"])
        cases, dup = [], set()
        for c in sorted((norm_case(c) for c in ctx.tlc_cases(r)), key=lambda c: (c["cfg"]["name"] == "s", c["id"])):
            k = json.dumps([c["cfg"]["backend"], c["cfg"]["opts"], c["cfg"]["plugin"], c["cfg"]["recursive"], c["p"]],
                           sort_keys=True)
            if k not in dup:        # the same configuration can be listed under two names
                dup.add(k)
                cases.append(c)
        n = tier["n"]
        if not cases:
            raise vlib.MachineryError("TLC emitted no cases")
        check_vacuity(cases)
        frac = os.environ.get("C07_DEV_SAMPLE")     # development aid only (never set by the registered commands)
        if frac:
            rnd = random.Random(ctx.seed)
            cases = [c for c in cases if rnd.random() < float(frac) or c["weight"] == 99]
            ctx.notes.append("C07_DEV_SAMPLE=%s: a random sample of the universe was executed" % frac)
        dev = os.environ.get("C07_DEV_CONFIGS")     # development aid only (never set by the registered commands)
        if dev:
            cases = [c for c in cases if c["cfg"]["name"] in dev.split(",")]
            ctx.notes.append("C07_DEV_CONFIGS=%s: universe restricted to these configurations" % dev)
    for c in cases:
        c["leaky_objects"] = site_objects(c["leaky"])
    by_key = {(c["cfg"]["name"], pkey(c["p"])): c for c in cases}

    # step 3: bind feature vectors to concrete programs
    for c in cases:
        prog = build_program(c["p"])
        dk = derived_keys(prog, c["cfg"])
        for s, v in dk.items():
            if s in c["keys"] and c["keys"][s] != v:
                raise vlib.MachineryError("feature vector / program mismatch at site %s: spec says %d keys, program has %d (%s)"
                                          % (s, c["keys"][s], v, pkey(c["p"])))
        if len(prog["files"]) != (c["files"] if c["cfg"]["recursive"] else len(prog["files"])):
            raise vlib.MachineryError("file count mismatch for %s" % pkey(c["p"]))

    # step 4: repeated execution of the real binary (in the background while TLC works on the model, step 1)
    runner = Runner(ctx, thriftgo, plugin, n)
    pool = concurrent.futures.ThreadPoolExecutor(max_workers=vlib.NCPU)
    try:
        futs = [pool.submit(runner.run_case, c) for c in cases]
        if not args.replay and not os.environ.get("C07_DEV_CONFIGS"):
            ndiv = model_check(ctx, by_key)
            ctx.extra_cov["model_pairs_with_diverging_executions"] = {
                "layer_B_thriftgo_as_it_is": ndiv["B"], "layer_P_thriftgo_at_the_pinned_commit": ndiv["P"]}
            replacer_conformance(ctx)
        results = [f.result() for f in futs]
    finally:
        pool.shutdown(wait=True, cancel_futures=True)

    executions = 0
    agree = pred_only = obs_only = 0
    bad_gen = []
    unobserved = {}     # leaky site (layer B) -> [cases it was not observed leaking in, max keys among them]
    for c, res in zip(cases, results):
        executions += res["executions"]
        if res["error"]:
            bad_gen.append((c, res))
            continue
        cls = "cfg=%s+[%s] plugin=%s rec=%s reached=%s" % (
            c["cfg"]["backend"], ",".join(c["cfg"]["opts"]), c["cfg"]["plugin"], c["cfg"]["recursive"],
            ",".join("%s:%d" % (r_["site"], r_["keys"]) for r_ in c["reached"]))
        if args.replay:
            for how in res["hows"]:        # one case only: the evaluations are its executions
                ctx.count(1, how)
        else:
            ctx.count(1, cls)
        observed = sorted({d["object"] for d in res["diffs"]})
        if observed == c["leaky_objects"]:
            agree += 1
        elif set(observed) - set(c["leaky_objects"]):
            obs_only += 1
        else:
            pred_only += 1
        for s_ in c["leaky"]:
            if SITE_OBJECT.get(s_.split(".")[0], "tree") not in observed:
                u = unobserved.setdefault(s_, [0, 0])
                u[0] += 1
                u[1] = max(u[1], c["keys"].get(s_, 0))
        for d in res["diffs"]:
            vcls = {"check": "C07." + ("stdin" if d["object"] == "stdin" else "tree"), "kind": d["kind"], "object": d["object"]}
            case = {"cfg": c["cfg"], "p": c["p"], "n": n, "keys": c["keys"], "reached": c["reached"], "leaky": c["leaky"],
                    "leaky_pinned": c["leaky_pinned"], "risky": c["risky"], "weight": c["weight"], "names": c["names"], "files": c["files"],
                    "objects": c["objects"]}
            ctx.violation(vcls, case,
                          {"path": d["path"], "how_the_differing_execution_ran": d["how"], "first_difference": d["detail"],
                           "distinct_trees": res.get("distinct_trees"), "distinct_stdin": res.get("distinct_stdin"),
                           "executions": res["executions"], "command": res["cmd"]},
                          "all executions produce byte-identical files and plugin stdin (spec/Determinism: Deterministic)",
                          "%s differs between executions of the same command: %s" % (d["path"], d["kind"]))
    if bad_gen:
        c, res = bad_gen[0]
        raise vlib.MachineryError("%d generated case(s) were not accepted by thriftgo, first: %s %s: %s" % (
            len(bad_gen), c["cfg"], pkey(c["p"]), res["error"]))

    mid = cases[len(cases) // 2]
    ctx.sample({"case": {"cfg": mid["cfg"], "p": mid["p"], "reached": mid["reached"], "leaky_predicted_by_layer_B": mid["leaky"]},
                "main.thrift": idl.render_file(build_program(mid["p"])["files"][0]),
                "executions": results[len(cases) // 2]["executions"],
                "distinct_trees": results[len(cases) // 2].get("distinct_trees")})
    full = [i for i, c in enumerate(cases) if c["weight"] == 99]
    if full:
        i = full[0]
        ctx.sample({"case": {"cfg": cases[i]["cfg"], "p": cases[i]["p"]}, "command": results[i]["cmd"],
                    "distinct_trees": results[i].get("distinct_trees"), "distinct_stdin": results[i].get("distinct_stdin")})
    ctx.exhaustive = False
    ctx.extra_cov.update({
        "executions": executions,
        "executions_per_case": n + 2,
        "miss_probability_per_leaking_site": {
            "model": "Go 1.23 map, k <= 8 keys in one bucket, random start slot: the walk order is a rotation; "
                     "P(all N executions walk the same order) = ((9-k)/8)^N + (k-1)/8^N",
            "N": n + 2, "k=2": miss_probability(2, n + 2), "k=3": miss_probability(3, n + 2), "k=8": miss_probability(8, n + 2)},
        "layer_B_prediction_vs_observation": {
            "agree": agree, "predicted_leak_not_observed": pred_only, "observed_difference_not_predicted": obs_only,
            "sites_predicted_leaky_but_not_observed": {s_: {"cases": u[0], "max_keys": u[1]} for s_, u in sorted(unobserved.items())},
            "note": "a site unobserved even with 8 keys is either repaired in the tree under test or mis-transcribed in "
                    "DetSites!ImplKind; layer B is a prediction, verdicts come from the hashes only"},
    })
    return ctx.finish(
        rule="cases = TLC-enumerated (program feature vector, configuration) pairs: the least program, every single "
             "deviation per feature dimension (annotations per node 1/2/8 on declarations/members, namespaces 0/2/8, "
             "map constant entries 1/2/8, map default entries 2/8, includes 1/2/2-diamond/8, services x exceptions, "
             "definitions 3/8, all definition kinds, 12/20 required fields in one struct, 20 optional fields, 12 enum "
             "values, 12 functions, 8 thrown exceptions), in thorough also every pair of deviations (for three configurations), "
             "and the program with everything, times the configurations (quick: 13, of which go+reflection/patch and "
             "fastgo+no_fmt get every single deviation and the other 11 the strongest level of each; thorough: also every single core "
             "option, every pair of core options, plugin / recursion / fastgo variants, and 21 further options on the "
             "strongest deviations only); each executed %d times (GOMAXPROCS 1/2/16; fresh, re-used and "
             "garbage-filled output directory). distinct class = (backend, options, plugin, recursion, set of "
             "(site, key count) at which an unordered collection of >= 2 keys is walked). Plus the TLC-enumerated "
             "insertion-point texts of Replacer.tla, each replayed into generator.FileManager (class = number of "
             "names, markers, whether a name is a prefix of another)" % (n + 2),
        assumptions=["map iteration seeds and goroutine schedules are sampled by repetition, not enumerated "
                     "(exhaustive: false); a leaking site walked with k keys is missed with the stated probability",
                     "the output directory name may appear in outputs; it is blanked before hashing (the statement exempts it)",
                     "IDL files are addressed by the same absolute path in every execution (the statement fixes the command line)",
                     "files left over from unrelated earlier runs under other names are not part of 'the set of output files'"],
        trusted=["TLC", "lib/idl.py (renderer)", "hashlib.sha256", "harness/cmd/thrift-gen-verifdump (records stdin verbatim)",
                 "harness/cmd/inproc/c07replacer.go"])
