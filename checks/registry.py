"""Table of the checks registered in MANIFEST.json (tools/mkmanifest.py renders it)."""

NOTES = ("Model-based verification with explicit TLA+ specifications (spec/), TLC for exploration, "
         "case generation and trace validation, Go harness (harness/) for conformance with the real code. "
         "Exit 2 = machinery error (never a verdict). Known findings: known_findings.json.")

ENGINES = [
    {"name": "tlc+harness", "path": "bin/check", "serves_properties": [],
     "kind_free_text": "python orchestrator: builds /repo + harness with -tags verif, runs TLC (exhaustive check + case "
                       "generation), replays cases into the real code, validates recorded traces with TLC"},
]

NOT_APPLICABLE = {}

CHECKS = {
    "C12": dict(
        level="model_checking",
        text="TLC explores the implementation-shaped model of Feed/BuildResponse exhaustively within bounds, proves "
             "it refines the abstract output-assembly spec, and every history it reaches is replayed into the real "
             "FileManager; the recorded traces are validated by TLC against the abstract spec (fresh names inferred).",
        design_ref="DESIGN.md 6 C12",
        note="Trusted: TLC, the harness' rendering of segments to marker strings. Bounded alphabets (names a, b, a_1, "
             "a_2, a_1_1; 4 contents; 3 points; 2 texts; <= 6 items in <= 3 Feed calls).",
        technique="TLA+ refinement (Impl => Spec) + TLC-generated histories replayed + TLC trace validation"),
}
for e in ENGINES:
    e["serves_properties"] = sorted(CHECKS)
