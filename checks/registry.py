"""Table of the checks registered in MANIFEST.json (tools/mkmanifest.py renders it)."""

NOTES = ("Model-based verification with explicit TLA+ specifications (spec/), TLC for exploration, "
         "case generation and trace validation, Go harness (harness/) for conformance with the real code. "
         "Exit 2 = machinery error (never a verdict). Known findings: known_findings.json.")

ENGINES = [
    {"name": "tlc+harness", "path": "bin/check", "serves_properties": [],
     "kind_free_text": "python orchestrator: builds /repo + harness with -tags verif, runs TLC (exhaustive check + case "
                       "generation), replays cases into the real code, validates recorded traces with TLC"},
]

NOT_APPLICABLE = {}

import importlib
import os

# checks that are finished and registered in MANIFEST.json (others may exist as work in progress)
READY = ["C01", "C02", "C03", "C04", "C05", "C06", "C07", "C08", "C09", "C10", "C11", "C12", "C13", "C14", "C15", "C16", "C17", "C18", "C19", "C20"]

CHECKS = {}
for _i in range(1, 21):
    _id = "C%02d" % _i
    if _id not in READY:
        continue
    if os.path.exists(os.path.join(os.path.dirname(os.path.abspath(__file__)), _id.lower() + ".py")):
        _m = importlib.import_module(_id.lower())
        if getattr(_m, "REGISTRY", None):
            CHECKS[_id] = _m.REGISTRY
for e in ENGINES:
    e["serves_properties"] = sorted(CHECKS)
