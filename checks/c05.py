"""C05 -- symbol resolution binds every reference to the definition the IDL names.

1. TLC explores spec/Resolve/ResolveGen.tla: a bounded universe of multi-file programs (include DAGs over <= 4 files,
   same base name in different directories, dotted base names, definitions named like an include prefix, typedef chains
   crossing files in every direction the DAG allows, one reference of every kind, identifier values in every spelling),
   runs the implementation-shaped model (layer B: ResolveAST's pass order and the ResolveTypedefs retry loop) on each
   program and on permutations of its definitions, checks B => A and order independence at the design level, and emits
   every program with the per-node expectation of the declarative layer A.
2. Every program (and every permutation) is rendered to .thrift files and run through the real front end
   (harness `inproc resolve`: ParseFile recursive -> CheckAll -> ResolveSymbols); every reference node is projected to
   (Category, IsTypedef, Reference, Extra, Used).
3. Verdicts: the projection must be one layer A allows, for every node; all permutations of a program must give the
   same projection.  Programs the real resolver rejects although layer A accepts are logged under the sub-check
   `accepts` (C05 starts "after semantic analysis succeeds"), never as violations.
"""
import json
import os
import random

import c05_include
import idl
import vlib

LEVEL = "model_checking"

# vlib.Ctx removes the property's earlier replay files when it is created -- also the one named by --replay.
# Read it while this module is imported (bin/check imports the check before it creates the Ctx).
_PRELOADED = {}
try:
    import sys as _sys
    if "--replay" in _sys.argv:
        _p = _sys.argv[_sys.argv.index("--replay") + 1]
        with open(_p) as _fh:
            _PRELOADED[os.path.abspath(_p)] = _fh.read()
except Exception:
    pass

REGISTRY = dict(
    level="model_checking",
    text="TLC enumerates a bounded universe of multi-file IDL programs, runs the transcribed resolver (layer B) on each and "
         "on permutations of its definitions, checks B => A (declarative denotation) and order independence, and emits "
         "every program with layer A's per-node expectation; each program and permutation is run through the real "
         "parser + checker + ResolveSymbols in-process and every reference node is compared with layer A. Include binding "
         "(spec/Include): TLC checks the transcribed parseFileRecursively / searchCircle against the declarative binding on "
         "every directory-tree case and judges what the real ParseFile / ParseBatchString / CircleDetect returned.",
    design_ref="DESIGN.md 6 C05",
    note="Trusted: TLC, lib/idl.py rendering, harness/cmd/inproc/resolve.go (projection of the AST). Bounds: <= 4 files, "
         "typedef chains <= 4, the reference bundle of ResolveGen.tla; the binding record of an identifier value is judged by "
         "what it designates (file by Index, then the type name Sel followed through typedefs), Sel of a constant is free.",
    technique="TLA+ declarative spec + implementation-shaped model (refinement, order independence) + TLC-generated "
              "programs replayed into the real resolver and compared node by node with the spec's expectation")

CFG = """INIT Init
NEXT Next
CONSTANTS
  Plans <- MCPlans
  SelFixed = %(selfixed)s
  Seed = %(seed)d
  WithNeg = %(neg)s
INVARIANTS TypeOK BRefinesA OrderIndependent Terminates%(extra_inv)s Emit
CHECK_DEADLOCK FALSE
"""

MC = """---------------------------- MODULE MC_ResolveGen ----------------------------
EXTENDS ResolveGen
MCPlans == {%s}
=============================================================================
"""


def q(xs):
    return "{" + ", ".join('"%s"' % x for x in xs) + "}"


def plan(files, schemes, chain, dkinds, rmode, secper, perm):
    return ('[files |-> %d, schemes |-> %s, chain |-> %d, dkinds |-> %s, rmode |-> "%s", secper |-> %d, perm |-> "%s"]'
            % (files, q(schemes), chain, q(dkinds), rmode, secper, perm))


ALLK = ["enum", "struct", "union", "exception", "i32", "string", "list", "map"]

# each entry is one TLC run: (plans, with the hand-written programs, also check the denotation table against the definitions)
TIERS = {
    # ~3.3k cases (base programs + permutations)
    "quick": [
        ([plan(4, ["std"], 2, ["enum"], "main", 1, "rev"),
          plan(3, ["same23", "dotted"], 2, ["enum", "struct"], "main", 1, "rev"),
          plan(2, ["std"], 4, ["enum", "union", "exception", "i32", "list", "map"], "all", 1, "light")], True, False),
    ],
    # ~23k cases
    "thorough": [
        ([plan(4, ["std"], 3, ["enum", "struct"], "main", 1, "light")], True, True),
        ([plan(4, ["same23", "same34", "dotted"], 2, ["enum"], "main", 1, "rev"),
          plan(4, ["std"], 4, ["enum"], "main", 1, "rev")], False, False),
        ([plan(3, ["std"], 4, ALLK, "all", 1, "light"),
          plan(2, ["std"], 3, ["enum", "exception", "map"], "all", 2, "full")], False, False),
    ],
}


# ------------------------------------------------------------------------------------------ TLA program -> lib/idl.py
def conv_type(t):
    n = t["n"]
    if n in ("list", "set"):
        return {"n": n, "v": conv_type(t["v"])}
    if n == "map":
        return {"n": "map", "k": conv_type(t["k"]), "v": conv_type(t["v"])}
    if n == "ref":
        return {"n": (t["pre"] + "." if t["pre"] else "") + t["name"]}
    return {"n": n}


def conv_val(v):
    t = v["t"]
    if t == "int":
        return {"i": v["i"]}
    if t == "id":
        return {"id": ".".join(v["segs"])}
    if t == "str":
        return {"s": v["s"]}
    if t == "list":
        return {"l": [conv_val(x) for x in v["xs"]]}
    if t == "map":
        return {"m": [[conv_val(kv[0]), conv_val(kv[1])] for kv in v["kvs"]]}
    raise ValueError("value %r" % (v,))


def conv_field(i, f):
    dv = f.get("dv", {"t": "none"})
    return idl.F(i, "default", conv_type(f["ty"]), f["name"], None if dv["t"] == "none" else conv_val(dv))


def conv_def(d):
    k = d["k"]
    if k == "typedef":
        return {"k": k, "name": d["name"], "type": conv_type(d["ty"])}
    if k == "const":
        return {"k": k, "name": d["name"], "type": conv_type(d["ty"]), "value": conv_val(d["val"])}
    if k == "enum":
        return {"k": k, "name": d["name"], "values": [{"name": v, "value": None} for v in d["vals"]]}
    if k in ("struct", "union", "exception"):
        return {"k": k, "name": d["name"], "fields": [conv_field(i + 1, f) for i, f in enumerate(d["fields"])]}
    if k == "service":
        ext = d["ext"]
        fns = []
        for fn in d["fns"]:
            fns.append({"name": fn["name"], "oneway": False,
                        "ret": None if fn["ret"]["n"] == "none" else conv_type(fn["ret"]),
                        "args": [conv_field(i + 1, a) for i, a in enumerate(fn["args"])],
                        "throws": [conv_field(i + 1, a) for i, a in enumerate(fn["throws"])] if fn["throws"] else None})
        return {"k": k, "name": d["name"],
                "extends": None if ext["n"] == "none" else (ext["pre"] + "." if ext["pre"] else "") + ext["name"],
                "functions": fns}
    raise ValueError("def kind %r" % k)


def render(prog, ord_=None):
    """TLA program (+ optional per-file permutation of the definitions) -> {relative path: text}"""
    paths = [f["path"] for f in prog["files"]]
    out = {}
    for fi, f in enumerate(prog["files"]):
        defs = f["defs"]
        if ord_ is not None:
            defs = [defs[j - 1] for j in ord_[fi]]
        jf = {"path": f["path"], "includes": [paths[g - 1] for g in f["incs"]], "defs": [conv_def(d) for d in defs]}
        out[f["path"]] = idl.render_file(jf)
    return out


# ------------------------------------------------------------------------------------------ comparison with layer A
def ref_of(n):
    r = n.get("ref")
    return {"name": "", "idx": -1} if r is None else {"name": r["name"], "idx": r["idx"]}


def extra_in(x, al):
    for a in al:
        if a["isEnum"] == x["isEnum"] and a["idx"] == x["idx"] and a["name"] == x["name"] and \
                (a["sel"] == "*" or a["sel"] == x["sel"]):
            return True
    return False


def judge(prog, exp, obs):
    """problems of one successful observation against layer A: list of (class-kind, key, observed, allowed)"""
    nodes = obs["nodes"]
    bad = []
    seen = set()
    by_file_idx = {}          # file path -> set of include positions (1-based) some observed binding goes through
    def note_idx(key, idx):
        if idx is not None and idx >= 0:
            by_file_idx.setdefault(key.split("|", 1)[0], set()).add(idx + 1)
    for n in exp["types"]:
        key = n["key"]
        seen.add(key)
        o = nodes.get(key)
        if o is None or o["k"] != "type":
            bad.append(("missing-node", key, None, n["al"]))
            continue
        rec = {"cat": o["cat"], "td": o["td"], "ref": ref_of(o)}
        note_idx(key, rec["ref"]["idx"])
        if rec not in n["al"]:
            al = n["al"]
            if not al:
                kind = "bound-a-name-that-denotes-nothing"
            elif all(a["cat"] != rec["cat"] for a in al):
                kind = "category"
            elif all(a["td"] != rec["td"] for a in al):
                kind = "is-typedef"
            else:
                kind = "reference"
            bad.append(("type:" + kind, key, rec, al))
        elif "dr" in n and o.get("deref") is not None:
            d = o["deref"]
            if d.get("err") or {"file": d["file"], "name": d["name"], "cat": d["cat"]} not in n["dr"]:
                bad.append(("deref:" + ("error" if d.get("err") else "wrong-definition"), key, d, n["dr"]))
    for n in exp["ids"]:
        key = n["key"]
        seen.add(key)
        o = nodes.get(key)
        if o is None or o["k"] != "value":
            bad.append(("missing-node", key, None, n["al"]))
            continue
        x = o.get("extra")
        if x is None:
            bad.append(("value:unbound", key, None, n["al"]))
            continue
        note_idx(key, x["idx"])
        if not extra_in(x, n["al"]):
            fpath = key.split("|", 1)[0]
            n2c = obs.get("n2c", {}).get(fpath, {})
            if not n["al"]:
                kind = "bound-a-name-that-denotes-nothing"
            elif x["isEnum"] and x["idx"] >= 0 and n2c.get(x["sel"]) == "Typedef":
                kind = "enum-through-local-typedef-of-included-enum"
            elif all(a["isEnum"] != x["isEnum"] for a in n["al"]):
                kind = "is-enum"
            elif all(a["idx"] != x["idx"] for a in n["al"]):
                kind = "index"
            else:
                kind = "selector"
            bad.append(("value:" + kind, key, x, n["al"]))
    for n in exp["exts"]:
        key = n["key"]
        seen.add(key)
        o = nodes.get(key)
        if o is None or o["k"] != "extends":
            bad.append(("missing-node", key, None, n["al"]))
            continue
        r = ref_of(o)
        note_idx(key, r["idx"])
        if r not in n["al"]:
            bad.append(("extends:" + ("bound-a-name-that-denotes-nothing" if not n["al"] else "reference"), key, r, n["al"]))
    for key, o in nodes.items():
        if o["k"] == "value" and o.get("ident") in ("true", "false") and o.get("extra") is None:
            continue          # literals, not references
        if o["k"] in ("type", "value", "extends") and key not in seen:
            bad.append(("unexpected-node", key, o, None))
    # includes
    for fi, f in enumerate(prog["files"]):
        u = exp["used"][fi]
        for j in range(1, len(f["incs"]) + 1):
            o = nodes.get("%s|inc:%d" % (f["path"], j - 1))
            if o is None:
                if f["path"] in obs.get("files", []):
                    bad.append(("missing-node", "%s|inc:%d" % (f["path"], j - 1), None, None))
                continue
            through = j in by_file_idx.get(f["path"], set())
            want = True if j in u["must"] else (False if j not in u["may"] else through)
            if bool(o["used"]) != want:
                bad.append(("used:" + ("not-marked" if want else "marked-but-unreferenced"),
                            "%s|inc:%d" % (f["path"], j - 1), o["used"], {"must": u["must"], "may": u["may"], "through": through}))
    return bad


def side_checks(prog, exp, obs):
    """grown beyond the statement's clauses: Name2Category, union members optional, resolving twice changes nothing"""
    bad = []
    for fi, f in enumerate(prog["files"]):
        want = exp.get("n2c", [None] * len(prog["files"]))[fi]
        if want is None or f["path"] not in obs.get("n2c", {}):
            continue
        if isinstance(want, list):      # an empty function is serialized as []
            want = {}
        if obs["n2c"][f["path"]] != want:
            bad.append(("n2c:name-to-category", f["path"], obs["n2c"][f["path"]], want))
    for k, v in (obs.get("reqs") or {}).items():
        if v != "Optional":
            bad.append(("union:member-not-optional", k, v, "Optional"))
    if obs.get("again") not in (None, "same"):
        bad.append(("again:second-ResolveSymbols-call", prog["files"][0]["path"], obs.get("again"), "same"))
    return bad


def b_projection(b):
    """layer B's final state in the shape of the harness projection (types / values / extends / used pairs)"""
    return ({e["key"]: e["r"] for e in b["ty"]}, {e["key"]: e["r"] for e in b["ex"]},
            {e["key"]: e["r"] for e in b["sref"]}, {(u[0], u[1]) for u in b["used"]})


def b_vs_real(prog, b, obs):
    """number of nodes at which the transcription (B) and the real code differ"""
    ty, ex, sref, used = b_projection(b)
    d = 0
    for key, o in obs["nodes"].items():
        if o["k"] == "type":
            r = ty.get(key)
            if r is None or r != {"cat": o["cat"], "td": o["td"], "ref": ref_of(o)}:
                d += 1
        elif o["k"] == "value":
            if o.get("extra") is None:
                d += key in ex
            elif ex.get(key) != o["extra"]:
                d += 1
        elif o["k"] == "extends":
            if sref.get(key, {"name": "", "idx": -1}) != ref_of(o):
                d += 1
    for fi, f in enumerate(prog["files"]):
        for j in range(1, len(f["incs"]) + 1):
            o = obs["nodes"].get("%s|inc:%d" % (f["path"], j - 1))
            if o is not None and bool(o["used"]) != ((fi + 1, j) in used):
                d += 1
    return d


# ------------------------------------------------------------------------------------------ harness
def run_harness(ctx, harness, rows, tag):
    """rows: [{id, main, files}] -> observations in order; a crash of the process is pinned on one case (stage crash)"""
    def go(sub, depth):
        inf = ctx.path("h-%s-%d-%d.in" % (tag, depth, sub[0]["id"]))
        outf = inf[:-3] + ".out"
        vlib.write_ndjson(inf, sub)
        p = ctx.run([harness, "resolve", inf, outf], timeout=1800, check=False)
        if p.returncode == 0:
            res = vlib.read_ndjson(outf)
            os.remove(inf)
            os.remove(outf)
            if len(res) != len(sub):
                raise vlib.MachineryError("harness returned %d observations for %d cases" % (len(res), len(sub)))
            return res
        if "fatal error" not in p.stderr and "goroutine" not in p.stderr and "signal" not in p.stderr:
            raise vlib.MachineryError("harness failed: %s" % p.stderr[-2000:])
        if len(sub) == 1:
            return [{"id": sub[0]["id"], "stage": "crash", "err": p.stderr[:600]}]
        h = len(sub) // 2
        return go(sub[:h], depth + 1) + go(sub[h:], depth + 1)
    out = []
    CH = 4000
    for off in range(0, len(rows), CH):
        out += go(rows[off:off + CH], 0)
    return out


# ------------------------------------------------------------------------------------------ classes
def crossings(meta):
    loc = [meta["R"]] + list(meta["loc"])
    return sum(1 for a, b in zip(loc, loc[1:]) if a != b)


def case_class(meta, perm, status):
    if meta["fam"] == "hand":
        return "hand:%s perm=%s" % (meta["name"], perm.split(":")[0])
    sec = meta["sec"]
    return "nf=%d e=%d %s R=%d k=%d %s x=%d decoy=%d pfx=%s svc=%s ord=%s kr=%d perm=%s %s" % (
        meta["nf"], len(meta["E"]), meta["scheme"], meta["R"], meta["k"], meta["dk"], crossings(meta),
        int(sec["decoy"]), sec["pfx"], sec["svc"], sec["ord"], int(sec["kr"]), perm.split(":")[0] + ":" + perm.split(":")[-1], status)


def obs_key(obs):
    """what must be equal for all permutations of one program"""
    return json.dumps({"stage": "ok" if obs["stage"] == "ok" else "rejected", "nodes": obs.get("nodes"), "n2c": obs.get("n2c"), "reqs": obs.get("reqs")},
                      sort_keys=True)


# ------------------------------------------------------------------------------------------ the check
DEF_DEFAULTS = {"ty": {"n": "none"}, "val": {"t": "none"}, "vals": [], "fields": [], "ext": {"n": "none"}, "fns": []}


def full_prog(prog):
    """the emitted program has per-kind definition records; the operators of Resolve.tla want the uniform shape"""
    return {"files": [dict(f, defs=[dict(DEF_DEFAULTS, **d) for d in f["defs"]]) for f in prog["files"]]}


def trace_row(prog, o):
    """one line of traces.ndjson for spec/Resolve/Trace_Resolve.tla"""
    prog = full_prog(prog)
    types, ids, exts, used = {}, {}, {}, {}
    for key, n in o["nodes"].items():
        if n["k"] == "type":
            d = n.get("deref") or {}
            types[key] = {"cat": n["cat"], "td": n["td"], "ref": ref_of(n),
                          "dr": {"file": d.get("file", ""), "name": d.get("name", ""), "cat": "ERR" if d.get("err") else d.get("cat", "")}}
        elif n["k"] == "value":
            if n.get("extra") is not None:
                ids[key] = n["extra"]
        elif n["k"] == "extends":
            exts[key] = ref_of(n)
        elif n["k"] == "include":
            used[key] = bool(n["used"])
    return {"prog": prog, "types": types, "ids": ids, "exts": exts, "used": used}


def tlc_validate(ctx, rows, verdicts, tag):
    """TLC judges real observations with the recursive definitions of layer A; must agree with the comparison done here"""
    CH = 400
    offs = list(range(0, len(rows), CH))
    if len(offs) > 1 and len(rows) - offs[-1] < CH // 2:      # no tiny last chunk (a JVM start costs more than the traces)
        offs.pop()
    for n, off in enumerate(offs):
        chunk = rows[off:(offs[n + 1] if n + 1 < len(offs) else len(rows))]
        f = ctx.path("traces-%s-%d.ndjson" % (tag, off))
        vlib.write_ndjson(f, chunk)
        r = ctx.tlc("Resolve", "Trace_Resolve", "Trace_Resolve", files={"traces.ndjson": f}, timeout=7000,
                    label="Trace_Resolve[%s+%d]" % (tag, off))
        acc = {int(x[4:]) - 1 for x in r["lines"] if x.startswith("ACC ")}
        os.remove(f)
        for i in range(len(chunk)):
            if (i in acc) != verdicts[off + i]:
                raise vlib.MachineryError(
                    "TLC (Trace_Resolve, definitions of layer A) %s an observation that the comparison with the emitted "
                    "expectation %s: %s" % ("accepts" if i in acc else "rejects", "rejects" if i in acc else "accepts",
                                            json.dumps(chunk[i])[:1500]))
        ctx.traces_validated += len(chunk)


def evaluate(ctx, harness, cases, tag, stats, sample_p):
    rng = random.Random(ctx.seed * 7919 + len(cases))
    trows, tverd = [], []
    bases = {}
    for c in cases:
        if c["perm"] == "id":
            bases[json.dumps(c["meta"], sort_keys=True)] = c
    rows = []
    index = []
    for c in cases:
        base = bases.get(json.dumps(c["meta"], sort_keys=True))
        if base is None:
            raise vlib.MachineryError("permutation case without its base case: %r" % (c["meta"],))
        files = render(base["prog"], None if c["perm"] == "id" else c["ord"])
        rows.append({"id": len(rows), "main": base["prog"]["files"][0]["path"], "files": files})
        index.append((c, base))
    obs = run_harness(ctx, harness, rows, tag)
    base_obs = {}
    for (c, base), o in zip(index, obs):
        if c["perm"] == "id":
            base_obs[json.dumps(c["meta"], sort_keys=True)] = o
    for (c, base), o, row in zip(index, obs, rows):
        meta, status, exp, prog = c["meta"], base["status"], base["exp"], base["prog"]
        cls = case_class(meta, c["perm"], status)
        ctx.count(1, cls)
        stats["cases"] += 1
        stats["nodes"] += len(exp["types"]) + len(exp["ids"]) + len(exp["exts"])
        rerun = {"files": row["files"], "main": row["main"]}
        casedesc = {"meta": meta, "perm": c["perm"], "files": row["files"], "main": row["main"], "status": status}
        if c["perm"] != "id":
            casedesc["identity_files"] = render(prog)
        if o["stage"] in ("panic", "timeout", "crash", "harness"):
            if o["stage"] == "harness":
                raise vlib.MachineryError("harness could not materialize a case: %s" % o.get("err"))
            if status == "unique":
                ctx.violation({"check": "C05.total", "kind": o["stage"]}, casedesc, {"stage": o["stage"], "err": o.get("err", "")[:800]},
                              "resolution completes", "front end %s on a program in which every name denotes exactly one "
                              "definition" % o["stage"], rerun)
            else:
                stats["abnormal-on-" + status] += 1
                stats.setdefault("examples", {}).setdefault("abnormal-on-" + status, {"meta": meta, "stage": o["stage"], "err": o.get("err", "")[:300]})
            continue
        if o["stage"] != "ok":
            # the real front end rejects
            if status == "unique":
                stats["accepts:real-rejects-what-A-accepts"] += 1
                ek = "accepts" if "accepts" not in stats.get("examples", {}) else "accepts: " + o.get("err", "")[:48]
                stats.setdefault("examples", {}).setdefault(ek, {"meta": meta, "perm": c["perm"], "stage": o["stage"],
                                                                 "err": o.get("err", "")[:300], "files": row["files"]})
            else:
                stats["rejected-" + status] += 1
            # order independence also covers rejection
            bo = base_obs[json.dumps(meta, sort_keys=True)]
            if c["perm"] != "id" and (bo["stage"] == "ok"):
                ctx.violation({"check": "C05.order", "kind": "accepted-in-one-order-rejected-in-another"}, casedesc,
                              {"stage": o["stage"], "err": o.get("err", "")[:500]}, "same outcome as the identity order (ok)",
                              "the outcome depends on the order of the definitions", rerun)
            continue
        stats["resolved-" + status] += 1
        bad = judge(prog, exp, o)
        bad += side_checks(prog, exp, o)
        mach = [b for b in bad if b[0] in ("missing-node", "unexpected-node")]
        if mach:
            raise vlib.MachineryError("node keys of the harness and of the spec disagree (%s): %r in %s" % (
                tag, mach[:3], json.dumps(casedesc)[:1500]))
        if c["perm"] == "id":
            stats["b_nodes_differ"] += b_vs_real(prog, base["b"], o) if base["b"]["err"] == "" else 0
            bbad = set(base["b"]["bad"])
            rbad = {b[1] for b in bad}
            stats["b_candidates"] += len(bbad)
            stats["b_candidates_reproduced"] += len(bbad & rbad)
        core_bad = [b for b in bad if b[0].split(":")[0] in ("type", "value", "extends", "used", "deref")]
        if (core_bad and sum(1 for v in tverd if not v) < 60) or rng.random() < sample_p:
            trows.append(trace_row(prog, o))
            tverd.append(not core_bad)
        kinds = {}
        for kind, key, got, al in bad:
            kinds.setdefault(kind, []).append((key, got, al))
        for kind, items in kinds.items():
            key, got, al = items[0]
            ctx.violation({"check": "C05." + kind.split(":")[0], "kind": kind.split(":", 1)[-1]}, casedesc,
                          {"key": key, "stored": got, "other_keys": [i[0] for i in items[1:8]]},
                          {"allowed_by_layer_A": al},
                          "%s: node %s carries %s" % (kind, key, json.dumps(got, sort_keys=True)), rerun)
        if c["perm"] != "id":
            bo = base_obs[json.dumps(meta, sort_keys=True)]
            if obs_key(bo) != obs_key(o):
                diff = []
                if bo["stage"] == "ok":
                    for k in sorted(set(bo["nodes"]) | set(o["nodes"])):
                        if bo["nodes"].get(k) != o["nodes"].get(k):
                            diff.append({"key": k, "identity": bo["nodes"].get(k), "permuted": o["nodes"].get(k)})
                ctx.violation({"check": "C05.order", "kind": "resolution-differs-between-orders"}, casedesc,
                              {"differences": diff[:6], "identity_stage": bo["stage"]}, "the projection of the identity order",
                              "the resolution state depends on the order of the definitions", rerun)
        if len(ctx.samples) < 3 and c["perm"] == "id" and meta["fam"] == "gen" and meta["k"] >= 2 and crossings(meta) >= 2:
            k0 = exp["ids"][0]["key"] if exp["ids"] else exp["types"][0]["key"]
            ctx.sample({"meta": meta, "main_file": row["files"][row["main"]], "node": k0, "stored": o["nodes"].get(k0),
                        "allowed": (exp["ids"][0] if exp["ids"] else exp["types"][0])["al"]})
    tlc_validate(ctx, trows, tverd, tag)


def vacuity(cases):
    need = {
        "diamond include DAG": lambda c: c["meta"]["fam"] == "gen" and c["meta"]["nf"] == 4 and
        {(1, 2), (1, 3), (2, 4), (3, 4)} <= {tuple(e) for e in c["meta"]["E"]},
        "include chain of 3": lambda c: c["meta"]["fam"] == "gen" and {(1, 2), (2, 3)} <= {tuple(e) for e in c["meta"]["E"]},
        "same base name in two directories": lambda c: c["meta"].get("scheme") in ("same23", "same34"),
        "typedef chain crossing two includes": lambda c: c["meta"]["fam"] == "gen" and c["meta"]["k"] >= 2 and crossings(c["meta"]) >= 2,
        "definition named like an include prefix": lambda c: c["meta"]["fam"] == "gen" and c["meta"]["sec"]["pfx"] != "none",
        "permutation": lambda c: c["perm"] != "id",
        "ambiguous program": lambda c: c.get("status") == "ambiguous",
        "program layer A rejects": lambda c: c.get("status") == "undefined",
        "base service in an include": lambda c: c["ext_inc"],
        "enum value bound through an include": lambda c: c["enum_inc"],
    }
    missing = [k for k, fn in need.items() if not any(fn(c) for c in cases)]
    if missing:
        raise vlib.MachineryError("vacuous universe, no case with: " + "; ".join(missing))
    steps = {}
    for c in cases:
        k = json.dumps(c["meta"], sort_keys=True)
        steps.setdefault(k, set()).add(c["steps"])
    if not any(len(v) > 1 for v in steps.values()):
        raise vlib.MachineryError("vacuous universe: no program whose permutations need a different number of typedef rounds")


class D(dict):
    def __missing__(self, k):
        return 0


def stored_record(o, chk=None):
    if o is None:
        return None
    if chk == "C05.deref":
        return o.get("deref")
    if o["k"] == "value":
        return o.get("extra")
    if o["k"] == "type":
        return {"cat": o["cat"], "td": o["td"], "ref": ref_of(o)}
    if o["k"] == "extends":
        return ref_of(o)
    return o.get("used")


def replay(ctx, harness, rp):
    """self-contained: re-runs the program of the replay file and re-applies the recorded expectation of layer A"""
    case = rp["case"]
    rows = [{"id": 0, "main": case["main"], "files": case["files"]}]
    if case.get("identity_files"):
        rows.append({"id": 1, "main": case["main"], "files": case["identity_files"]})
    obs = run_harness(ctx, harness, rows, "replay")
    o = obs[0]
    ctx.count(1, "replay")
    chk = rp["class"]["check"]
    again = False
    if chk == "C05.total":
        again = o["stage"] in ("panic", "timeout", "crash")
    elif chk == "C05.order":
        again = obs_key(o) != obs_key(obs[1])
    elif o["stage"] == "ok":
        key = rp["observed"]["key"]
        got = stored_record(o["nodes"].get(key), chk)
        al = rp["expected"]["allowed_by_layer_A"]
        if chk == "C05.value":
            again = got is None or not extra_in(got, al)
        elif chk == "C05.used":
            again = got == rp["observed"]["stored"]
        elif chk == "C05.deref":
            again = got is None or bool(got.get("err")) or {"file": got["file"], "name": got["name"], "cat": got["cat"]} not in al
        elif chk == "C05.n2c":
            again = o.get("n2c", {}).get(key) != al
        elif chk == "C05.union":
            again = (o.get("reqs") or {}).get(key) != "Optional"
        elif chk == "C05.again":
            again = o.get("again") != "same"
        else:
            again = got not in al
        print(json.dumps({"key": key, "stored_now": got, "allowed": al}, sort_keys=True))
    if again:
        ctx.violation(rp["class"], case, rp["observed"], rp["expected"], rp["what"], rp.get("rerun"))
    return ctx.finish("replay of one program")


def generate(ctx, cfg, mc, label):
    """TLC run of the generator.  With VERIF_C05_CACHE=1 (development aid for repeated runs against mutants; the
    generation does not depend on /repo) the emitted cases are kept in /verif/.tlacache keyed by the spec text."""
    cache = None
    if os.environ.get("VERIF_C05_CACHE"):
        import gzip
        import hashlib
        h = hashlib.sha1()
        d = os.path.join(vlib.VERIF, "spec", "Resolve")
        for f in sorted(os.listdir(d)):
            if f.endswith(".tla"):
                h.update(open(os.path.join(d, f), "rb").read())
        h.update((cfg + mc).encode())
        os.makedirs(os.path.join(vlib.VERIF, ".tlacache"), exist_ok=True)
        cache = os.path.join(vlib.VERIF, ".tlacache", "c05-%s.json.gz" % h.hexdigest()[:16])
        if os.path.exists(cache):
            with gzip.open(cache, "rt") as fh:
                data = json.load(fh)
            ctx.states += data["distinct"]
            ctx.transitions += data["generated"]
            ctx.tlc_runs.append({"label": label + " (cached)", "generated": data["generated"], "distinct": data["distinct"],
                                 "depth": data.get("depth"), "wall_s": 0, "ok": True, "violated": None})
            vlib.log("TLC %s: cached, %d cases" % (label, len(data["cases"])))
            return data["cases"]
    r = ctx.tlc("Resolve", "MC_ResolveGen", "gen.cfg", files={"gen.cfg": cfg, "MC_ResolveGen.tla": mc}, timeout=14000, label=label)
    cases = ctx.tlc_cases(r)
    if cache:
        import gzip
        with gzip.open(cache, "wt") as fh:
            json.dump({"cases": cases, "generated": r.get("generated", 0), "distinct": r.get("distinct", 0), "depth": r.get("depth")}, fh)
    r.clear()
    return cases


def run(ctx, args):
    harness = ctx.build_harness("inproc")
    stats = D()
    if args.replay:
        text = _PRELOADED.get(os.path.abspath(args.replay))
        if text is None:
            with open(args.replay) as fh:
                text = fh.read()
        rp = json.loads(text)
        if rp.get("class", {}).get("check") == "C05.include":
            return c05_include.replay(ctx, harness, rp)
        return replay(ctx, harness, rp)
    # which getEnum does the code under test have?  (layer B transcribes either; verdicts never depend on B)
    probe = run_harness(ctx, harness, [{"id": 0, "main": "m.thrift", "files": {
        "m.thrift": 'include "a.thrift"\ntypedef a.E LE\nconst LE K = LE.V1\n', "a.thrift": "enum E {\nV1,\nV2,\n}\n"}}], "probe")[0]
    px = ((probe.get("nodes") or {}).get("m.thrift|const:K|value") or {}).get("extra") or {}
    selfixed = not (px.get("idx") == 0 and px.get("sel") == "LE")
    ctx.notes.append("layer B transcribes the %s getEnum (probe: %s)" % ("fixed" if selfixed else "pinned", json.dumps(px, sort_keys=True)))
    seen_for_vacuity = []
    for k, (plans, neg, symcheck) in enumerate(TIERS[ctx.tier]):
        cfg = CFG % dict(seed=ctx.seed, neg="TRUE" if neg else "FALSE", extra_inv=" TableAgrees" if symcheck else "",
                         selfixed="TRUE" if selfixed else "FALSE")
        cases = generate(ctx, cfg, MC % ", ".join(plans), "ResolveGen[%d]" % k)
        if not cases:
            raise vlib.MachineryError("TLC emitted no cases")
        for c in cases:      # what the vacuity test needs, without keeping the programs
            seen_for_vacuity.append({"meta": c["meta"], "perm": c["perm"], "status": c.get("status"),
                                     "steps": c["b"]["steps"] if c["perm"] == "id" else c["steps"],
                                     "ext_inc": c["perm"] == "id" and any(n["al"] and n["al"][0]["idx"] >= 0 for n in c["exp"]["exts"]),
                                     "enum_inc": c["perm"] == "id" and any(
                                         any(a["isEnum"] and a["idx"] >= 0 for a in n["al"]) for n in c["exp"]["ids"])})
        evaluate(ctx, harness, cases, "u%d" % k, stats, 0.05 if ctx.tier == "quick" else 0.03)
        del cases
    vacuity(seen_for_vacuity)
    # include binding: which file an include text denotes (spec/Include), upstream of every cross-file reference
    n_inc = c05_include.phase(ctx, harness, 1500 if ctx.tier == "quick" else 40000)
    ctx.notes.append("include phase: %d directory-tree cases, layer B (parseFileRecursively/searchCircle) => layer A checked "
                     "by TLC on each, real ParseFile/ParseBatchString/CircleDetect judged by Include.tla ObsOK" % n_inc)
    ex = stats.pop("examples", {})
    ctx.extra_cov["c05"] = {k: v for k, v in stats.items()}
    ctx.notes.append("sub-check accepts (programs layer A accepts, every name denoting exactly one definition, that the real "
                     "front end rejects; not C05 violations): %d%s" % (
                         stats["accepts:real-rejects-what-A-accepts"], (" e.g. " + json.dumps(ex["accepts"])[:900]) if "accepts" in ex else ""))
    ctx.notes.append("layer B vs real code: %d node(s) differ over all base programs; B => A candidates: %d node(s), "
                     "reproduced on the real code: %d" % (stats["b_nodes_differ"], stats["b_candidates"], stats["b_candidates_reproduced"]))
    for k2, v in sorted(ex.items())[:12]:
        if k2 != "accepts":
            ctx.notes.append("%s: e.g. %s" % (k2, json.dumps(v)[:700]))
    ctx.exhaustive = True
    return ctx.finish(
        rule="programs = every (include DAG, naming scheme, chain length, final kind, placement of the chain over the files, "
             "reference file) of the tier's bounds (checks/c05.py TIERS) x SecPer rotating combinations of (decoys, "
             "prefix-named definition, base service location, include order) x permutations of the definitions (reverse; "
             "every permutation of <= 4 same-kind definitions in light/full mode) + hand-written programs; each run through "
             "the real front end; every reference node compared with the set layer A allows; permutations compared with the "
             "identity order. distinct class = (layout, scheme, R, k, final kind, crossings, secondary combination, "
             "permutation kind, layer-A status)",
        assumptions=["the binding record of an identifier value is correct iff it designates the named value: file by Index "
                     "(-1 = the file itself), there the constant Name, or the value Name of the enum that the type name Sel "
                     "denotes through typedefs; Sel of a constant binding is not constrained",
                     "where the IDL is ambiguous (same base name twice, enum value vs included constant) any candidate and a "
                     "rejection are allowed",
                     "programs are rendered in one layout (lib/idl.py default); comments, annotations, namespaces are absent"],
        trusted=["TLC", "lib/idl.py (rendering)", "harness/cmd/inproc/resolve.go (projection of the AST to node records)"])
