"""C06 — constants and default values in Go equal the values written in the IDL.

Spec: spec/Consts/Consts.tla (declarative evaluator Eval of an initializer by the IDL's own rules; abstract machine of a
generated struct object: New / zero / InitDefault / Set observed through fields, getters, IsSet),
spec/Consts/ConstsGen.tla (universe: type shape x way of writing the value, for constants and field defaults; design-level
invariants), spec/IDL/Shapes.tla (type shapes).
Flow: TLC enumerates the shapes, then the cases (definitions + expectation computed by Eval / the object machine);
Python only concatenates the definitions of the cases into programs, renders them, runs thriftgo (built from /repo)
under the representation options, compiles the generated packages with generated accessor closures and the reflective
driver (harness/pkg/drv + pkg/c06), runs one scenario per constant and one trace per struct and compares the dumps
(model VALUE JSON) with TLC's expectation.
"""
import copy
import json
import os
import random
import re

import c06_model as model
import genlab
import idl
import schema as schemalib
import universe
import vlib

LEVEL = "model_checking"


def _layout_for(cid):
    """the value a program denotes must not depend on the layout of the IDL text: programs are rendered under a
    layout chosen from lib/idl.py LAYOUTS by a hash of the case id (default, TAB after every number/literal, CRLF)"""
    import idl
    h = sum(ord(ch) for ch in str(cid))
    return idl.LAYOUTS[h % len(idl.LAYOUTS)]


REGISTRY = dict(
    level="model_checking",
    text="The meaning of an IDL initializer is an explicit TLA+ evaluator (name resolution through typedef chains, includes, "
         "enum members with implicit numbering, constants referring to constants, container and struct literals with the "
         "defaults of unmentioned fields) and the generated struct object is a small TLA+ machine (NewX, zero, InitDefault, "
         "Set, observed through fields / getters / IsSet). TLC enumerates type shape x way of writing x constant / field "
         "default, checks the spec against itself and computes the expected value of every case; every generated constant, "
         "variable, constructor, getter and IsSet of the compiled generated code is dumped and compared, under the "
         "representation options (enum_as_int_32, value_type_in_container, use_type_alias=false, naming styles).",
    design_ref="DESIGN.md 6 C06",
    note="Trusted: the literal spelling -> atom table (lib/c06_model.py: integers, doubles, the documented string-literal rule "
         "over an unambiguous alphabet), harness pkg/drv + pkg/c06 (projection Go value -> model value), go toolchain, TLC. "
         "Bounded: type shapes to depth 1 (thorough: 2) over 12 leaf kinds (quick: 4 of the 7 map key kinds); 2-4 spellings per way.",
    technique="TLA+ declarative evaluator + object machine; TLC-generated cases with computed expectations; replay into "
              "compiled generated code")

CONFIGS = [
    ("default", []),
    ("enum32", ["enum_as_int_32", "no_fmt"]),
    ("valtype", ["value_type_in_container", "no_fmt"]),
    ("noalias", ["use_type_alias=false", "no_fmt"]),
    ("golint", ["naming_style=golint", "no_fmt"]),
    ("apache", ["naming_style=apache", "no_fmt"]),
]
CHUNK = 110          # cases per generated program


# ------------------------------------------------------------------ universe
QUICK_KEYS = ["i32", "string", "bool", "E"]      # quick tier: map keys of these kinds only, typedef'd elements for 3 ways


def gen_universe(ctx, depth, pick=None, label=None):
    quick = ctx.tier == "quick"
    shapes = universe.enumerate_shapes(ctx, depth, base=model.LEAF_KINDS, keys=QUICK_KEYS if quick else model.KEY_KINDS)
    if pick is not None:
        shapes = pick(shapes)
    data, lits, ctxprog = model.build_data(shapes)
    data["vmax"] = 3 if quick else 99
    r = ctx.tlc("Consts", "ConstsGen", "ConstsGen", files={"c06data.json": json.dumps(data)}, timeout=3000,
                label=label or "ConstsGen[d<=%d]" % depth)
    cases = ctx.tlc_cases(r)
    for c in cases:
        for k in c["consts"]:
            if model.has_undef(k["exp"]):
                raise vlib.MachineryError("case %s: the specification gives the initializer no meaning" % c["id"])
            k["exp"] = model.realize(k["exp"], lits)
            k["expnd"] = model.realize(k["expnd"], lits)
        st = c["struct"]
        st["trace"] = model.realize(st["trace"], lits)
        st["exp"] = model.realize(st["exp"], lits)
        st["expnd"] = model.realize(st["expnd"], lits)
    cases.sort(key=lambda c: (c["form"], c["way"], c["sig"], c["j"], c["q"]))
    return cases, lits, ctxprog


def leaf_kinds(sig):
    return set(re.findall(r"[A-Za-z0-9_.]+", re.sub(r"\b(list|set|map)\b", " ", sig)))


def case_class(tc, cfg):
    sig = tc["sig"]
    top = sig.split("<")[0] if "<" in sig else "leaf"
    m = re.findall(r"[A-Za-z0-9_.]+", sig)
    kway, _, vway = tc["way"].rpartition(":") if top == "map" else ("", "", tc["way"])
    return {"form": tc["form"], "top": top, "vleaf": m[-1], "depth": tc["depth"], "kway": kway, "vway": vway,
            "vwl": vway.rpartition(":")[2], "cfg": cfg}


def assemble(ctxprog, cases, lits, with_struct=lambda tc: True):
    prog = copy.deepcopy(ctxprog)
    for tc in cases:
        for d in tc["defs"]:
            kind = {"typedefs": "typedef", "consts": "const", "structs": "struct", "enums": "enum"}[d["sec"]]
            if kind == "struct" and d["d"]["name"] == tc["struct"]["name"] and not with_struct(tc):
                continue
            prog["files"][d["file"] - 1]["defs"].append(model.def_to_idl(kind, d["d"], lits))
    return prog


def prune(prog, keep):
    """drop the definitions of the context program that the definitions named in keep ({file index: names}) do not
    reach (isolated single-case programs need not carry the whole context)"""
    files = prog["files"]
    paths = [f["path"] for f in files]
    defs = [{d["name"]: d for d in f["defs"]} for f in files]

    def inc_of(fi, pre):
        for inc in files[fi].get("includes", []):
            ip = os.path.normpath(os.path.join(os.path.dirname(files[fi]["path"]), inc))
            if os.path.basename(ip)[:-len(".thrift")] == pre and ip in paths:
                return paths.index(ip)
        return None

    need = [set() for _ in files]
    todo = [(fi, n) for fi, names in keep.items() for n in names]

    def want(fi, n):
        if fi is not None and n in defs[fi] and n not in need[fi]:
            todo.append((fi, n))

    def names_of_type(fi, t):
        if t["n"] in ("list", "set"):
            names_of_type(fi, t["v"])
        elif t["n"] == "map":
            names_of_type(fi, t["k"])
            names_of_type(fi, t["v"])
        elif t["n"] not in idl.BASE:
            ps = t["n"].split(".")
            if len(ps) == 1:
                want(fi, ps[0])
            else:
                want(inc_of(fi, ps[0]), ps[1])

    def names_of_val(fi, v):
        if v is None:
            return
        if "id" in v:
            ps = v["id"].split(".")
            want(fi, ps[0])
            if len(ps) >= 2:
                want(inc_of(fi, ps[0]), ps[1])
        for x in v.get("l", []):
            names_of_val(fi, x)
        for k, x in v.get("m", []):
            names_of_val(fi, k)
            names_of_val(fi, x)

    while todo:
        fi, n = todo.pop()
        if n in need[fi] or n not in defs[fi]:
            continue
        need[fi].add(n)
        d = defs[fi][n]
        if d["k"] in ("typedef", "const"):
            names_of_type(fi, d["type"])
            names_of_val(fi, d.get("value"))
        elif d["k"] in ("struct", "union", "exception"):
            for fl in d["fields"]:
                names_of_type(fi, fl["type"])
                names_of_val(fi, fl.get("default"))
    for fi, f in enumerate(files):
        f["defs"] = [d for d in f["defs"] if d["name"] in need[fi]]
    return prog


# ------------------------------------------------------------------ generated-code inspection
def scan_go(path):
    """names of the entries of the top-level const ( ... ) / var ( ... ) blocks that have no explicit type (the constant
    template), and the struct constructors, in file order"""
    try:
        txt = open(path, encoding="utf-8", errors="replace").read()
    except OSError:
        return [], []
    names, ctors = [], []
    depth = 0
    in_block = False
    pending = None
    for ln in txt.split("\n"):
        s = ln.strip()
        if not in_block:
            if pending and s:
                # a struct-like's constructor builds a composite literal (a typedef's converts another constructor's result)
                if s.startswith("return &" + pending + "{"):
                    ctors.append(pending)
                pending = None
            if s in ("const (", "var ("):
                in_block, depth = True, 0
            else:
                m = re.match(r"func New(\w+)\(\) \*(\w+)\s*\{", s)
                if m and m.group(1) == m.group(2):
                    pending = m.group(1)
            continue
        if depth == 0:
            if s == ")":
                in_block = False
                continue
            m = re.match(r"([A-Za-z_]\w*)\s*=\s", s + " ")
            if m:
                names.append(m.group(1))
        code = re.sub(r'"(\\.|[^"\\])*"', '""', s)
        depth += code.count("(") + code.count("{") - code.count(")") - code.count("}")
    return names, ctors


def go_file(lab, c, f):
    ip = genlab.Lab.go_pkg_path(c, f)
    base = os.path.basename(f["path"])[:-len(".thrift")]
    return os.path.join(lab.root, ip[len("labmod/"):], base + ".go")


SCALAR_CONV = {"bool": "bool(%s)", "i8": "int64(%s)", "i16": "int64(%s)", "i32": "int64(%s)", "i64": "int64(%s)",
               "enum": "int64(%s)", "double": "float64(%s)", "string": "string(%s)"}


def drv_schema(prog, rs):
    structs = {}
    for f in prog["files"]:
        for d in f["defs"]:
            if d["k"] in ("struct", "union", "exception"):
                fs = []
                for fl in d["fields"]:
                    fs.append({"id": fl["id"], "req": fl["req"], "name": fl["name"], "type": rs.stype(f["path"], fl["type"]),
                               "def": schemalib.NONE})
                structs[d["name"]] = {"kind": d["k"], "fields": fs}
    return {"structs": structs, "enums": {}}


# ------------------------------------------------------------------ comparison
ZERO = {"bool": "b:0", "i8": "i8:0", "i16": "i16:0", "i32": "i32:0", "i64": "i64:0", "double": "dbl:0", "string": "str:",
        "binary": "bin:", "enum": "i32:0"}


def norm(sc, t, v):
    """normal form of a model value: nothing (nil) == zero / empty for scalars and containers (the statement says
    'zero/nil'), doubles by value, set elements and map entries sorted"""
    n = t["n"]
    if v is None:
        return {"missing": True}
    if "nil" in v:
        if n in ("list", "set"):
            return {"l": []}
        if n == "map":
            return {"m": []}
        if n == "struct":
            return {"nil": True}
        return {"a": ZERO[n]}
    if n in ("list", "set"):
        if "l" not in v:
            return {"bad": v}
        xs = [norm(sc, t["v"], x) for x in (v.get("l") or [])]
        if n == "set":
            xs.sort(key=lambda e: json.dumps(e, sort_keys=True))
        return {"l": xs}
    if n == "map":
        if "m" not in v:
            return {"bad": v}
        ents = [[norm(sc, t["k"], k), norm(sc, t["v"], x)] for k, x in (v.get("m") or [])]
        ents.sort(key=lambda e: json.dumps(e[0], sort_keys=True))
        return {"m": ents}
    if n == "struct":
        fs = v.get("s")
        if not isinstance(fs, dict):
            return {"bad": v}
        return {"s": {f["name"]: norm(sc, f["type"], fs.get(f["name"])) for f in sc["structs"][t["s"]]["fields"]}}
    a = v.get("a")
    if isinstance(a, str) and a.startswith("dbl:"):
        try:
            return {"a": "dbl:" + repr(float(a[4:]))}
        except ValueError:
            return v
    return v


def first_diff(e, o, path=""):
    if type(e) != type(o):
        return path or "."
    if isinstance(e, dict):
        for k in sorted(set(e) | set(o)):
            if k not in e or k not in o:
                return "%s/%s" % (path, k)
            d = first_diff(e[k], o[k], "%s/%s" % (path, k))
            if d:
                return d
        return None
    if isinstance(e, list):
        if len(e) != len(o):
            return "%s(len %d vs %d)" % (path, len(e), len(o))
        for i, (x, y) in enumerate(zip(e, o)):
            d = first_diff(x, y, "%s[%d]" % (path, i))
            if d:
                return d
        return None
    return None if e == o else (path or ".")


# ------------------------------------------------------------------ one lab
class Unit:
    """one generated program: a chunk of cases (or a single case after isolation) under one configuration"""

    def __init__(self, cid, cases, cfg, opts, single=False, level=0):
        self.cid, self.cases, self.cfg, self.opts, self.single, self.level = cid, cases, cfg, opts, single, level
        self.prog = None
        self.ok = False


def short(s, n=1800):
    s = s or ""
    return s if len(s) <= n else s[:n // 2] + "\n...\n" + s[-n // 2:]


class Runner:
    def __init__(self, ctx, lits, ctxprog, tag):
        self.ctx, self.lits, self.ctxprog, self.tag = ctx, lits, ctxprog, tag
        self.lab = genlab.Lab(ctx, "lab-" + tag)
        self.units = {}
        self.soft = 0

    def add(self, unit):
        if unit.prog is not None:          # replay: the program is given
            self.units[unit.cid] = unit
            self.lab.add_case(unit.cid, unit.prog, unit.opts, layout=_layout_for(unit.cid))
            return
        # use_type_alias=false: the serialization code generated for fields (or container elements) whose type is a
        # typedef of a base type or struct-like does not compile (C01's business, not a statement about constants or
        # defaults); for those cases the constants are what is judged
        unit.prog = assemble(self.ctxprog, unit.cases, self.lits,
                             with_struct=lambda tc: self.with_struct(unit, tc))
        if unit.single:
            keep = {}
            for tc in unit.cases:
                for d in tc["defs"]:
                    keep.setdefault(d["file"] - 1, set()).add(d["d"]["name"])
                if not self.with_struct(unit, tc) and tc["way"] not in model.NO_STRUCT_WAYS:
                    keep.setdefault(0, set()).add("k_i32_c")      # the include stays in use without the struct
            prune(unit.prog, keep)
        self.units[unit.cid] = unit
        self.lab.add_case(unit.cid, unit.prog, unit.opts, layout=_layout_for(unit.cid))

    def with_struct(self, unit, tc):
        if tc["way"] in model.NO_STRUCT_WAYS:
            return False
        if self.ctx.tier == "quick" and tc["depth"] >= 1 and tc["form"] in ("l", "v") and tc["j"] > 3:
            return False       # quick tier: field defaults of containers for the first three ways of writing the leaves only
        return not (unit.cfg == "noalias" and (tc["form"] == "v" or (tc["form"] in ("t", "u") and tc["depth"] == 0)))

    def viol(self, check, kind, unit, tc, observed, expected, what):
        cls = dict(case_class(tc, unit.cfg), check=check, kind=kind)
        if self.ctxprog is None:
            self.ctx.violation(cls, {"id": tc["id"], "opts": unit.opts}, observed, expected, what)
            return
        prog = assemble(self.ctxprog, [tc], self.lits, with_struct=lambda x: self.with_struct(unit, x))
        keep = {}
        for d in tc["defs"]:
            keep.setdefault(d["file"] - 1, set()).add(d["d"]["name"])
        prune(prog, keep)
        self.ctx.violation(cls, {"id": tc["id"], "sig": tc["sig"], "way": tc["way"], "form": tc["form"], "opts": unit.opts,
                                 "cfg": unit.cfg, "idl": {f["path"]: idl.render_file(f) for f in prog["files"]},
                                 "prog": prog, "tc": tc},
                           observed, expected, what)

    def split(self, unit):
        """a failing program is split by class of case first (a defect usually hits a whole class), then into single cases"""
        out = []
        groups = {}
        for tc in unit.cases:
            groups.setdefault((tc["form"], tc["way"]), []).append(tc)
        if unit.level == 0 and len(groups) > 1:
            for k, g in enumerate(groups.values()):
                out.append(Unit("%sg%d" % (unit.cid, k), g, unit.cfg, unit.opts, single=len(g) == 1, level=1))
        else:
            for k, tc in enumerate(unit.cases):
                out.append(Unit("%sx%d" % (unit.cid, k), [tc], unit.cfg, unit.opts, single=True, level=2))
        for u in out:
            self.add(u)
        vlib.log("  %s failed as a whole: split into %d programs" % (unit.cid, len(out)))
        return out

    # ---- stage A: thriftgo
    def generate(self, units):
        todo = list(units)
        good = []
        while todo:
            self.lab.cases = {u.cid: self.lab.cases[u.cid] for u in todo}
            self.lab.generate()
            nxt = []
            for u in todo:
                c = self.lab.cases[u.cid]
                u.lc = c
                crashed = "runtime error" in c.stderr or "panic" in c.stderr or "goroutine " in c.stderr
                if c.rc == 0 and not crashed:
                    good.append(u)
                elif not u.single:
                    nxt += self.split(u)
                else:
                    tc = u.cases[0]
                    if tc["probe"]:
                        self.ctx.count(1, "probe rejected: " + tc["way"])
                        self.ctx.notes.append("spelling not demanded by the statement is rejected by thriftgo: %s (%s)"
                                              % (tc["way"], c.stderr.strip().split("\n")[-1][:200]))
                        continue
                    self.ctx.count(1, json.dumps(dict(case_class(tc, u.cfg), check="gen"), sort_keys=True))
                    self.viol("C06.gen", "thriftgo-panic" if crashed else "thriftgo-rejects", u, tc,
                              {"rc": c.rc, "stderr": short(c.stderr)}, "thriftgo accepts the program (exit 0) and generates code",
                              "thriftgo %s on an initializer the IDL's rules give a meaning" % ("crashes" if crashed else "fails"))
            todo = nxt
        return good

    # ---- stage B: compile the generated packages
    def write_reg(self, u):
        """accessor closures for every constant and constructor of a unit, as a package of its own"""
        rs = schemalib.Resolver(u.prog)
        imports, lines = {}, []
        u.consts, u.structs, u.api_problem = [], [], None
        for fi, f in enumerate(u.prog["files"]):
            if not any(d["k"] in ("const", "struct", "union", "exception") for d in f["defs"]):
                continue
            ip = genlab.Lab.go_pkg_path(u.lc, f)
            al = imports.setdefault(ip, "p%d" % len(imports))
            names, ctors = scan_go(go_file(self.lab, u.lc, f))
            cdefs = [d for d in f["defs"] if d["k"] == "const"]
            cats = [rs.stype(f["path"], d["type"]) for d in cdefs]
            order = [i for i, st in enumerate(cats) if st["n"] in SCALAR_CONV] + \
                    [i for i, st in enumerate(cats) if st["n"] not in SCALAR_CONV]
            if len(names) != len(cdefs):
                u.api_problem = "%s: %d constants in the IDL, %d entries in the generated const/var blocks" % (
                    f["path"], len(cdefs), len(names))
                return
            for gname, i in zip(names, order):
                d, st = cdefs[i], cats[i]
                key = "%s/%d/%s" % (u.cid, fi + 1, d["name"])
                expr = SCALAR_CONV.get(st["n"], "%s") % ("%s.%s" % (al, gname))
                lines.append('\tc06.RegisterConst("%s", func() interface{} { return %s })' % (key, expr))
                u.consts.append((key, fi + 1, d["name"], st, gname))
            sdefs = [d for k in ("struct", "union", "exception") for d in f["defs"] if d["k"] == k]
            if len(ctors) != len(sdefs):
                u.api_problem = "%s: %d structs in the IDL, %d constructors generated" % (f["path"], len(sdefs), len(ctors))
                return
            for gname, d in zip(ctors, sdefs):
                lines.append('\tdrv.Register("%s/%s", func() thrift.TStruct { return %s.New%s() })' % (u.cid, d["name"], al, gname))
                u.structs.append(d["name"])
        pk = "r" + re.sub(r"\W", "", u.cid)
        d = os.path.join(self.lab.root, "reg", u.cid)
        os.makedirs(d, exist_ok=True)
        src = ["// Code generated by /verif/checks/c06.py. DO NOT EDIT.", "package " + pk, "", "import (",
               '\t"github.com/apache/thrift/lib/go/thrift"', '\t"verifharness/pkg/c06"', '\t"verifharness/pkg/drv"']
        src += ['\t%s "%s"' % (al, ip) for ip, al in imports.items()]
        src += [")", "", "var _ = thrift.STOP", "var _ = drv.Register", "", "func Register() {", '\tc06.RegisterCase("%s")' % u.cid] + lines + ["}", ""]
        with open(os.path.join(d, "reg.go"), "w") as fh:
            fh.write("\n".join(src))
        u.reg = ("labmod/reg/%s" % u.cid, pk)

    def compile(self, units):
        todo = list(units)
        good = []
        while todo:
            for u in todo:
                self.write_reg(u)
                if u.api_problem:
                    for tc in u.cases:
                        self.viol("C06.api", "constant-or-constructor-missing", u, tc, u.api_problem,
                                  "one generated constant/variable per IDL constant, one NewX per struct", u.api_problem)
            todo = [u for u in todo if not u.api_problem]
            pkgs = ["./g/%s/..." % u.cid for u in todo] + ["./reg/%s" % u.cid for u in todo]
            bad = {}
            B = 400
            for off in range(0, len(pkgs), B):
                p = self.ctx.run(["go", "build"] + pkgs[off:off + B], cwd=self.lab.root, timeout=2400, check=False)
                out = p.stdout + p.stderr
                cur = None
                for ln in out.split("\n"):
                    m = re.match(r"# labmod/(?:g|reg)/([^/\s]+)", ln)
                    if m:
                        cur = m.group(1)
                        bad.setdefault(cur, [])
                    elif cur is not None:
                        bad[cur].append(ln)
                    elif ln.strip() and p.returncode != 0 and not bad:
                        bad.setdefault("?", []).append(ln)
                if p.returncode != 0 and not bad:
                    raise vlib.MachineryError("go build failed without naming a package:\n" + short(out, 3000))
            if "?" in bad and len(bad) == 1:
                raise vlib.MachineryError("go build failed:\n" + short("\n".join(bad["?"]), 3000))
            nxt = []
            for u in todo:
                if u.cid not in bad:
                    good.append(u)
                elif not u.single:
                    nxt += self.generate(self.split(u))
                else:
                    tc = u.cases[0]
                    if re.search(r"reg/\S+: .*(imported and not used|imported as \w+ and not used|declared and not used)",
                                 "\n".join(bad[u.cid])):
                        raise vlib.MachineryError("generated accessor package does not compile:\n" + short("\n".join(bad[u.cid])))
                    self.ctx.count(1, json.dumps(dict(case_class(tc, u.cfg), check="compile"), sort_keys=True))
                    self.viol("C06.compile", "generated-code-does-not-compile", u, tc, short("\n".join(bad[u.cid])),
                              "the generated package compiles and offers the constant", "generated constants/defaults do not compile")
            todo = nxt
        return good

    # ---- stage C: run
    def run(self, units):
        if not units:
            return
        imps = ['r%d "%s"' % (i, u.reg[0]) for i, u in enumerate(units)]
        code = "func registerExtra() {\n" + "".join("\tr%d.Register()\n" % i for i in range(len(units))) + "}\n"
        self.lab.write_driver([], extra_imports=imps, extra_code=code)
        ok, out, binary = self.lab.build()
        if not ok:
            raise vlib.MachineryError("driver build failed although every package compiles:\n" + short(out, 3000))
        scen, meta, schemas = [], [], {}
        for u in units:
            rs = schemalib.Resolver(u.prog)
            u.schema = schemas[u.cid] = drv_schema(u.prog, rs)
            by_name = {}
            for tc in u.cases:
                for k in tc["consts"]:
                    by_name[(k["file"], k["name"])] = (tc, k)
            for key, fi, name, st, gname in u.consts:
                if (fi, name) not in by_name:
                    continue      # constants of the context program are checked through the cases that refer to them
                tc, k = by_name[(fi, name)]
                scen.append({"id": len(scen), "op": "c06.const", "case": u.cid, "s": "", "x": {"key": key, "t": st}})
                meta.append(("const", u, tc, k, st))
            snames = set(u.structs)
            for tc in u.cases:
                if tc["struct"]["name"] in snames and not tc["probe"]:
                    scen.append({"id": len(scen), "op": "c06.struct", "case": u.cid, "s": tc["struct"]["name"],
                                 "x": {"trace": tc["struct"]["trace"]}})
                    meta.append(("struct", u, tc, None, {"n": "struct", "s": tc["struct"]["name"]}))
        res = self.lab.run_driver(binary, schemas, scen, self.tag)
        for r, (kind, u, tc, k, st) in zip(res, meta):
            if kind == "const":
                self.judge_const(r, u, tc, k, st)
            else:
                self.judge_struct(r, u, tc, st)

    def judge_const(self, r, u, tc, k, st):
        cls = case_class(tc, u.cfg)
        self.ctx.count(1, json.dumps(dict(cls, check="const"), sort_keys=True))
        if r.get("panic"):
            self.viol("C06.const", "panic", u, tc, short(r["panic"]), k["exp"], "reading the generated constant panics")
            return
        e, o = norm(u.schema, st, k["exp"]), norm(u.schema, st, r.get("v"))
        # the statement only says "struct literals keyed by field name": unmentioned fields may keep their declared
        # defaults (exp) or be zero (expnd); both readings are behaviours of the specification
        if e == o or norm(u.schema, st, k["expnd"]) == o:
            self.nconst = getattr(self, "nconst", 0) + 1
            if self.nconst % 577 == 100:
                self.ctx.sample({"constant": k["name"], "type": tc["sig"], "way": tc["way"], "form": tc["form"], "cfg": u.cfg,
                                 "expected": k["exp"], "observed": r.get("v")}, limit=3)
            return
        kind = "value"
        self.viol("C06.const", kind, u, tc, {"constant": k["name"], "value": r.get("v"), "go": r.get("x"),
                                             "first_difference": first_diff(e, o)},
                  {"value": k["exp"]}, "generated constant %s differs from the IDL initializer's value" % k["name"])

    def judge_struct(self, r, u, tc, st):
        cls = case_class(tc, u.cfg)
        exp, expnd = tc["struct"]["exp"], tc["struct"]["expnd"]
        obs = r.get("x") or []
        labels = [s["op"] for s in tc["struct"]["trace"]]
        if r.get("panic"):
            self.ctx.count(1, json.dumps(dict(cls, check="struct"), sort_keys=True))
            self.viol("C06.struct", "panic", u, tc, short(r["panic"]), None, "the struct-object trace panics")
            return
        if len(obs) != len(exp):
            raise vlib.MachineryError("struct trace of %s: %d observations for %d expected" % (tc["id"], len(obs), len(exp)))
        # which step produced each observation
        steps, last = [], "?"
        for s in tc["struct"]["trace"]:
            if s["op"] == "obs":
                steps.append(last)
            elif s["op"] in ("set", "mut"):
                last = s["op"] + "-" + s["f"]
            else:
                last = s["op"]
        fields = {f["name"]: f for f in u.schema["structs"][st["s"]]["fields"]}

        def deviation(e, o, step):
            """None if observation o is the one reading e prescribes, else (kind, observed, expected, what)"""
            ev, ov = norm(u.schema, st, e["v"]), norm(u.schema, st, o.get("v"))
            if ev != ov:
                return ("fields-after-" + step, {"step": step, "object": o.get("v"), "first_difference": first_diff(ev, ov)},
                        {"object": e["v"]}, "object after %s differs from the declared defaults" % step)
            for n, dem in e["getdem"].items():
                if not dem:
                    continue
                eg, og = norm(u.schema, fields[n]["type"], e["get"][n]), norm(u.schema, fields[n]["type"], o["get"].get(n))
                if eg != og:
                    return ("getter-after-" + step, {"step": step, "field": n, "getter": o["get"].get(n),
                                                     "isset": o["isset"].get(n), "object": o.get("v")},
                            {"getter": e["get"][n]}, "getter of optional field %s after %s" % (n, step))
            for n, must in e["must"].items():
                if must and o["isset"].get(n) is not True:
                    return ("isset-after-" + step, {"step": step, "field": n, "isset": o["isset"].get(n), "object": o.get("v")},
                            {"isset": True}, "optional field %s holds a value different from its default but IsSet is not true" % n)
            return None

        for i, (e, en, o, step) in enumerate(zip(exp, expnd, obs, steps)):
            self.ctx.count(1, json.dumps(dict(cls, check="struct", step=step), sort_keys=True))
            if "missing" in o:
                self.viol("C06.struct", "no-" + o["missing"], u, tc, o, None, "generated struct lacks " + o["missing"])
                return
            # two admissible readings of struct literals inside the defaults: unmentioned fields keep their declared
            # defaults (e) or are zero (en); the observation must be what one of them prescribes, as a whole
            dev = deviation(e, o, step)
            if dev and deviation(en, o, step) is None:
                dev, e = None, en
            if dev:
                self.viol("C06.struct", dev[0], u, tc, dev[1], dev[2], dev[3])
                return
            for n, must in e["must"].items():
                if not must and n in o["isset"] and o["isset"][n] != e["isset"][n]:
                    self.soft += 1          # DESIGN's IsSet rule where the statement does not demand anything
        self.ctx.traces_validated += 1       # one struct-object trace replayed into the generated code and judged
        self.nstruct = getattr(self, "nstruct", 0) + 1
        if len(obs) > 2 and self.nstruct % 397 == 50:
            self.ctx.sample({"struct": tc["struct"]["name"], "type": tc["sig"], "way": tc["way"], "cfg": u.cfg,
                             "trace": tc["struct"]["trace"][:6], "expected": exp[:3], "observed": obs[:3]}, limit=6)

    def go(self, units):
        # spellings the statement does not demand may be rejected: they get programs of their own
        units = list(units)
        for u in list(units):
            probes = [tc for tc in u.cases if tc["probe"] or tc["way"] in model.ISOLATED_WAYS]
            if probes and not u.single:
                u.cases = [tc for tc in u.cases if tc not in probes]
                for k, tc in enumerate(probes):
                    units.append(Unit("%sp%d" % (u.cid, k), [tc], u.cfg, u.opts, single=True, level=2))
        for u in units:
            self.add(u)
        vlib.log("%s: %d programs, %d cases" % (self.tag, len(units), sum(len(u.cases) for u in units)))
        good = self.generate(units)
        vlib.log("%s: generated; compiling %d programs" % (self.tag, len(good)))
        good = self.compile(good)
        vlib.log("%s: compiled; running %d programs" % (self.tag, len(good)))
        self.run(good)


# ------------------------------------------------------------------ planning
def relevant(tc, cfg):
    """does the configuration change the representation of this case?"""
    kinds = leaf_kinds(tc["sig"])
    if cfg == "enum32":
        return bool(kinds & {"E", "b.IE"})
    if cfg == "valtype":
        return tc["depth"] >= 1 and bool(kinds & {"In", "b.BIn"})
    if cfg == "noalias":
        return tc["form"] in ("t", "u", "v")
    return tc["form"] in ("i", "q", "u") or "id" in tc["way"]       # naming styles: identifiers through scopes


def chunks(cases, cfg, opts, tag, first=()):
    """first: cases put in front of the first chunk (the context program's own constants)"""
    out = []
    for off in range(0, len(cases), CHUNK):
        out.append(Unit("%s%s%03d" % (tag, cfg[:2], off // CHUNK), list(first if off == 0 else ()) + cases[off:off + CHUNK],
                        cfg, opts))
    return out


def check_vacuity(cases):
    need = {
        "identifier chain across includes": lambda c: any(d["sec"] == "consts" and "id" in d["d"]["val"] and
                                                          d["d"]["val"]["id"][0] == "b" for d in c["defs"]),
        "struct literal with unmentioned defaulted fields": lambda c: c["sig"] == "In" and c["way"] == "partial",
        "enum by number": lambda c: c["way"] == "number",
        "int literal for a double": lambda c: c["sig"] == "double" and c["way"] == "int",
        "hex and octal": lambda c: c["way"] in ("hex", "octal"),
        "0/1 for bool": lambda c: c["sig"] == "bool" and c["way"] == "01",
        "typedef'd container": lambda c: c["form"] == "t" and c["depth"] >= 1,
        "qualified identifier of a container constant": lambda c: c["form"] == "q",
        "escaped delimiter in a literal": lambda c: c["way"] == "dq-escaped-delim",
        "nested container literal": lambda c: c["depth"] >= 1 and c["form"] == "l" and "map" in c["sig"],
    }
    for what, pred in need.items():
        if not any(pred(c) for c in cases):
            raise vlib.MachineryError("vacuous universe: no case with " + what)


def run(ctx, args):
    if args.replay:
        return replay(ctx, args.replay)
    thorough = ctx.tier == "thorough"
    rnd = random.Random(ctx.seed)
    cases, lits, ctxprog = gen_universe(ctx, int(os.environ.get("C06_DEV_DEPTH", "1")))
    if "C06_DEV_DEPTH" not in os.environ:
        check_vacuity(cases)
    ctxcase = [c for c in cases if c["form"] == "c"]
    cases = [c for c in cases if c["form"] != "c"]
    vlib.log("universe d<=1: %d cases (%d constants)" % (len(cases), sum(len(c["consts"]) for c in cases)))
    units = chunks(cases, "default", [], "a", ctxcase)
    for cfg, opts in CONFIGS[1:]:
        if os.environ.get("C06_DEV_CONFIGS") and cfg not in os.environ["C06_DEV_CONFIGS"].split(","):
            continue
        if thorough:
            sel = cases
        else:
            sel = [c for c in cases if relevant(c, cfg) and (c["depth"] == 0 or c["q"] == 1)]
            rest = [c for c in cases if not relevant(c, cfg)]
            sel = sel[:] + rnd.sample(rest, min(len(rest), 25))
            if len(sel) > 130:
                keep = [c for c in sel if c["depth"] == 0]
                more = [c for c in sel if c["depth"] > 0]
                sel = keep + rnd.sample(more, max(0, 130 - len(keep)))
            sel.sort(key=lambda c: (c["form"], c["way"], c["sig"], c["j"], c["q"]))
        units += chunks(sel, cfg, opts, "a", ctxcase)
    rn = Runner(ctx, lits, ctxprog, "d1")
    rn.go(units)
    soft = rn.soft
    if thorough:
        def pick(shapes):
            d2 = [s for s in shapes if json.dumps(s).count('"v"') >= 2]
            rnd.shuffle(d2)
            return d2[:int(os.environ.get("C06_DEV_D2", "260"))]
        cases2, lits2, ctxprog2 = gen_universe(ctx, 2, pick, "ConstsGen[d=2 sample]")
        cases2 = [c for c in cases2 if c["depth"] == 2]
        vlib.log("universe d=2 (sampled shapes): %d cases" % len(cases2))
        units2 = []
        per = (len(cases2) + len(CONFIGS) - 1) // len(CONFIGS)
        rnd.shuffle(cases2)
        for k, (cfg, opts) in enumerate(CONFIGS):
            part = sorted(cases2[k * per:(k + 1) * per], key=lambda c: (c["form"], c["way"], c["sig"], c["j"], c["q"]))
            units2 += chunks(part, cfg, opts, "b")
        rn2 = Runner(ctx, lits2, ctxprog2, "d2")
        rn2.go(units2)
        soft += rn2.soft
    if soft:
        ctx.notes.append("%d IsSet observations differ from DESIGN's IsSet rule where the statement demands nothing" % soft)
    if ctx.violations:
        cnt = {}
        for v in ctx.violations:
            key = json.dumps(v["class"], sort_keys=True)
            cnt[key] = cnt.get(key, 0) + 1
        ctx.extra_cov["violation_classes"] = [dict(json.loads(k), n=n) for k, n in sorted(cnt.items())][:400]
    ctx.exhaustive = False
    return ctx.finish(
        rule="case = type shape (TLC Shapes, depth<=1 all, thorough: + seeded sample of depth 2) x form (literal per way of writing "
             "the leaves, empty, identifier, qualified identifier, through typedef / typedef chain / typedef of an included file / "
             "typedef'd element type, plus hand-written cases: struct-likes inside struct-likes, unions, exceptions, implicit enum "
             "numbers, every optional scalar kind inside a struct literal) for a constant and for field defaults (quick: field "
             "defaults of containers for the first three leaf ways only); x configuration (quick: other configurations on the cases "
             "whose representation they change + a seeded sample). One evaluation = one generated constant compared, or one "
             "observation (fields + getters + IsSet) of a struct-object trace step compared. distinct class = (check, form, "
             "container kind, value leaf kind, depth, key way, value way, configuration[, trace step])",
        assumptions=["literals are drawn from the alphabet where the documented rule is unambiguous (plain characters, both quote "
                     "kinds, escaped delimiter, \\\" in single quotes, \\\\ not before a quote, \\n, \\t); decimal integers have no "
                     "leading zeros; integer literals fit the declared width",
                     "nil and zero/empty are the same abstract value for scalars and containers ('zero/nil' in the statement)",
                     "a struct literal's unmentioned fields may keep their declared defaults or be zero: the statement only says "
                     "'struct literals keyed by field name', both readings are accepted (per constant / per object observation)",
                     "set constants are compared as multisets, map constants as sets of entries",
                     "use_type_alias=false: fields whose type (or element type) is a typedef of a base type or struct-like are left "
                     "out (their serialization code does not compile, which is C01's subject); the constants of those cases are judged",
                     "IsSet is only demanded to be true for an optional field holding a value different from its default; "
                     "getters are only judged for optional fields with a declared default"],
        trusted=["lib/c06_model.py literal table (spelling -> atom)", "harness pkg/drv Dump/Build, pkg/c06", "go toolchain", "TLC"])


def replay(ctx, path):
    """re-run one recorded case (its pruned program, configuration and TLC-computed expectation)"""
    rp = json.load(open(path))
    case = rp["case"]
    u = Unit("replay", [case["tc"]], case.get("cfg", "default"), case["opts"], single=True, level=2)
    u.prog = case["prog"]
    rn = Runner(ctx, None, None, "replay")
    rn.go([u])
    for v in ctx.violations:
        print("still violated: %s\n  observed: %s\n  expected: %s" % (v["what"], json.dumps(v["observed"])[:1500],
                                                                    json.dumps(v["expected"])[:1500]))
    if ctx.known_hits:
        print("replay: the case still deviates, as a known finding: %s" % ", ".join(ctx.known_hits))
    elif not ctx.violations:
        print("replay: the case passes now")
    return 1 if ctx.violations else 0
