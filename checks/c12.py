"""C12 — output assembly loses nothing (generator.FileManager).

1. TLC explores the implementation-shaped model FileManagerImpl exhaustively (bounded), checks
   that it refines the abstract FileManager spec, and emits one history per reachable model state.
2. Every history is replayed into the real generator.FileManager (harness `inproc feed`).
3. The recorded traces are validated by TLC against the abstract spec (Trace_FileManager).
A trace the abstract spec rejects is a violation by the real code.
"""
import json
import os

import vlib

LEVEL = "model_checking"

REGISTRY = dict(
        level="model_checking",
        text="TLC explores the implementation-shaped model of Feed/BuildResponse exhaustively within bounds, proves "
             "it refines the abstract output-assembly spec, and every history it reaches is replayed into the real "
             "FileManager; the recorded traces are validated by TLC against the abstract spec (fresh names inferred).",
        design_ref="DESIGN.md 6 C12",
        note="Trusted: TLC, the harness' rendering of segments to marker strings. Bounded alphabets (names a, b, a_1, "
             "a_2, a_1_1; 4 contents; 3 points; 2 texts; <= 6 items in <= 3 Feed calls).",
        technique="TLA+ refinement (Impl => Spec) + TLC-generated histories replayed + TLC trace validation")

TIERS = {
    # cfg constants: (Names, contents operator, Points, Texts, MaxItems, MaxFeeds)
    "quick": [dict(names='{"a", "a_1"}', contents="cContents", points='{"p", "zz"}',
                   texts='{"P", "Q"}', items=4, feeds=2)],
    "thorough": [dict(names='{"a", "b", "a_1"}', contents="cContents", points='{"p", "q", "zz"}',
                      texts='{"P", "Q"}', items=4, feeds=3),
                 dict(names='{"a", "a_1", "a_1_1"}', contents="cContentsSmall", points='{"p"}',
                      texts='{"P"}', items=5, feeds=2),
                 dict(names='{"a", "b"}', contents="cContentsSmall", points='{"p", "q"}',
                      texts='{"P", "Q"}', items=5, feeds=3)],
}

CFG = """SPECIFICATION Spec
CONSTANTS
  Names = %(names)s
  Contents <- %(contents)s
  Points = %(points)s
  Texts = %(texts)s
  MaxItems = %(items)d
  MaxFeeds = %(feeds)d
VIEW View
INVARIANTS AInvariants IndexConsistent Emit
PROPERTIES Refines AAppendOnly
CHECK_DEADLOCK FALSE
"""


def classify(trace):
    """class record of a rejected trace, from the observation only."""
    for ev in trace:
        if ev.get("ev") == "End":
            if ev.get("panic"):
                return "panic"
            names = [f["name"] for f in ev["resp"]]
            if len(set(names)) != len(names):
                return "duplicate-output-name"
            for f in ev["resp"]:
                if "@@thriftgo_insertion_point" in f["content"]:
                    return "marker-left-in-output"
    return "response-not-allowed"


def maximal(cases):
    """drop histories that are a prefix (by whole Feed calls) of another history."""
    keys = set()
    for c in cases:
        keys.add(json.dumps(c["h"], sort_keys=True))
    prefixes = set()
    for c in cases:
        h = c["h"]
        for k in range(1, len(h)):
            prefixes.add(json.dumps(h[:k], sort_keys=True))
    return [c for c in cases if json.dumps(c["h"], sort_keys=True) not in prefixes]


def validate(ctx, cases, harness, tag):
    casef = ctx.path("cases-%s.ndjson" % tag)
    tracef = ctx.path("traces-%s.ndjson" % tag)
    vlib.write_ndjson(casef, [{"h": c["h"]} for c in cases])
    ctx.run([harness, "feed", casef, tracef], timeout=600)
    traces = vlib.read_ndjson(tracef)
    if len(traces) != len(cases):
        raise vlib.MachineryError("harness returned %d traces for %d cases" % (len(traces), len(cases)))
    accepted = set()
    CH = 40000
    for off in range(0, len(traces), CH):
        chunk = traces[off:off + CH]
        cf = ctx.path("chunk-%s-%d.ndjson" % (tag, off))
        vlib.write_ndjson(cf, chunk)
        r = ctx.tlc("FileManager", "Trace_FileManager", "Trace_FileManager",
                    files={"traces.ndjson": cf}, timeout=1500, label="Trace_FileManager[%s+%d]" % (tag, off))
        for s in r["lines"]:
            if s.startswith("ACC "):
                accepted.add(off + int(s[4:]) - 1)
        os.remove(cf)
    rejected = [i for i in range(len(traces)) if i not in accepted]
    ctx.traces_validated += len(traces)
    for i, c in enumerate(cases):
        ctx.count(1, "feeds=%d items=%d files=%s renames=%s err=%s" % (
            len(c["h"]), sum(len(x) for x in c["h"]), c.get("nfiles"), c.get("renames"), c.get("err")))
    if traces:
        ctx.sample({"history": cases[len(cases) // 2]["h"], "trace": traces[len(cases) // 2]})
    # diagnose rejected traces (longest matched prefix) -- at most 50 of them
    if rejected:
        sub = rejected[:50]
        df = ctx.path("diag-%s.ndjson" % tag)
        vlib.write_ndjson(df, [traces[i] for i in sub])
        r = ctx.tlc("FileManager", "Trace_FileManager", "Trace_FileManager_diag",
                    files={"traces.ndjson": df}, timeout=600, workers=1, label="Trace_FileManager_diag")
        reach = {}
        for s in r["lines"]:
            if s.startswith("AT "):
                _, t, l = s.split()
                reach[int(t)] = max(reach.get(int(t), 0), int(l))
        for k, i in enumerate(sub):
            at = reach.get(k + 1, 0)
            tr = traces[i]
            cls = {"check": "C12.trace", "kind": classify(tr)}
            ctx.violation(cls, {"h": cases[i]["h"]},
                          {"trace": tr, "matched_events": at - 1,
                           "rejected_event": tr[at - 1] if 0 < at <= len(tr) else None},
                          "a behaviour of spec/FileManager/FileManager.tla",
                          "real FileManager behaviour rejected by the abstract spec: " + cls["kind"])
        for i in rejected[50:]:
            ctx.violation({"check": "C12.trace", "kind": classify(traces[i])}, {"h": cases[i]["h"]},
                          {"trace": traces[i]}, "a behaviour of FileManager.tla", "rejected trace")
    return len(rejected)


def run(ctx, args):
    harness = ctx.build_harness("inproc")
    if args.replay:
        rp = json.load(open(args.replay))
        validate(ctx, [rp["case"]], harness, "replay")
        return ctx.finish("replay of one history")
    allcases = []
    for k, t in enumerate(TIERS[ctx.tier]):
        cfg = CFG % t
        r = ctx.tlc("FileManager", "MC_FileManagerImpl", "gen.cfg", files={"gen.cfg": cfg}, timeout=3000,
                    label="MC_FileManagerImpl[%d]" % k)
        cases = ctx.tlc_cases(r)
        if not cases:
            raise vlib.MachineryError("TLC emitted no cases")
        cases = maximal(cases)
        vac = [c for c in cases if c.get("renames", 0) > 0]
        if not vac:
            raise vlib.MachineryError("vacuous universe: no history with a renamed file")
        allcases.append(cases)
    n = 0
    for k, cases in enumerate(allcases):
        n += validate(ctx, cases, harness, "u%d" % k)
    ctx.exhaustive = True
    return ctx.finish(
        rule="histories = one per reachable state of the bounded FileManagerImpl model (TLC BFS, VIEW "
             "without the history), maximal ones only; each replayed into generator.FileManager and the "
             "recorded trace validated by TLC against the abstract FileManager spec. distinct class = "
             "(feed calls, items, files kept, renames, error) of the history",
        assumptions=["items are files / unnamed patches / named patches for existing files over the "
                     "bounded alphabets in checks/c12.py; a named patch for a non-existent file and "
                     "patch texts containing markers are outside the universe (statement is silent)"],
        trusted=["TLC", "harness/cmd/inproc/feed.go (renders segments, logs Feed/BuildResponse)"])
