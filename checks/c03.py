"""C03 — the parser is total and the AST is faithful to the source text.

Spec: spec/Lexical/Lexical.tla (document model: printer machine over the canonical token list with layout, separator,
quote and number-spelling choices; Mutate(k); the expected AST pieces as functions of the program model) and
spec/Lexical/LexGen.tla (case generation).  Flow:
  1. program models (lib/c03_seeds.py) -> enriched token lists (lib/c03_lex.py, cross-checked against lib/idl.py tokens())
  2. TLC: per document the spelling table and the expectation (ImplicitIds, ImplicitEnumValues, grouped annotations,
     literal contents); exhaustively the layout families canon / gap1 / all / sep / quote / num and the mutants;
     by simulation (ctx.seed) random full layouts and pairs of gap deviations
  3. every document is parsed by the real parser.ParseString (harness `inproc parse`)
  4. oracles: (a) fidelity: projection == expected AST; (b) layout independence: all layouts of one program give the
     same projection; (c) totality: mutants, depth-scaled family up to 64 KiB and a harness-side byte-level pass
     return an AST or an error, never panic, within the time bound.
"""
import base64
import json
import os
import random

import c03_lex as lex
import c03_seeds as seeds
import vlib

LEVEL = "model_checking"

REGISTRY = dict(
    level="model_checking",
    text="The IDL document model is an explicit TLA+ printer machine (canonical token list x layout element at every gap x "
         "separator / quote / number-spelling choices, plus token-level Mutate actions). TLC enumerates every single-gap "
         "deviation, the uniform layouts, separator, quote and spelling variants and all mutants, simulates random full "
         "layouts, and computes the expected field ids, enum values, annotation groups and literal contents from the "
         "program model; every document is parsed by the real parser and compared with that expectation (fidelity), with "
         "the other layouts of the same program (layout independence), and checked for panics/time (totality).",
    design_ref="DESIGN.md 6 C03",
    note="Trusted: TLC, lib/idl.py token list, harness projection of parser.Thrift (harness/cmd/inproc/lexical.go). "
         "Totality over arbitrary byte strings is only explored: token-level mutants from the spec, a depth-scaled family "
         "to 64 KiB and a harness-side byte-level pass (not spec-derived).",
    technique="TLA+ document model; TLC-enumerated layouts and mutants replayed into parser.ParseString; expected AST computed by TLC")

TIERS = {
    "quick": dict(ext_gaps=False, mc_docs=3, mc_budget=0, sim=400, simdepth=400, bytepass_docs=6, mut_stride=1, scale_reps=2, gap1_docs=None),
    "thorough": dict(ext_gaps=True, mc_docs=4, mc_budget=2, sim=6000, simdepth=900, bytepass_docs=None, mut_stride=1, scale_reps=3, gap1_docs=None),
}

GEN_CFG = """INIT GInit
NEXT GNext
CONSTANTS
  GapSet = "%s"
  Budget = 1000000
  Mutants = TRUE
  GenFamilies = {%s}
  SimFamilies = {}
INVARIANTS GenLiterals Emit%s
CHECK_DEADLOCK FALSE
"""
SIM_CFG = """INIT SInit
NEXT SNext
CONSTANTS
  GapSet = "base"
  Budget = 1000000
  Mutants = FALSE
  GenFamilies = {}
  SimFamilies = {"full", "gap2"}
INVARIANTS TypeOK DoneLegal DeviationsCounted Emit
CHECK_DEADLOCK FALSE
"""
MC_CFG = """INIT Init
NEXT Next
CONSTANTS
  GapSet = "base"
  Budget = %d
  Mutants = TRUE
INVARIANTS TypeOK DoneLegal DeviationsCounted LiteralsReadBack
CHECK_DEADLOCK FALSE
"""

TIME_LIMIT_MS = 20000


def inproc(ctx):
    dev = os.environ.get("VERIF_INPROC_BIN")       # development only: a prebuilt harness binary
    if dev:
        return dev
    return ctx.build_harness("inproc")


def parse_lines(res):
    gaps, docs, cases = None, {}, []
    for s in res["lines"]:
        if s.startswith("CASE "):
            cases.append(json.loads(s[5:]))
        elif s.startswith("DOC "):
            r = json.loads(s[4:])
            docs[r["d"]] = r
        elif s.startswith("GAPS "):
            gaps = json.loads(s[5:])
    return gaps, docs, cases


def run_parse(ctx, harness, reqs, tag, timeout=1800, env=None):
    inp = ctx.path("parse-%s.in.ndjson" % tag)
    outp = ctx.path("parse-%s.out.ndjson" % tag)
    vlib.write_ndjson(inp, reqs)
    p = ctx.run([harness, "parse", inp, outp], timeout=timeout, check=False, env=env)
    if p.returncode != 0:
        return None, p
    res = vlib.read_ndjson(outp)
    if len(res) != len(reqs):
        raise vlib.MachineryError("harness returned %d answers for %d requests" % (len(res), len(reqs)))
    os.remove(inp)
    os.remove(outp)
    return res, p


def b64(text):
    return base64.b64encode(text.encode("utf-8")).decode("ascii")


# ------------------------------------------------------------------ depth-scaled family
def scaled_family(size):
    """documents of about `size` bytes whose nesting depth / run length grows with size"""
    out = {}
    n = size
    out["type-list-nest"] = "typedef " + "list<" * (n // 6) + "i32" + ">" * (n // 6) + " T\n"
    out["type-list-open"] = "typedef " + "list<" * (n // 5) + "i32 T\n"
    out["type-map-key-nest"] = "typedef " + "map<" * (n // 9) + "i32" + ",i32>" * (n // 9) + " T\n"
    out["type-map-val-nest"] = "typedef " + "map<i8," * (n // 8) + "i32" + ">" * (n // 8) + " T\n"
    out["type-map-open"] = "typedef " + "map<" * (n // 4) + "i32 T\n"
    out["const-list-nest"] = "const L x = " + "[" * (n // 2) + "]" * (n // 2) + "\n"
    out["const-list-open"] = "const L x = " + "[" * n + "\n"
    out["const-map-nest"] = "const M x = " + "{1:" * (n // 4) + "2" + "}" * (n // 4) + "\n"
    out["const-map-open"] = "const M x = " + "{1:" * (n // 3) + "\n"
    out["const-map-key-open"] = "const M x = " + "{" * n + "\n"
    out["const-list-wide"] = "const L x = [" + "1," * (n // 2) + "]\n"
    out["comment-block-run"] = "/*c*/" * (n // 5) + "struct S {}\n"
    out["comment-line-run"] = "//c\n" * (n // 4) + "struct S {}\n"
    out["comment-unix-run"] = "#c\n" * (n // 3) + "struct S {}\n"
    out["comment-long"] = "/*" + "c" * n + "*/struct S {}\n"
    out["comment-open"] = "struct S {}\n/*" + "c*" * (n // 2)
    out["comment-in-field-run"] = "struct S { 1: i32 a " + "/*c*/" * (n // 5) + "}\n"
    out["literal-long"] = 'const string s = "' + "a" * n + '"\n'
    out["literal-escapes"] = 'const string s = "' + '\\"' * (n // 2) + '"\n'
    out["literal-backslashes"] = 'const string s = "' + "\\" * (n - 1) + 'a"\n'
    out["literal-open"] = 'const string s = "' + "a" * n
    out["literal-sq-open-escapes"] = "const string s = '" + "\\'" * (n // 2)
    out["ident-long"] = "struct " + "a" * n + " {}\n"
    out["ident-dots"] = "typedef " + "a." * (n // 2) + "b T\n"
    out["fields-many"] = "struct S {" + "i32 a;" * (n // 6) + "}\n"
    out["fields-open"] = "struct S {" + "i32 a;" * (n // 6)
    out["ann-many"] = "struct S {} (" + 'a="b",' * (n // 6) + ")\n"
    out["ann-open"] = "struct S {} (" + 'a="b",' * (n // 6)
    out["paren-open"] = "service V { void f" + "(" * n
    out["args-many"] = "service V { void f(" + "i32 a," * (n // 6) + ") }\n"
    out["throws-open"] = "service V { void f() throws (" + "X x," * (n // 4)
    out["defs-many"] = "struct S {}\n" * (n // 12)
    out["enum-many"] = "enum E {" + "A," * (n // 2) + "}\n"
    out["digits-long"] = "const i64 x = " + "1" * n + "\n"
    out["double-long"] = "const double x = 0." + "1" * n + "\n"
    out["hex-long"] = "const i64 x = 0x" + "f" * n + "\n"
    out["spaces"] = " \t\r\n" * (n // 4)
    out["semicolons"] = "struct S {" + ";" * n + "}\n"
    out["type-ann-nest"] = "typedef " + "list<" * (n // 16) + "i32" + '>(a="b")' * (n // 16) + " T\n"
    out["garbage-brackets"] = "<[{(" * (n // 4)
    return out


# ------------------------------------------------------------------ hand-written documents (NOT spec-derived)
def handwritten_docs():
    """grammatical documents with grammar elements lib/idl.py cannot render (cpp_type, trailing separators, '*' scope,
    vertical tabs, comments inside cpp_type); each with a hand-written expectation on the projection"""
    def typ(p, i=0):
        return p["typedefs"][i]["type"]
    return [
        ("cpp_type-list", 'typedef list<i32> cpp_type "std::list" L\n',
         lambda p: (typ(p)["cpp"], typ(p)["n"], typ(p)["v"]["n"], p["typedefs"][0]["name"]) == ("std::list", "list", "i32", "L")),
        ("cpp_type-map", 'typedef map cpp_type "M" <string, set cpp_type \'S\' <i64>> T\n',
         lambda p: (typ(p)["cpp"], typ(p)["v"]["cpp"], typ(p)["v"]["v"]["n"], typ(p)["k"]["n"]) == ("M", "S", "i64", "string")),
        ("cpp_type-empty", 'typedef list<i32> cpp_type "" L (a = "b")\n',
         lambda p: typ(p)["cpp"] == "" and p["typedefs"][0]["name"] == "L" and p["typedefs"][0]["ann"] == [{"k": "a", "v": ["b"]}]),
        ("cpp_type-comments", 'typedef list < i32 > /*c*/ cpp_type /*c*/ "x" /*c*/ L // c\n',
         lambda p: typ(p)["cpp"] == "x" and p["typedefs"][0]["name"] == "L"),
        ("const-trailing-separator", 'const i32 A = 1;\nconst i32 B = 2,\nconst list<i32> C = [1,2,];\nconst map<i32,i32> Dd = {1:2;}\n',
         lambda p: [c["name"] for c in p["consts"]] == ["A", "B", "C", "Dd"] and len(p["consts"][2]["value"]["l"]) == 2
         and len(p["consts"][3]["value"]["m"]) == 1),
        ("args-trailing-separator", 'service V { void f(1: i32 a, string b;) throws (X x,), }\n',
         lambda p: [a["id"] for a in p["services"][0]["functions"][0]["args"]] == [1, 2]
         and [a["id"] for a in p["services"][0]["functions"][0]["throws"]] == [1]),
        ("vertical-tab-and-tabs", 'struct\tS\v{\v1:\ti32\va\v}\n',
         lambda p: p["structs"][0]["fields"][0]["name"] == "a" and p["structs"][0]["fields"][0]["id"] == 1),
        ("literal-with-line-break", 'const string S = "a\nb" (k = \'x\ny\')\n',
         lambda p: p["consts"][0]["value"]["v"] == "a\nb" and p["consts"][0]["ann"] == [{"k": "k", "v": ["x\ny"]}]),
        ("empty-annotation-lists", 'struct S { 1: i32 a () } ()\nenum E { A () } ()\n',
         lambda p: p["structs"][0]["ann"] == [] and p["structs"][0]["fields"][0]["ann"] == [] and p["enums"][0]["values"][0]["value"] == "0"),
        ("keywords-as-prefixes", 'struct structs { 1: i32s.x required_ , 2: lists y }\nservice voids { voidx throws_() }\n',
         lambda p: [(f["name"], f["type"]["n"], f["req"]) for f in p["structs"][0]["fields"]] ==
         [("required_", "i32s.x", "default"), ("y", "lists", "default")] and p["structs"][0]["name"] == "structs"
         and (p["services"][0]["functions"][0]["ret"]["n"], p["services"][0]["functions"][0]["name"]) == ("voidx", "throws_")),
        ("annotation-separators", 'struct S {} (a = "1" b = "2"; a = "3", )\n',
         lambda p: p["structs"][0]["ann"] == [{"k": "a", "v": ["1", "3"]}, {"k": "b", "v": ["2"]}]),
        ("header-after-comment-run", '#c\n//c\n/*c*/ namespace /*c*/ * /*c*/ x.y //c\ninclude "a.thrift" #c\n',
         lambda p: p["namespaces"] == [{"lang": "*", "name": "x.y", "ann": []}] and p["includes"] == ["a.thrift"]),
    ]


# ------------------------------------------------------------------ the check
def run(ctx, args):
    wmax = int(os.environ.get("VERIF_TLC_WORKERS", "0") or 0)      # optional cap on TLC workers (loaded machines)
    if wmax:
        tlc0 = ctx.tlc
        ctx.tlc = lambda *a, **kw: tlc0(*a, **dict(kw, workers=min(wmax, kw.get("workers") or wmax)))
    harness = inproc(ctx)
    ctx.harness_bin = harness
    if args.replay:
        return replay(ctx, harness, args.replay)
    T = TIERS[ctx.tier]
    rng = random.Random(ctx.seed)

    # ---- 1. program universe -> TLC data
    docs, special = seeds.c03_docs(ctx.tier)
    alldocs = docs + special
    names = [n for n, _ in alldocs]
    if len(set(names)) != len(names):
        raise vlib.MachineryError("duplicate document names")
    files = {n: f for n, f in alldocs}
    tla_docs = [lex.tla_doc(n, f) for n, f in alldocs]
    docs_json = json.dumps(tla_docs)

    # ---- 2. design level: the printer machine itself on a small universe (thorough: exhaustive with <= 2 deviations;
    #         quick relies on the simulation run below, which checks the same invariants on random complete behaviours)
    small = [lex.tla_doc(n, f) for n, f in seeds.tiny_docs()][:T["mc_docs"]]
    if T["mc_budget"]:
        ctx.tlc("Lexical", "Lexical", "mc.cfg", files={"mc.cfg": MC_CFG % T["mc_budget"], "docs.json": json.dumps(small)},
                timeout=2400, label="MC_Lexical[printer, <=%d deviations, %d small docs]" % (T["mc_budget"], len(small)))

    # ---- 3. generation
    fams = '"canon", "gap1", "all", "sep", "quote", "num", "mut"'
    r = ctx.tlc("Lexical", "LexGen", "gen.cfg", files={"gen.cfg": GEN_CFG % ("base", fams, " GenSoundSample"), "docs.json": docs_json},
                timeout=2400, label="LexGen[bfs %d docs]" % len(tla_docs))
    gaps, drecs, cases = parse_lines(r)
    r2 = ctx.tlc("Lexical", "LexGen", "sim.cfg", files={"sim.cfg": SIM_CFG, "docs.json": docs_json},
                 mode="simulate", simulate=max(1, T["sim"] // 8), depth=T["simdepth"], workers=8, timeout=2400,
                 label="LexGen[simulate full+gap2]")
    _, _, simcases = parse_lines(r2)
    if T["mc_budget"]:
        # the sound-generator invariant on every case of the small universe (every emitted case is a finished printer behaviour)
        ctx.tlc("Lexical", "LexGen", "gs.cfg",
                files={"gs.cfg": GEN_CFG % ("base", fams, " GenSound"), "docs.json": json.dumps(small)},
                timeout=1200, label="LexGen[GenSound, small docs]")
    def tables(gaps_, drecs_):
        if gaps_ is None or len(drecs_) != len(tla_docs):
            raise vlib.MachineryError("TLC printed %d DOC records for %d documents" % (len(drecs_), len(tla_docs)))
        out = {}
        for k, td in enumerate(tla_docs):
            rec = drecs_[k + 1]
            if rec["name"] != td["name"]:
                raise vlib.MachineryError("document order mismatch")
            out[k + 1] = lex.DocTable(gaps_, rec)
            out[k + 1].rec_lk = rec["lk"]
            out[k + 1].rec_role = rec["role"]
        return out

    def dedup(cs):
        seen = set()
        out = []
        for c in cs:
            key = json.dumps([c["d"], c["fam"], c["i"], c["e"], c["j"], c["e2"], c["lay"], c["var"], c["m"], c["b"]])
            if key not in seen:
                seen.add(key)
                out.append(c)
        return out

    tabs = tables(gaps, drecs)
    batches = [(dedup(cases + simcases), tabs, "")]
    if T["ext_gaps"]:
        # the same single-gap / uniform families with the second table of layout elements
        r3 = ctx.tlc("Lexical", "LexGen", "genx.cfg",
                     files={"genx.cfg": GEN_CFG % ("ext", '"gap1", "all"', ""), "docs.json": docs_json},
                     timeout=2400, label="LexGen[bfs ext layout elements]")
        gx, dx, cx = parse_lines(r3)
        batches.append((dedup(cx), tables(gx, dx), "x"))

    # ---- 4. render (lookups in TLC's tables) and cross-check against the piece lists TLC printed
    layouts = []       # (doc index, case, text)
    mutants = []
    checked_pieces = 0
    for bcases, btabs, tag in batches:
        for c in bcases:
            tab = btabs[c["d"]]
            c["gapset"] = tag
            if c["fam"] == "mut":
                parts = lex.mutant_pieces(tab, c)
                text = "".join(parts)
                mutants.append((c["d"], c, text))
            else:
                lay, var = lex.apply_case(tab, c)
                parts = tab.pieces(lay, var)
                text = "".join(parts)
                layouts.append((c["d"], c, text))
            if c["hp"]:
                checked_pieces += 1
                if parts != c["p"]:
                    raise vlib.MachineryError("renderer disagrees with Pieces() of the spec on %s: %r vs %r" % (
                        json.dumps({k: c[k] for k in ("d", "fam", "i", "e", "m", "b")}), parts[:40], c["p"][:40]))
    # canonical rendering must be the shared renderer's text
    import idl
    for k, (n, f) in enumerate(alldocs):
        lay, var = tabs[k + 1].canon()
        if tabs[k + 1].text(lay, var) != idl.render_file(f):
            raise vlib.MachineryError("canonical layout of %s differs from lib/idl.py render_file" % n)

    # vacuity
    fam_count = {}
    for _, c, _ in layouts:
        fam_count[c["fam"]] = fam_count.get(c["fam"], 0) + 1
    for need in ("canon", "gap1", "all", "sep", "quote", "num", "full", "gap2"):
        if not fam_count.get(need):
            raise vlib.MachineryError("vacuous universe: no layout case of family %s" % need)
    mk = set(c["m"] for _, c, _ in mutants)
    for need in ("del", "dup", "swap", "trunc", "ins", "openlit", "headlit", "opencomment"):
        if need not in mk:
            raise vlib.MachineryError("vacuous universe: no mutant of kind %s" % need)
    elems_seen = set(c["e"] for _, c, _ in layouts if c["fam"] == "gap1")
    if elems_seen != set(range(1, 9)):
        raise vlib.MachineryError("vacuous universe: single-gap deviations do not use every layout element: %s" % elems_seen)
    if not any(len(t.ids) and any(len(x) > 1 for x in t.ids) for t in tabs.values()):
        raise vlib.MachineryError("vacuous universe: no field list with more than one field")
    if checked_pieces < 20:
        raise vlib.MachineryError("too few cases cross-checked against Pieces()")

    # ---- 5. run the parser on every layout (hash pass), then fetch one projection per (doc, hash)
    reqs = [{"id": str(k), "b64": b64(t), "limit_ms": TIME_LIMIT_MS} for k, (_, _, t) in enumerate(layouts)]
    res, p = run_parse(ctx, harness, reqs, "layouts")
    if res is None:
        raise vlib.MachineryError("harness crashed on the layout documents (rc=%d): %s" % (p.returncode, p.stderr[-2000:]))
    canon_h = {}
    rep = {}          # (doc, hash) -> index of a representative case
    for k, ((d, c, t), o) in enumerate(zip(layouts, res)):
        if c["fam"] == "canon":
            canon_h[d] = o["h"] if not (o.get("panic") or o.get("timeout")) else "BAD"
        rep.setdefault((d, o.get("h")), k)
    reqs2 = [{"id": "%d" % k, "b64": b64(layouts[k][2]), "proj": True} for k in rep.values()]
    res2, p = run_parse(ctx, harness, reqs2, "proj")
    if res2 is None:
        raise vlib.MachineryError("harness crashed fetching projections: %s" % p.stderr[-2000:])
    proj = {}
    for (key, k), o in zip(rep.items(), res2):
        proj[key] = o
    expected = {}
    for k, (n, f) in enumerate(alldocs):
        expected[k + 1] = lex.expected_projection(f, tabs[k + 1])

    def left_right(tab, c):
        i = c["i"]
        l = tab.kind[i - 2] if 2 <= i <= tab.n + 1 else "bof"
        rr = tab.kind[i - 1] if i <= tab.n else "eof"
        return l, rr

    def layout_class(tab, c):
        fam = c["fam"]
        if fam == "gap1":
            l, rr = left_right(tab, c)
            return "layout gap1 elem=%s%d %s|%s" % (c["gapset"], c["e"], l, rr)
        if fam == "all":
            return "layout all elem=%s%d doc=%s" % (c["gapset"], c["e"], tab.name)
        if fam == "sep":
            kinds = sorted(set(tab.rec_lk[i] for i in range(tab.n) if tab.kind[i] == "sep" and c["var"][i] != 1))
            return "layout sep %s -> %s" % ("+".join(kinds), {2: ";", 3: "none"}[c["e"]])
        if fam == "quote":
            return "layout quote %s doc=%s" % ("all" if c["i"] == 0 else tab.rec_role[c["i"] - 1], tab.name)
        if fam == "num":
            return "layout num %s/%s spelling#%d" % (tab.kind[c["i"] - 1], tab.rec_role[c["i"] - 1], c["e"])
        if fam == "gap2":
            return "layout gap2 elems=%d,%d" % (c["e"], c["e2"])
        if fam == "full":
            return "layout full doc=%s" % tab.name
        return "layout canon doc=%s" % tab.name

    def vclass(check, tab, c, where=None):
        """class record of a violating layout case: as coarse as the cause, as narrow as possible"""
        cl = {"check": check}
        if where is not None:
            cl["where"] = where
        if c["fam"] == "num":
            cl["role"] = tab.kind[c["i"] - 1] + "/" + tab.rec_role[c["i"] - 1]
            cl["style"] = style_of(tab.var[c["i"] - 1][c["e"] - 1])
        elif c["fam"] == "full":
            # a random full layout mixes every kind of choice; class by what differs, not by document
            cl["fam"] = "full"
            if where is not None:
                cl["where"] = where.split(".")[-1]
        elif c["fam"] in ("canon", "gap1", "gap2", "all"):
            cl["doc"] = tab.name            # independent of the layout family: a property of the document
        else:
            cl["doc"] = tab.name
            cl["fam"] = c["fam"]
        return cl

    canon_text = {d: t for (d, c, t) in layouts if c["fam"] == "canon"}
    for k, ((d, c, text), o) in enumerate(zip(layouts, res)):
        tab = tabs[d]
        ctx.count(1, layout_class(tab, c))
        ctx.traces_validated += 1
        name = tab.name
        brief = {k2: c[k2] for k2 in ("fam", "i", "e", "j", "e2")}
        variant = tab.var[c["i"] - 1][c["e"] - 1] if c["fam"] == "num" else ""
        if o.get("panic") or o.get("timeout"):
            judge_total(ctx, o, {"kind": "total", "b64": b64(text)}, "grammatical document %s %s" % (name, brief),
                        {"check": "C03.total", "doc": name})
            continue
        # (a) fidelity of this hash class
        po = proj[(d, o.get("h"))]
        if not o["ok"]:
            ctx.violation(vclass("C03.fidelity", tab, c, "rejected"),
                          {"kind": "fidelity", "doc": name, "layout": brief, "b64": b64(text), "expected": expected[d]},
                          {"error": o["err"]}, "accepted (the document follows the grammar)",
                          "grammatical document rejected (%s): %s %s %s" % (o["err"].strip()[:60], name, brief, variant))
            continue
        dd = lex.diff(lex.norm_projection(po["proj"]), expected[d])
        if dd:
            ctx.violation(vclass("C03.fidelity", tab, c, generalize(dd)),
                          {"kind": "fidelity", "doc": name, "layout": brief, "b64": b64(text), "expected": expected[d]},
                          {"proj": po["proj"], "diff": dd}, "the AST of the program model (expected)",
                          "AST differs from the program model: %s [%s %s %s]" % (dd, name, brief, variant))
        # (b) layout independence (independent of the expected-AST encoder); if the canonical layout itself is
        # rejected that is reported once above, not again for every other layout
        if c["fam"] != "canon" and canon_h.get(d) not in (None, "ERR", "BAD") and o.get("h") != canon_h[d]:
            ctx.violation(vclass("C03.layout", tab, c),
                          {"kind": "layout", "doc": name, "layout": brief, "b64": b64(text), "canon_b64": b64(canon_text[d])},
                          {"h": o.get("h"), "canon_h": canon_h[d], "proj": po.get("proj")},
                          "the same AST as the canonical layout of the same program",
                          "AST depends on the layout: %s %s %s" % (name, brief, variant))
    if layouts:
        mid = layouts[len(layouts) // 3]
        ctx.sample({"doc": tabs[mid[0]].name, "case": {k2: mid[1][k2] for k2 in ("fam", "i", "e")}, "text": mid[2][:400]})
        ctx.sample({"doc": tabs[1 + names.index("enums")].name, "expected_enums": expected[1 + names.index("enums")]["enums"][3]})

    # ---- 5b. hand-written documents for grammar elements outside the shared renderer (labelled: not spec-derived)
    hw = handwritten_docs()
    resh, p = run_parse(ctx, harness, [{"id": n, "b64": b64(t), "proj": True, "limit_ms": TIME_LIMIT_MS} for n, t, _ in hw], "hand")
    if resh is None:
        raise vlib.MachineryError("harness crashed on the hand-written documents: %s" % p.stderr[-2000:])
    for (n, t, okf), o in zip(hw, resh):
        ctx.count(1, "handwritten " + n)
        good = False
        if o["ok"]:
            try:
                good = bool(okf(o["proj"]))
            except (KeyError, IndexError, TypeError):
                good = False
        if o.get("panic") or o.get("timeout"):
            judge_total(ctx, o, {"kind": "total", "b64": b64(t)}, "hand-written document " + n, {"check": "C03.total", "family": "handwritten"})
        elif not good:
            ctx.violation({"check": "C03.fidelity", "family": "handwritten", "doc": n}, {"kind": "handwritten", "doc": n, "b64": b64(t)},
                          {"ok": o["ok"], "err": o["err"], "proj": o.get("proj")}, "the hand-written expectation in checks/c03.py handwritten_docs()",
                          "hand-written grammatical document %s: %s" % (n, "rejected: " + o["err"].strip()[:80] if not o["ok"] else "AST differs from the expectation"))

    # ---- 6. totality: mutants
    reqs = [{"id": str(k), "b64": b64(t), "limit_ms": TIME_LIMIT_MS} for k, (_, _, t) in enumerate(mutants)]
    resm, p = run_parse(ctx, harness, reqs, "mutants")
    if resm is None:
        crash_hunt(ctx, harness, [(("mutant %s@%d of %s" % (c["m"], c["i"], tabs[d].name)), t) for d, c, t in mutants], p)
    else:
        nok = 0
        for (d, c, text), o in zip(mutants, resm):
            tab = tabs[d]
            ctx.count(1, "mutant %s %s%s -> %s" % (c["m"], tab.kind[c["i"] - 1], (" " + c["b"]) if c["b"] else "",
                                                   "ast" if o["ok"] else "error"))
            nok += 1 if o["ok"] else 0
            judge_total(ctx, o, {"kind": "total", "b64": b64(text)}, "mutant %s@%d of %s" % (c["m"], c["i"], tab.name),
                        {"check": "C03.total", "family": "mutant", "m": c["m"]})
        if nok == len(mutants):
            raise vlib.MachineryError("vacuous: every mutant still parses")
        ctx.sample({"mutant": mutants[len(mutants) // 2][1]["m"], "text": mutants[len(mutants) // 2][2][:300],
                    "observed": {k2: resm[len(mutants) // 2][k2] for k2 in ("ok", "err", "ns")}})

    # ---- 7. totality: harness-side byte-level pass over the canonical TLC documents (NOT spec-derived)
    canon = [(d, t) for d, c, t in layouts if c["fam"] == "canon" and t]
    if T["bytepass_docs"]:
        rng.shuffle(canon)
        canon = sorted(canon[:T["bytepass_docs"]])
    reqs = [{"id": tabs[d].name, "b64": b64(t), "bytepass": True, "limit_ms": TIME_LIMIT_MS} for d, t in canon]
    resb, p = run_parse(ctx, harness, reqs, "bytepass", timeout=3000)
    nbyte = 0
    if resb is None:
        ctx.violation({"check": "C03.total", "family": "bytepass", "what": "crash"}, {"kind": "total", "b64": b64(canon[0][1]) if canon else ""},
                      {"rc": p.returncode, "stderr": p.stderr[-3000:]}, "an AST or an error",
                      "harness process died during the byte-level pass (unrecoverable crash in the parser)")
    else:
        for (d, t), o in zip(canon, resb):
            nbyte += o["n"]
            ctx.count(o["n"], "bytepass doc=%s" % tabs[d].name)
            for b in o["bad"]:
                if b["what"] == "timeout" and not confirm_slow(ctx, {"b64": b["b64"]})[0]:
                    continue
                ctx.violation({"check": "C03.total", "family": "bytepass", "what": b["what"]},
                              {"kind": "total", "b64": b["b64"]}, b, "an AST or an error",
                              "byte-level neighbour of %s: %s (%s at %d)" % (tabs[d].name, b["what"], b["kind"], b["off"]))

    # ---- 8. totality: depth-scaled family, 3 sizes up to 64 KiB; sequential timing
    sizes = [16384, 32768, 65536]
    fam = {s: scaled_family(s) for s in sizes}
    scale_obs = {}
    for s in sizes:
        reqs = [{"id": k, "b64": b64(t[:65536]), "limit_ms": TIME_LIMIT_MS, "reps": T["scale_reps"]} for k, t in fam[s].items()]
        inp = ctx.path("scale-%d.in" % s)
        outp = ctx.path("scale-%d.out" % s)
        vlib.write_ndjson(inp, reqs)
        p = ctx.run([harness, "parse", inp, outp], timeout=3000, check=False, env={"GOMAXPROCS": "2", "VERIF_WORKERS": "1"})
        if p.returncode != 0:
            crash_hunt(ctx, harness, [("scaled %s size=%d" % (k, s), t[:65536]) for k, t in fam[s].items()], p)
            continue
        for o in vlib.read_ndjson(outp):
            scale_obs[(o["id"], s)] = o
            ctx.count(1, "scaled %s size=%d -> %s" % (o["id"], s, "ast" if o["ok"] else "error"))
            judge_total(ctx, o, {"kind": "total", "b64": b64(fam[s][o["id"]][:65536])}, "scaled %s size=%d" % (o["id"], s),
                        {"check": "C03.total", "family": "scaled", "doc": o["id"]})
    growth = {}
    for k in fam[sizes[0]]:
        if all((k, s) in scale_obs for s in sizes):
            t = [scale_obs[(k, s)]["ns"] for s in sizes]
            growth[k] = [round(x / 1e6, 2) for x in t]
            # superlinear blow-up: more than 3x per doubling, twice in a row, on a clearly measurable time (>= 0.5 s
            # at 64 KiB; a linear parse of 64 KiB takes a few ms), re-measured to exclude scheduling noise
            if t[2] >= 500e6 and t[1] > 0 and t[0] > 0 and t[2] / t[1] > 3.0 and t[1] / t[0] > 3.0:
                again = []
                for s2 in sizes:
                    r3, _ = run_parse(ctx, harness, [{"id": k, "b64": b64(fam[s2][k][:65536]), "limit_ms": 6 * TIME_LIMIT_MS, "cpu": True}],
                                      "rescale", timeout=600, env={"VERIF_WORKERS": "1", "GOMAXPROCS": "2"})
                    again.append(r3[0]["cpu_ns"] if r3 else 0)       # CPU time of a single-threaded process: robust against load
                t = again
                growth[k] = [round(x / 1e6, 2) for x in t]
            if t[2] >= 500e6 and t[1] > 0 and t[0] > 0 and t[2] / t[1] > 3.0 and t[1] / t[0] > 3.0:
                ctx.violation({"check": "C03.total", "family": "scaled", "what": "superlinear", "doc": k},
                              {"kind": "total", "doc": k, "b64": b64(fam[sizes[2]][k][:65536])}, {"ms_at_16K_32K_64K": growth[k]},
                              "time at most triples when the size doubles",
                              "parse time grows faster than 3x per doubling on %s: %s ms" % (k, growth[k]))
    ctx.extra_cov["scaled_family_ms_16K_32K_64K"] = growth
    ctx.extra_cov["bytepass_not_spec_derived"] = {"documents": len(canon), "parses": nbyte,
                                                  "note": "harness-side truncation at every byte and single-byte overwrite with "
                                                          "\" ' \\ / * # NUL 0xff over the canonical TLC documents; NOT derived from the spec"}
    ctx.extra_cov["layout_cases_by_family"] = fam_count
    ctx.extra_cov["mutants"] = len(mutants)
    ctx.extra_cov["documents"] = len(alldocs)
    ctx.extra_cov["pieces_crosschecked"] = checked_pieces
    ctx.extra_cov["handwritten_documents_not_spec_derived"] = len(hw)
    ctx.exhaustive = False
    return ctx.finish(
        rule="documents = program models of lib/c03_seeds.py; per document TLC enumerates the canonical layout, every single-gap "
             "deviation (gap x 8 layout elements, \"\" only where tokens cannot fuse), all-gaps-same per element, separator choice "
             "per list kind, quote style per literal, every number spelling, all token-level mutants; random full layouts and gap "
             "pairs by -simulate (seed). distinct class = family + (layout element, kinds of the neighbouring tokens | list kind | "
             "token role and spelling | mutant kind, token kind, outcome | scaled document, size, outcome). traces_validated = "
             "documents whose real AST was compared with the TLC-computed expectation",
        assumptions=["requiredness written inside throws(...) is not compared (the parser deliberately stores optional there)",
                     "include statements with an empty or repeated path, cpp_type, and literals with raw line breaks are outside the universe",
                     "literal contents in which a backslash stands immediately before a quote character (raw \\\\\" or \\\\') are outside the "
                     "universe: docs/string-literals-in-the-IDL.md is normative, the walker keeps a backslash pair before it looks for an "
                     "escaped delimiter (LexLit.tla WalkLit / Plain), so such contents cannot be written in both quote styles",
                     "totality over arbitrary byte strings is explored only around the TLC documents (token mutants, byte pass) and on the "
                     "depth-scaled family; time bound 20 s per document, blow-up = more than 3x per doubling twice in a row"],
        trusted=["TLC", "lib/idl.py tokens()", "harness/cmd/inproc/lexical.go (projection of parser.Thrift)",
                 "lib/c03_lex.py render (cross-checked against Pieces() on a sample) and expected_projection assembly"])


def style_of(variant):
    v = variant
    if v.startswith("0x"):
        return "hex"
    if v.startswith("0o"):
        return "octal"
    if "e" in v.lower() and not v.startswith("0x"):
        return "exponent"
    if v.startswith("+"):
        return "plus"
    if v.startswith("."):
        return "nointpart"
    return "plain"


def generalize(d):
    """diff path without indices: '.structs[2].fields[0].id: 0 vs 16' -> 'structs.fields.id'"""
    import re
    path = d.split(":")[0]
    return re.sub(r"\[\d+\]", "", path).strip(".")


def confirm_slow(ctx, case):
    """a document that exceeded the wall-clock bound is parsed once more, alone in a fresh single-threaded process; it counts
    as too slow only if it needs more than the bound in CPU time as well (wall time alone says little on a loaded machine)"""
    if not case.get("b64"):
        return True, {}
    res, p = run_parse(ctx, ctx.harness_bin, [{"id": "confirm", "b64": case["b64"], "limit_ms": 6 * TIME_LIMIT_MS, "cpu": True}],
                       "confirm", timeout=600, env={"VERIF_WORKERS": "1", "GOMAXPROCS": "2"})
    if res is None:
        return True, {"crash": p.stderr[-500:]}
    o = res[0]
    slow = bool(o.get("timeout")) or o.get("cpu_ns", 0) > TIME_LIMIT_MS * 1e6
    return slow, {"confirm_ns": o.get("ns"), "confirm_cpu_ns": o.get("cpu_ns"), "confirm_timeout": o.get("timeout")}


def judge_total(ctx, o, case, what, cls):
    if o.get("panic"):
        ctx.violation(dict(cls, what="panic"), case, {"panic": o["panic"]}, "an AST or an error", "parser panicked on %s" % what)
    elif o.get("timeout") or o.get("ns", 0) > TIME_LIMIT_MS * 1e6:
        slow, info = confirm_slow(ctx, case)
        if slow:
            ctx.violation(dict(cls, what="timeout"), case, dict(info, ns=o.get("ns")), "an answer within 20 s (CPU time)",
                          "parser too slow on %s" % what)
        else:
            ctx.notes.append("wall-clock bound exceeded but not confirmed in CPU time (machine load): %s %s" % (what, info))


def crash_hunt(ctx, harness, named_texts, p):
    """the harness process died (e.g. fatal stack overflow): find the document(s) by running them one per process"""
    found = 0
    for name, text in named_texts:
        r, p1 = run_parse(ctx, harness, [{"id": "x", "b64": b64(text), "limit_ms": TIME_LIMIT_MS}], "hunt", timeout=120)
        if r is None:
            found += 1
            ctx.violation({"check": "C03.total", "what": "crash", "family": name.split(" ")[0]},
                          {"kind": "total", "b64": b64(text)}, {"rc": p1.returncode, "stderr": p1.stderr[-1500:]},
                          "an AST or an error", "parser crashed the process (unrecoverable) on %s" % name)
            if found >= 5:
                break
    if not found:
        raise vlib.MachineryError("harness died (rc=%d) but no single document reproduces it: %s" % (p.returncode, p.stderr[-2000:]))


def replay(ctx, harness, path):
    rp = json.load(open(path))
    case = rp["case"]
    kind = case.get("kind")
    if "b64" not in case:
        raise vlib.MachineryError("replay file has no document")
    reqs = [{"id": "doc", "b64": case["b64"], "proj": True, "limit_ms": TIME_LIMIT_MS}]
    if case.get("canon_b64"):
        reqs.append({"id": "canon", "b64": case["canon_b64"], "proj": True})
    res, p = run_parse(ctx, harness, reqs, "replay")
    ctx.count(1, "replay " + str(kind))
    if res is None:
        ctx.violation({"check": "C03.total", "what": "crash"}, case, {"rc": p.returncode, "stderr": p.stderr[-1500:]},
                      "an AST or an error", "parser crashed the process")
        return ctx.finish("replay of one document")
    o = res[0]
    judge_total(ctx, o, case, "replayed document", {"check": "C03.total"})
    if kind == "fidelity":
        if not o["ok"]:
            ctx.violation({"check": "C03.fidelity", "where": "rejected"}, case, {"error": o["err"]}, "accepted", "grammatical document rejected")
        else:
            dd = lex.diff(lex.norm_projection(o["proj"]), case["expected"])
            if dd:
                ctx.violation({"check": "C03.fidelity", "where": generalize(dd)}, case, {"proj": o["proj"], "diff": dd},
                              "the AST of the program model", "AST differs from the program model: " + dd)
    if kind == "handwritten":
        okf = {n: f for n, _, f in handwritten_docs()}[case["doc"]]
        good = False
        if o["ok"]:
            try:
                good = bool(okf(o["proj"]))
            except (KeyError, IndexError, TypeError):
                good = False
        if not good:
            ctx.violation({"check": "C03.fidelity", "family": "handwritten", "doc": case["doc"]}, case, {"proj": o.get("proj"), "err": o["err"]},
                          "the hand-written expectation", "hand-written document: AST differs or rejected")
    if kind == "layout" and len(res) > 1:
        if res[0].get("h") != res[1].get("h"):
            ctx.violation({"check": "C03.layout"}, case, {"h": res[0].get("h"), "canon_h": res[1].get("h")},
                          "the same AST as the canonical layout", "AST depends on the layout: " +
                          str(lex.diff(res[0].get("proj"), res[1].get("proj"))))
    return ctx.finish("replay of one document")
