"""C02 — generated Read/Write implement the Thrift wire format of the IDL.

Spec: spec/Wire/Wire.tla (order-free tree of the encoding, schema-less parse machine, schema-driven reference
reader), spec/Wire/WireGen.tla (value universe, perturbations, design-level round-trip invariants),
spec/Wire/Trace_Wire.tla (trace validation of generated Write), spec/IDL/Shapes.tla (type shapes).
Flow: TLC enumerates type shapes -> programs; TLC enumerates values and perturbed reference encodings per
struct-like and checks the spec against itself; thriftgo (built from /repo) generates code for every
presentation / presentation-only option set; a reflective driver runs generated Write under a recording
protocol (traces validated by TLC) and generated Read on the spec's reference encodings (object, error and
call sequence compared with the reference reader's prediction computed by TLC).
"""
import json
import os

import genlab
import schema as schemalib
import universe
import vlib

LEVEL = "model_checking"

REGISTRY = dict(
    level="model_checking",
    text="The wire format is an explicit TLA+ machine (writer tree, parse machine, reference reader). TLC checks the spec "
         "against itself on the whole bounded value universe, generates every case, and validates each recorded TProtocol "
         "call trace of generated Write step by step; generated Read is run on the spec's own reference encodings "
         "(with unknown / retagged / dropped fields) and must return the object, error and Skip decisions the reference "
         "reader prescribes.",
    design_ref="DESIGN.md 6 C02",
    note="Trusted: apache/thrift TBinaryProtocol for scalar bytes (atoms are opaque in the model), harness recorder/driver "
         "(pkg/rec, pkg/drv), TLC. Bounded: type shapes to depth 1 (thorough 2), small value domains per type, <= 40 values "
         "per struct-like.",
    technique="TLA+ wire-format machine; TLC-generated values + trace validation of recorded TProtocol calls; reference-reader "
              "prediction for generated Read")

# options that must not change a single wire token
PRESENTATION_OPTS = {
    "quick": [[], ["naming_style=golint", "gen_setter", "nil_safe", "json_enum_as_text"],
              ["enum_as_int_32", "value_type_in_container", "gen_deep_equal=false", "keep_unknown_fields"]],
    "thorough": [[], ["naming_style=golint"], ["naming_style=apache"], ["gen_setter"], ["nil_safe"],
                 ["json_enum_as_text"], ["enum_as_int_32"], ["value_type_in_container"], ["gen_deep_equal=false"],
                 ["keep_unknown_fields"], ["use_type_alias=false"], ["typed_enum_string"], ["frugal_tag"],
                 ["gen_db_tag"], ["validate_set=false"], ["reorder_fields"], ["snake_style_json_tag"],
                 ["lower_camel_style_json_tag"], ["omitempty_for_optional=false"], ["compatible_names"],
                 ["gen_type_meta"], ["gen_json_tag=false"], ["always_gen_json_tag"], ["enable_ref_interface"],
                 ["skip_empty"], ["scan_value_for_enum=false"], ["with_reflection"]],
}


def norm(sc, t, v, presence=False):
    """normal form for comparing read results: nil containers/binaries == empty; map entries sorted.
    presence=True: an OPTIONAL container/binary field keeps the difference between absent (nil) and present-but-empty --
    for optional fields that difference is the field's presence (IsSet, and whether Write emits it again)."""
    if v is None:
        return v
    if "nil" in v:
        if t["n"] in ("list", "set"):
            return {"l": []}
        if t["n"] == "map":
            return {"m": []}
        if t["n"] == "binary":
            return {"a": "bin:"}
        return {"nil": True}
    if t["n"] in ("list", "set"):
        return {"l": [norm(sc, t["v"], x, presence) for x in (v.get("l") or [])]}
    if t["n"] == "map":
        ents = [[norm(sc, t["k"], k, presence), norm(sc, t["v"], x, presence)] for k, x in (v.get("m") or [])]
        ents.sort(key=lambda e: json.dumps(e[0], sort_keys=True))
        return {"m": ents}
    if t["n"] == "struct":
        fs = v.get("s")
        if not isinstance(fs, dict):
            fs = {}
        out = {}
        for f in sc["structs"][t["s"]]["fields"]:
            if f["name"] in fs:
                x = fs[f["name"]]
                if (presence and f["req"] == "optional" and "none" in f["def"] and isinstance(x, dict) and "nil" in x
                        and f["type"]["n"] in ("list", "set", "map", "binary")):
                    out[f["name"]] = {"nil": True}
                else:
                    out[f["name"]] = norm(sc, f["type"], x, presence)
        return {"s": out}
    return v


def value_end(toks, p):
    """index just after the value starting at toks[p] (well-formed token sequences)"""
    t = toks[p]["t"]
    if t == "V":
        return p + 1
    if t in ("LB", "XB"):
        q = p + 1
        for _ in range(toks[p]["n"]):
            q = value_end(toks, q)
        return q + 1
    if t == "MB":
        q = p + 1
        for _ in range(2 * toks[p]["n"]):
            q = value_end(toks, q)
        return q + 1
    if t == "SB":
        q = p + 1
        while toks[q]["t"] != "STOP":
            q = value_end(toks, q + 1) + 1
        return q + 2
    raise ValueError("not a value start: %r" % (toks[p],))


def calls_ok(obs, exp_calls, wire):
    """The reference reader passes over a field it does not take with one Skip(ty). The property only says such
    fields are skipped 'without disturbing other fields', so an implementation that consumes the payload by reading
    it through the protocol (e.g. to keep unknown fields) is equally a behaviour of the spec: at each SKIP the
    observation may instead show the payload's tokens verbatim."""
    i = j = k = 0
    while i < len(exp_calls):
        e = exp_calls[i]
        if e["t"] == "SKIP":
            k2 = value_end(wire, k)
            if j < len(obs) and obs[j] == e:
                j += 1
            elif obs[j:j + (k2 - k)] == wire[k:k2]:
                j += k2 - k
            else:
                return False
            k = k2
        else:
            if j >= len(obs) or obs[j] != e:
                return False
            j += 1
            k += 1
        i += 1
    return j == len(obs)


def gen_cases(ctx, sc, maxvals, depth, readvals, breadth, label, setdups=False, module="MC_WireGen", invariants=None):
    cfg = ("INIT Init\nNEXT Next\nCONSTANTS\n  SetDups = %s\n  MaxVals = %d\n  Depth = %d\n  ReadVals = %d\n"
           "  Breadth = \"%s\"\nINVARIANTS %s\nCHECK_DEADLOCK FALSE\n"
           % ("TRUE" if setdups else "FALSE", maxvals, depth, readvals, breadth,
              invariants or "WriterParses RoundTrip PerturbedWellFormed UnknownIgnored Emit"))
    tsc, _ = schemalib.to_tla(sc)
    r = ctx.tlc("Wire", module, "gen.cfg", files={"gen.cfg": cfg, "schema.json": json.dumps(tsc)},
                timeout=3000, label=label)
    cases = ctx.tlc_cases(r)
    # every writable value is also a read case on its own reference encoding (the reference reader's prediction
    # comes with the case)
    extra = []
    for c in cases:
        if c["k"] == "w" and c.get("writable") and c.get("enc"):
            extra.append({"k": "r", "s": c["s"], "pert": {"kind": "own-encoding"}, "toks": c["enc"], "exp": c["exp"]})
    return cases + extra


def validate_write_traces(ctx, sc, rows, label):
    """rows: list of dict(s, v, toks, err) -> set of accepted indexes, diagnostics for rejected ones"""
    accepted = set()
    CH = 20000
    tsc, sidx = schemalib.to_tla(sc)
    sc_json = json.dumps(tsc)
    rows = [dict(r, s=sidx[r["s"]]) for r in rows]
    for off in range(0, len(rows), CH):
        chunk = rows[off:off + CH]
        tf = ctx.path("wtraces-%s-%d.ndjson" % (label, off))
        vlib.write_ndjson(tf, chunk)
        r = ctx.tlc("Wire", "Trace_Wire", "Trace_Wire", files={"traces.ndjson": tf, "schema.json": sc_json},
                    timeout=3000, label="Trace_Wire[%s+%d]" % (label, off))
        for s in r["lines"]:
            if s.startswith("ACC "):
                accepted.add(off + int(s[4:]) - 1)
        os.remove(tf)
    ctx.traces_validated += len(rows)
    rejected = [i for i in range(len(rows)) if i not in accepted]
    reach = {}
    if rejected:
        sub = rejected[:40]
        tf = ctx.path("wdiag-%s.ndjson" % label)
        vlib.write_ndjson(tf, [rows[i] for i in sub])
        r = ctx.tlc("Wire", "Trace_Wire", "Trace_Wire_diag", files={"traces.ndjson": tf, "schema.json": sc_json},
                    timeout=600, workers=1, label="Trace_Wire_diag[%s]" % label)
        for s in r["lines"]:
            if s.startswith("AT "):
                _, t, l = s.split()
                i = sub[int(t) - 1]
                reach[i] = max(reach.get(i, 0), int(l))
    return accepted, rejected, reach


def shape_class(sc, s):
    st = sc["structs"][s]
    if len(st["fields"]) == 1:
        f = st["fields"][0]
        return "%s %s%s %s" % (st["kind"], f["req"], "" if "none" in f["def"] else "+default", type_sig(f["type"]))
    return "%s %s" % (st["kind"], s)


def type_sig(t):
    if t["n"] in ("list", "set"):
        return "%s<%s>" % (t["n"], type_sig(t["v"]))
    if t["n"] == "map":
        return "map<%s,%s>" % (type_sig(t["k"]), type_sig(t["v"]))
    return t["n"]


def run_lab(ctx, lab_cases, sc, tlc_cases, tag):
    """lab_cases: list of (case id, program, opts). Returns number of violations recorded."""
    lab = genlab.Lab(ctx, "lab-" + tag)
    for cid, prog, opts in lab_cases:
        lab.add_case(cid, prog, opts)
    lab.generate()
    regs = []
    usable = []
    for cid, prog, opts in lab_cases:
        c = lab.cases[cid]
        if c.rc != 0:
            # thriftgo rejected a configuration this check considers valid: not a C02 event, but the
            # check cannot run it either -> machinery error (the universe must be accepted by thriftgo)
            raise vlib.MachineryError("thriftgo failed on case %s (%s): %s" % (cid, " ".join(c.cmd), c.stderr[-2000:]))
        regs += genlab.struct_regs(c)
        usable.append(cid)
    lab.write_driver(regs)
    ok, out, binary = lab.build()
    if not ok:
        ctx.violation({"check": "C02.compile"}, {"cases": [(c, o) for c, _, o in lab_cases]}, out[-4000:],
                      "generated code compiles", "generated code does not compile (see C01)")
        return
    # scenarios
    scen = []
    meta = []
    for cid in usable:
        for k, tc in enumerate(tlc_cases):
            if tc["k"] == "w":
                scen.append({"id": len(scen), "op": "w", "case": cid, "s": tc["s"], "v": tc["v"]})
            else:
                scen.append({"id": len(scen), "op": "r", "case": cid, "s": tc["s"], "toks": tc["toks"]})
            meta.append((cid, k))
    res = lab.run_driver(binary, {cid: sc for cid in usable}, scen, tag)
    opts_of = {cid: opts for cid, _, opts in lab_cases}
    # ---- write side: TLC trace validation
    wrows, widx = [], []
    for i, (r, (cid, k)) in enumerate(zip(res, meta)):
        tc = tlc_cases[k]
        cls = shape_class(sc, tc["s"])
        if tc["k"] == "w":
            ctx.count(1, "write " + cls)
            if r.get("panic"):
                ctx.violation({"check": "C02.write", "kind": "panic", "shape": cls},
                              {"case": cid, "opts": opts_of[cid], "s": tc["s"], "v": tc["v"]}, r["panic"][:1500],
                              "no panic", "generated Write panicked")
                continue
            wrows.append({"s": tc["s"], "v": tc["v"], "toks": r.get("toks") or [], "err": bool(r.get("err"))})
            widx.append(i)
        else:
            ctx.count(1, "read %s %s" % (tc["pert"]["kind"], cls))
            exp = tc["exp"]
            what = None
            if r.get("panic"):
                what = "panic"
            elif bool(r.get("err")) != bool(exp["err"]):
                what = "error-flag"
            elif not exp["err"]:
                st = {"n": "struct", "s": tc["s"]}
                if norm(sc, st, r.get("v"), True) != norm(sc, st, exp["v"], True):
                    what = "object"
                elif not calls_ok(r.get("toks") or [], exp["calls"], tc["toks"]):
                    what = "calls"
                elif r.get("x"):
                    what = "unread-bytes"
            if what:
                ctx.violation({"check": "C02.read", "kind": what, "pert": tc["pert"]["kind"], "shape": cls},
                              {"case": cid, "opts": opts_of[cid], "s": tc["s"], "toks": tc["toks"], "pert": tc["pert"]},
                              {"err": r.get("err"), "v": r.get("v"), "calls": r.get("toks"), "panic": r.get("panic")},
                              exp, "generated Read deviates from the reference reader: " + what)
    accepted, rejected, reach = validate_write_traces(ctx, sc, wrows, tag)
    for j in rejected:
        i = widx[j]
        cid, k = meta[i]
        tc = tlc_cases[k]
        row = wrows[j]
        at = reach.get(j)
        ctx.violation({"check": "C02.write", "kind": "trace-rejected", "shape": shape_class(sc, tc["s"])},
                      {"case": cid, "opts": opts_of[cid], "s": tc["s"], "v": tc["v"]},
                      {"toks": row["toks"], "err": res[i].get("err"), "matched_calls": (at - 1) if at else None},
                      "a behaviour of Trace_Wire (encoding tree == Tree(schema, value), or error iff not writable)",
                      "recorded Write trace rejected by the wire spec")
    if wrows:
        ctx.sample({"write_trace": wrows[len(wrows) // 3]})
    rr = [(tc, r) for r, (cid, k) in zip(res, meta) for tc in [tlc_cases[k]] if tc["k"] == "r"]
    if rr:
        tc, r = rr[len(rr) // 2]
        ctx.sample({"read_case": {"s": tc["s"], "pert": tc["pert"], "toks": tc["toks"], "expected": tc["exp"],
                                  "observed": {"v": r.get("v"), "err": r.get("err"), "calls": r.get("toks")}}})


def run(ctx, args):
    if args.replay:
        # the cases are regenerated deterministically by TLC: a replay re-runs the tier and reports the recorded
        # class again if it still occurs
        vlib.log("replay: re-running the %s tier; recorded case: %s" % (ctx.tier, open(args.replay).read()[:300]))
    thorough = ctx.tier == "thorough"
    shapes = universe.enumerate_shapes(ctx, 1)
    prog = universe.base_program(shapes)
    sc = schemalib.schema_of(prog)
    cases = gen_cases(ctx, sc, 40, 2, 3 if thorough else 2, "wide" if thorough else "narrow", "WireGen[d1]")
    nw = sum(1 for c in cases if c["k"] == "w")
    if not any(c["k"] == "w" and not c["writable"] for c in cases):
        raise vlib.MachineryError("vacuous: no unwritable union value in the universe")
    if not any(c["k"] == "r" and c["exp"]["err"] for c in cases):
        raise vlib.MachineryError("vacuous: no read case with a missing required field")
    vlib.log("universe: %d structs, %d write cases, %d read cases" % (len(sc["structs"]), nw, len(cases) - nw))
    labs = []
    for k, opts in enumerate(PRESENTATION_OPTS[ctx.tier]):
        labs.append(("o%d" % k, prog, opts))
    labs.append(("ptd", universe.present_typedef(prog, 2), []))
    labs.append(("pinc", universe.present_include(prog), []))
    if thorough:
        labs.append(("ptd3", universe.present_typedef(prog, 3), []))
        labs.append(("pinctd", universe.present_typedef(universe.present_include(prog), 1), []))
    # all presentations share the schema: scenarios are the same TLC cases
    B = 6
    for off in range(0, len(labs), B):
        run_lab(ctx, labs[off:off + B], sc, cases, "b%d" % off)
    if thorough:
        shapes2 = [s for s in universe.enumerate_shapes(ctx, 2) if json.dumps(s).count('"v"') >= 2]
        step = max(1, len(shapes2) // 240)
        pick = shapes2[(ctx.seed % step)::step]
        prog2 = universe.base_program(pick)
        prog2["files"][0]["defs"] = [d for d in prog2["files"][0]["defs"]
                                     if d["name"] in ("E", "In") or d["name"].startswith("W")]
        sc2 = schemalib.schema_of(prog2)
        cases2 = gen_cases(ctx, sc2, 12, 1, 1, "narrow", "WireGen[d2]")
        run_lab(ctx, [("d2", prog2, [])], sc2, cases2, "d2")
    return ctx.finish(
        rule="programs from TLC-enumerated type shapes x requiredness/default variants + hand-written multi-field, union, "
             "exception, recursive, sparse-id struct-likes; values and perturbed reference encodings enumerated by TLC "
             "(WireGen); presentations (direct, typedef chains, include) and presentation-only option sets share the cases. "
             "distinct class = (operation, perturbation kind, struct kind, requiredness, default?, type shape)",
        assumptions=["Go identifiers of the universe's types equal their IDL names (names chosen to be style-invariant)",
                     "nil and empty containers/binaries are the same abstract value on the read side"],
        trusted=["apache/thrift v0.13.0 TBinaryProtocol/TMemoryBuffer", "harness pkg/rec, pkg/drv", "TLC", "go toolchain"])


def replay(ctx, path):
    rp = json.load(open(path))
    raise vlib.MachineryError("replay: re-run `bin/check C02`; the case is %s" % json.dumps(rp.get("case"))[:400])
