"""C14 -- field-mask library: queries and JSON transport agree with path semantics; nothing panics.

1. spec/FieldMask/FieldMask.tla: layer A = what a list of thrift paths means as a SET of simple paths (error
   classes, white / black "in mask" answer at every position, All(), PathInMask); layer B = the trie as
   fieldmask/mask.go builds it, its queries and its JSON transfer image.  TLC feeds layer B one path per step, so it
   visits every list of <= MaxLen alphabet paths in every order and grouping, in both modes, evaluates B => A and the
   model-level JSON round trip on every state, and prints each list as a case with A's prescription.
2. Every case is replayed into the real library (harness `inproc mask`): NewFieldMask, every query, MarshalJSON
   (4x) / Marshal, UnmarshalJSON / Unmarshal / json.Unmarshal and every query again.  The observations are compared
   with A's prescription computed by TLC.  Lists with equal path sets must give equal JSON text.
3. spec/FieldMask/FieldMaskRobust.tla enumerates the mutation x position space of the path grammar and of the JSON
   transfer schema; every string goes through every entry point; a panic is a violation, an error is fine.
A disagreement between layer B and layer A that the real code does not share is a machinery error (exit 2).
"""
import collections
import json
import os

import vlib

LEVEL = "model_checking"

REGISTRY = dict(
    level="model_checking",
    text="TLC feeds the transcribed trie (addPath/reset/setAll, queries, JSON image) every list of <= 3 (thorough: 4) "
         "alphabet paths in every order and grouping, both modes, checks it against the path-set semantics and emits "
         "each list with the prescribed answers; every list is replayed into the real fieldmask package (all queries, "
         "JSON round trip through the three entry points, text stability, equal text for equal path sets) and compared; "
         "TLC-enumerated mutations of the path grammar and of the JSON transfer schema are fed to every entry point and "
         "any panic is a violation.",
    design_ref="DESIGN.md 6 C14",
    note="Trusted: TLC, harness/cmd/inproc/mask.go (runs the queries, recover, watchdog), the rendering of mutation "
         "tokens to bytes in checks/c14.py. Bounded: one descriptor with 11+4 fields (struct, typedef, list/set, "
         "int/str/enum/bool maps, nested 2 levels, ids 1..300 and negative), alphabets of 9..57 paths, 63 walks + 44 "
         "PathInMask queries; 36 hostile path tokens x every position of 10 base paths; ~10^4 JSON documents.",
    technique="TLA+ refinement (trie => path-set semantics) + TLC-generated cases with prescribed answers replayed "
              "into the real package + TLC-enumerated grammar mutations for robustness")

SPECDIR = "FieldMask"
WORKERS = int(os.environ.get("VERIF_TLC_WORKERS", "0")) or None      # None = all cores

CFG = """SPECIFICATION Spec
CONSTANTS
  RootName = "%(root)s"
  AlphabetName = "%(alphabet)s"
  PimsName = "%(pims)s"
  MaxLen = %(maxlen)d
  Fixes = {%(fixes)s}
INVARIANTS TypeOK Emit
CHECK_DEADLOCK FALSE
"""

# (root, alphabet, maxlen)
SEM_TIERS = {
    "quick": [dict(root="R", alphabet="aFull", maxlen=2, pims="cPimsR"),
              dict(root="R", alphabet="aTiny", maxlen=3, pims="cPimsR"),
              dict(root="R", alphabet="aBig", maxlen=2, pims="cPimsR"),
              dict(root="N", alphabet="aNeg", maxlen=2, pims="cPimsN")],
    "thorough": [dict(root="R", alphabet="aFull", maxlen=2, pims="cPimsR"),
                 dict(root="R", alphabet="aCore", maxlen=3, pims="cPimsR"),
                 dict(root="R", alphabet="aSmall", maxlen=4, pims="cPimsR"),
                 dict(root="R", alphabet="aBig", maxlen=3, pims="cPimsR"),
                 dict(root="N", alphabet="aNeg", maxlen=3, pims="cPimsN")],
}

# fields of the harness IDL whose type is written through a typedef (the spec's descriptor has no typedefs:
# they must not change any answer)
TYPEDEF_FIELDS = {"R": {2: "s", 6: "sm"}, "N": {}}


# ------------------------------------------------------------------------------------------------ helpers
def decode_walk(n):
    """base-5 digits, least significant first -> string over n a A P"""
    out = []
    while n:
        out.append(" naAP"[n % 5])
        n //= 5
    return "".join(out)


def norm_desc_type(t):
    if t["k"] in ("scalar",):
        return {"k": "scalar"}
    if t["k"] == "struct":
        return {"k": "struct", "name": t["name"]}
    return {"k": t["k"], "e": norm_desc_type(t["e"])}


def check_descriptor(meta, real):
    for sname, fields in meta["structs"].items():
        if sname not in real:
            raise vlib.MachineryError("struct %s of the spec is not in the harness IDL" % sname)
        a = [(f["id"], f["name"], json.dumps(norm_desc_type(f["t"]), sort_keys=True)) for f in fields]
        b = [(f["id"], f["name"], json.dumps(norm_desc_type(f["t"]), sort_keys=True)) for f in real[sname]]
        if a != b:
            raise vlib.MachineryError("descriptor mismatch for struct %s:\n spec %s\n real %s" % (sname, a, b))


def path_features(paths):
    f = set()
    for p in paths:
        if ".*" in p:
            f.add("struct-star")
    return f


def covering_star(key, pos_steps, n, big=None):
    """is the position prefix pos_steps[:n] covered by a complete path of the set that ends in '*'?"""
    for p in key:
        if len(p) <= n and p and p[-1]["k"] == "*":
            ok = True
            for a, b in zip(p, pos_steps[:len(p)]):
                if a["k"] == "*":
                    continue
                if a["k"] != b[0] or (a["k"] == "s" and a["s"] != b[1]) or (a["k"] != "s" and (big or {}).get(str(a["n"]), str(a["n"])) != b[1]):
                    ok = False
                    break
            if ok:
                return True
    return False


class Sem:
    """one semantic universe: TLC run, replay, comparison"""

    def __init__(self, ctx, harness, spec, tag, fixes=()):
        self.ctx, self.harness, self.spec, self.tag, self.fixes = ctx, harness, spec, tag, fixes
        self.meta = None
        self.cases = []

    def generate(self):
        ctx = self.ctx
        cfg = CFG % dict(self.spec, fixes=", ".join('"%s"' % f for f in sorted(self.fixes)))
        r = ctx.tlc(SPECDIR, "MC_FieldMask", "gen.cfg", files={"gen.cfg": cfg}, timeout=3000, workers=WORKERS,
                    label="MC_FieldMask[%s]" % self.tag)
        for s in r["lines"]:
            if s.startswith("META "):
                self.meta = json.loads(s[5:])
        self.cases = ctx.tlc_cases(r)
        if self.meta is None or not self.cases:
            raise vlib.MachineryError("TLC emitted no META / no cases for " + self.tag)
        # drop duplicates (the two initial states print once each; TLC may print an invariant's output twice)
        seen, out = set(), []
        for c in self.cases:
            k = (c["m"], tuple(c["h"]))
            if k not in seen:
                seen.add(k)
                out.append(c)
        self.cases = out

    def replay(self):
        ctx, meta = self.ctx, self.meta
        qf = ctx.path("q-%s.json" % self.tag)
        walks = [[[st[0], (st[1] if st[0] == "s" else int(st[1]))] for st in w] for w in meta["walks"]]
        with open(qf, "w") as fh:
            json.dump({meta["root"]: {"walks": walks, "pims": meta["pims"]}}, fh)
        casef = ctx.path("cases-%s.ndjson" % self.tag)
        obsf = ctx.path("obs-%s.ndjson" % self.tag)
        al = meta["alphabet"]
        rows = [{"k": "sem", "root": meta["root"], "black": c["m"] == "B", "paths": [al[i - 1] for i in c["h"]]}
                for c in self.cases]
        vlib.write_ndjson(casef, rows)
        ctx.run([self.harness, "mask", casef, obsf], timeout=1800, env={"VERIF_MASK_Q": qf})
        obs = vlib.read_ndjson(obsf)
        if len(obs) != len(rows):
            raise vlib.MachineryError("harness returned %d observations for %d cases" % (len(obs), len(rows)))
        self.rows, self.obs = rows, obs

    # -------------------------------------------------------------------------------------------- judge
    def judge(self):
        ctx, meta = self.ctx, self.meta
        root = meta["root"]
        walks = meta["walks"]
        pims = meta["pims"]
        tdf = TYPEDEF_FIELDS.get(root, {})
        nviol = 0
        groups = collections.defaultdict(list)
        b_only = []          # B disagrees with A, the real code does not
        b_diverge = 0        # B's prediction differs from the real answers (information)
        for c, row, o in zip(self.cases, self.rows, self.obs):
            paths = row["paths"]
            feats = path_features(paths)
            viol = []        # (class, observed, expected, what)
            rt_viol = False

            def V(cls, observed, expected, what):
                cls = dict(cls)
                cls.setdefault("check", "C14.sem")
                cls["mode"] = c["m"]
                cls["root"] = root
                viol.append((cls, observed, expected, what))

            if o.get("panic"):
                first = o["panic"].split("\n")[0]
                feat = "other"
                if root == "N":
                    feat = "negative-field-id"
                V({"kind": "panic", "stage": stage_class(o["stage"]), "feature": feat},
                  {"panic": first, "stage": o["stage"]}, "no panic", "the library panicked: " + first)
            elif c["oa"] == "E":
                if o["built"]:
                    V({"kind": "error-expected", "errkind": ",".join(sorted(c["ek"]))}, {"built": True, "json": o.get("json")},
                      "an error (%s)" % ",".join(c["ek"]), "a list with an invalid path was accepted")
            elif c["oa"] == "ok":
                if not o["built"]:
                    V({"kind": "unexpected-error", "feature": ",".join(sorted(feats)) or "plain"},
                      {"err": o.get("err")}, "a mask", "a valid conflict-free list was rejected")
            if o.get("built") and not o.get("panic") and c["oa"] == "ok":
                ob = o["obs"]
                exp_all = decode_walk(c["aall"])
                if ("A" if ob["all"] else "a") != exp_all:
                    V({"kind": "answer", "query": "All", "feature": "root"}, {"all": ob["all"]}, exp_all, "root All() differs")
                if ob["exist"] != bool(paths):
                    V({"kind": "answer", "query": "Exist", "feature": "root"}, {"exist": ob["exist"]}, bool(paths),
                      "root Exist() differs")
                for i, (w, ow) in enumerate(zip(c["aw"], ob["walks"])):
                    ew = decode_walk(w)
                    if ew == ow:
                        continue
                    # first differing step
                    j = 0
                    while j < min(len(ew), len(ow)) and ew[j] == ow[j]:
                        j += 1
                    step = walks[i][j] if j < len(walks[i]) else walks[i][-1]
                    e_ch = ew[j] if j < len(ew) else "-"
                    o_ch = ow[j] if j < len(ow) else "-"
                    query = {"f": "Field", "i": "Int", "s": "Str"}[step[0]]
                    if {e_ch, o_ch} == {"A", "a"}:
                        query = "All"
                    feat = "plain"
                    if c["m"] == "B" and covering_star(c["key"], walks[i], j + 1, meta.get("bigints")):
                        feat = "black-terminal-star"
                    elif "struct-star" in feats:
                        feat = "struct-star"
                    V({"kind": "answer", "query": query, "feature": feat},
                      {"walk": walks[i], "answers": ow}, ew,
                      "%s answer differs at step %d of walk %s: real %s, prescribed %s" % (query, j + 1, walks[i], ow, ew))
                    break   # one report per case
                if c["ap"]:
                    op = ob["pims"]
                    for k, (e, a) in enumerate(zip(c["ap"], op)):
                        if str(e) != a:
                            q = pims[k]
                            feat = "plain"
                            if any(("." + n + ".") in (q + ".") or ("." + n + "[") in q or ("." + n + "{") in q
                                   for n in tdf.values()) and q.count(".") + q.count("[") + q.count("{") >= 2:
                                feat = "through-typedef"
                            if "struct-star" in feats or ".*" in q:
                                feat = "struct-star"
                            V({"kind": "answer", "query": "PathInMask", "feature": feat},
                              {"query": q, "answer": a == "1"}, bool(e),
                              "PathInMask(%s) is %s, prescribed %s" % (q, a == "1", bool(e)))
                            break
            # transport: every built mask, whatever A says about its answers
            if o.get("built") and not o.get("panic"):
                if not o.get("json"):
                    V({"check": "C14.json", "kind": "marshal-error"}, {"notes": o.get("notes")}, "JSON text", "MarshalJSON failed")
                else:
                    if not o["stable"]:
                        V({"check": "C14.json", "kind": "unstable-text"}, {"json": o["json"], "notes": o.get("notes")},
                          "the same text every time", "MarshalJSON / Marshal text differs between calls")
                    if not o["jsonok"]:
                        V({"check": "C14.json", "kind": "invalid-json"}, {"json": o["json"]}, "valid JSON", "output is not JSON")
                    for ent in ("rt", "rt2", "rt3"):
                        im = o.get(ent) or {}
                        feat = "plain"
                        if not paths:
                            feat = "empty-mask"
                        elif c["oa"] == "?":
                            feat = "conflict-" + "+".join(sorted(c["ck"]))
                        entry = {"rt": "UnmarshalJSON", "rt2": "Unmarshal", "rt3": "json.Unmarshal"}[ent]
                        if im.get("err") or im.get("panic"):
                            V({"check": "C14.json", "kind": "roundtrip-error", "feature": feat},
                              {"json": o["json"], "entry": entry, "err": im.get("err") or im.get("panic")}, "the mask back",
                              "%s rejects the library's own output" % entry)
                            rt_viol = True
                            break
                        if im.get("obs") != o["obs"]:
                            V({"check": "C14.json", "kind": "roundtrip-answers", "feature": feat},
                              {"json": o["json"], "entry": entry, "before": o["obs"], "after": im.get("obs")},
                              "identical answers", "the mask read back through %s answers differently" % entry)
                            rt_viol = True
                            break
                        if im.get("json") != o["json"]:
                            V({"check": "C14.json", "kind": "roundtrip-text", "feature": feat},
                              {"json": o["json"], "entry": entry, "after": im.get("json")}, "identical text",
                              "the mask read back marshals to a different text")
                            rt_viol = True
                            break
                    if c["oa"] == "ok":
                        groups[(c["m"], json.dumps(c["key"], sort_keys=True))].append((paths, o["json"]))
            # layer B honesty
            a_viol = any(v[0]["check"] == "C14.sem" for v in viol)
            if not c["ref"] and not a_viol:
                b_only.append((c["m"], paths, "B=>A fails in the model (be=%r) but the real code conforms to A" % c["be"]))
            if not c["rt"] and not (rt_viol or o.get("panic")):
                b_only.append((c["m"], paths, "model round trip fails but the real one holds"))
            if o.get("built") and not o.get("panic") and c["be"] == "":
                if [decode_walk(w) for w in c["bw"]] != o["obs"]["walks"]:
                    b_diverge += 1
            elif not o.get("panic") and bool(c["be"]) != (not o.get("built")) and c["be"] != "PANIC":
                b_diverge += 1
            # account
            cls_s = "%s root=%s len=%d outcome=%s kinds=%s" % (
                c["m"], root, len(paths), c["oa"], ",".join(sorted(set(meta["single"][i - 1] or "ok" for i in c["h"]))))
            ctx.count(1, cls_s)
            for cls, observed, expected, what in viol:
                if ctx.violation(cls, {"k": "sem", "root": root, "black": c["m"] == "B", "paths": paths, "tlc": c,
                                       "meta": meta, "maxlen": self.spec["maxlen"]}, observed, expected, what):
                    nviol += 1
            if len(paths) == self.spec["maxlen"] and c["oa"] == "ok" and not viol:
                ctx.sample({"root": root, "mode": c["m"], "paths": paths, "json": o.get("json"),
                            "walk0": [walks[0], o["obs"]["walks"][0]] if o.get("obs") else None})
        # equal path sets -> equal text
        for (m, key), lst in groups.items():
            texts = {t for _, t in lst}
            if len(texts) > 1:
                a = lst[0]
                b = next(x for x in lst if x[1] != a[1])
                feat = "struct-star" if any(".*" in p for p in a[0] + b[0]) else "plain"
                if ctx.violation({"check": "C14.json", "kind": "text-depends-on-order", "mode": m, "root": root, "feature": feat},
                                 {"k": "sem2", "root": root, "black": m == "B", "paths": a[0], "paths2": b[0], "meta": meta},
                                 {"json": a[1], "json2": b[1]}, "equal text for equal path sets",
                                 "two lists naming the same path set marshal to different JSON"):
                    nviol += 1
            ctx.count(len(lst), None)
        if b_only:
            raise vlib.MachineryError("layer B is a wrong transcription (%d cases), e.g. %s" % (len(b_only), b_only[:3]))
        ctx.traces_validated += len(self.cases)
        ctx.extra_cov.setdefault("layer_b_divergences_from_real_code", 0)
        ctx.extra_cov["layer_b_divergences_from_real_code"] += b_diverge
        ctx.extra_cov.setdefault("refinement_failures_reproduced_on_real_code", 0)
        ctx.extra_cov["refinement_failures_reproduced_on_real_code"] += sum(1 for c in self.cases if not c["ref"] or not c["rt"])
        return nviol


# ------------------------------------------------------------------------------------------------ robustness
RCFG = """SPECIFICATION %(spec)s
CONSTANTS
  MaxMut = %(maxmut)d
  Tokens = {%(tokens)s}
  Tokens2 = {%(tokens2)s}
  DeepDepths = {%(deep)s}
INVARIANTS %(inv)s
CHECK_DEADLOCK FALSE
"""

# token name -> bytes (the projection from the spec's symbolic tokens to concrete input)
PATH_TOKENS = {
    "unterminated-quote": b'"a', "lone-quote": b'"', "backslash": b"\\", "quote-backslash": b'"\\',
    "escaped-quote-unterminated": b'"\\"', "bad-escape-string": b'"\\x"', "empty-string": b'""',
    "unicode-escape-string": b'"\\u00e9"', "empty-index-set": b"[]", "empty-key-set": b"{}", "double-dot": b"..",
    "dollar": b"$", "star": b"*", "comma": b",", "lbracket": b"[", "rbracket": b"]", "lbrace": b"{", "rbrace": b"}",
    "digits-beyond-int64": b"9223372036854775808", "digits-20": b"99999999999999999999",
    "max-int64": b"9223372036854775807", "digits-beyond-int32": b"2147483648", "max-int32": b"2147483647",
    "digits-beyond-int16": b"32768", "negative-number": b"-1", "plus-number": b"+1", "leading-zeros": b"007",
    "float": b"1.5", "space": b" ", "tab": b"\t", "newline": b"\n", "nul": b"\x00", "non-utf8": b"\xff\xfe",
    "utf8": "é".encode(), "long-name": b"a" * 300, "digit-letter": b"1a",
}
TOKENS2 = ["lone-quote", "backslash", "digits-20", "star", "rbracket", "rbrace", "nul", "negative-number"]
JSON_PATH = {"root": '"$"', "star": '"*"', "0": "0", "1": "1", "64": "64", "neg1": "-1", "big32": "2147483648",
             "big64": "9223372036854775808", "huge": "1e400", "float": "1.5", "exp": "1e2", "str": '"a"',
             "strnum": '"1"', "empty": '""', "null": "null", "true": "true", "array": "[]", "object": "{}"}
JSON_TYPE = {"num": "3", "null": "null"}
JSON_BLACK = {"false": "false", "true": "true", "str": '"yes"', "null": "null"}
JSON_KIDS = {"null": "null", "object": "{}", "string": '"x"', "number": "1"}
JSON_BYTES = {"NUL": b"\x00", "FF": b"\xff", "RC": b"}", "Q": b'"', "BS": b"\\"}
BASE_JSON = (b'{"path":"$","type":"Struct","is_black":false,"children":[{"path":3,"type":"List","is_black":false,'
             b'"children":[{"path":"*","type":"Struct","is_black":false}]}]}')

ROBUST_TIERS = {
    "quick": [dict(spec="SpecP", maxmut=1, tokens=sorted(PATH_TOKENS), tokens2=[], deep=[10], inv="EmitP"),
              dict(spec="SpecJ", maxmut=1, tokens=[], tokens2=[], deep=[10, 1000], inv="EmitJ")],
    "thorough": [dict(spec="SpecP", maxmut=1, tokens=sorted(PATH_TOKENS), tokens2=[], deep=[10], inv="EmitP"),
                 dict(spec="SpecP", maxmut=2, tokens=TOKENS2, tokens2=TOKENS2, deep=[10], inv="EmitP"),
                 dict(spec="SpecJ", maxmut=1, tokens=[], tokens2=[], deep=[10, 1000, 9000, 20000], inv="EmitJ")],
}


def render_path_case(c):
    out = b""
    for t, is_tok in zip(c["ps"], c["tok"]):
        if is_tok:
            out += PATH_TOKENS[t]
        elif t == "Q":
            out += b'"'
        else:
            out += t.encode()
    return out


def render_node(d, root=False):
    if d.get("kk") == "deep":
        lab, typ = JSON_PATH[d["p"]], d["t"]
        inner = ""
        for _ in range(d["depth"]):
            inner = '{"path":%s,"type":"%s","is_black":false%s}' % (lab, typ, (',"children":[%s]' % inner) if inner else "")
        return '{"path":"$","type":"%s","is_black":false,"children":[%s]}' % (typ, inner)
    parts = []
    if d["p"] != "missing":
        parts.append('"path":' + JSON_PATH[d["p"]])
    if d["t"] != "missing":
        parts.append('"type":' + JSON_TYPE.get(d["t"], '"%s"' % d["t"]))
    if d["b"] != "missing":
        parts.append('"is_black":' + JSON_BLACK[d["b"]])
    kk = d.get("kk", "array")
    if kk == "array":
        if d["kids"] or root:
            parts.append('"children":[' + ",".join(render_node(k) for k in d["kids"]) + "]")
    elif kk != "missing":
        parts.append('"children":' + JSON_KIDS[kk])
    return "{" + ",".join(parts) + "}"


def render_json_case(c):
    d = c["d"]
    kk = d.get("kk")
    if kk == "raw":
        return d["raw"].encode()
    if kk == "cut":
        return BASE_JSON[:d["at"]] if d["at"] < len(BASE_JSON) else None
    if kk == "byte":
        if d["at"] > len(BASE_JSON):
            return None
        return BASE_JSON[:d["at"]] + JSON_BYTES[d["x"]] + BASE_JSON[d["at"]:]
    return render_node(d, root=True).encode()


def json_class(mut):
    """coarse class record of a JSON case from the spec's mutation name"""
    m = mut[0]
    kv = dict(x.split("=", 1) for x in m.split(",") if "=" in x)
    if "child-path" in kv:
        return {"mutation": "child-path=" + kv["child-path"], "under": kv["under"]}
    if "children" in kv and "under" in kv:
        return {"mutation": "children=" + kv["children"], "under": kv["under"]}
    if "root-path" in kv:
        return {"mutation": "root-path=%s,children=%s" % (kv["root-path"], kv["children"]), "under": kv["root-type"]}
    if "child-children" in kv:
        return {"mutation": "child-children=" + kv["child-children"], "under": kv["under"]}
    if "deep" in kv:
        return {"mutation": "deep", "under": kv["type"]}
    if "stray-byte" in kv:
        return {"mutation": "stray-byte"}
    return {"mutation": m}


def stage_class(stage):
    """NewFieldMask/white -> NewFieldMask; query/white:PathInMask($.*) -> PathInMask; UnmarshalJSON+query -> query"""
    if ":" in stage:
        return stage.split(":", 1)[1].split("(")[0]
    s = stage.split("/")[0].split("#")[0]
    return s.split("+")[-1]


def confirm_hang(ctx, harness, qfile, row):
    """re-run one input alone: a hang must reproduce to count"""
    casef, obsf = ctx.path("hang-case.ndjson"), ctx.path("hang-obs.ndjson")
    vlib.write_ndjson(casef, [row])
    ctx.run([harness, "mask", casef, obsf], timeout=600, env={"VERIF_MASK_Q": qfile})
    return bool(vlib.read_ndjson(obsf)[0].get("hang"))


def robust(ctx, harness, qfile):
    nviol = 0
    allrows = []
    for k, spec in enumerate(ROBUST_TIERS[ctx.tier]):
        cfg = RCFG % dict(spec=spec["spec"], maxmut=spec["maxmut"], inv=spec["inv"],
                          tokens=", ".join('"%s"' % t for t in spec["tokens"]),
                          tokens2=", ".join('"%s"' % t for t in spec["tokens2"]),
                          deep=", ".join(map(str, spec["deep"])))
        r = ctx.tlc(SPECDIR, "FieldMaskRobust", "r.cfg", files={"r.cfg": cfg}, timeout=3000, workers=WORKERS,
                    label="FieldMaskRobust[%s,%d]" % (spec["spec"], spec["maxmut"]))
        cases = ctx.tlc_cases(r, prefix="RCASE ")
        if not cases:
            raise vlib.MachineryError("TLC emitted no robustness cases")
        seen = set()
        for c in cases:
            if c["k"] == "path":
                raw = render_path_case(c)
                cls = {"check": "C14.robust", "input_kind": "path", "mutation": "+".join(c["mut"]) or "none"}
                row = {"k": "path", "root": "R", "hex": raw.hex()}
            else:
                raw = render_json_case(c)
                if raw is None:
                    continue
                cls = {"check": "C14.robust", "input_kind": "json"}
                cls.update(json_class(c["mut"]))
                row = {"k": "json", "hex": raw.hex()}
            key = (row["k"], row["hex"], json.dumps(cls, sort_keys=True))
            if key in seen:
                continue
            seen.add(key)
            allrows.append((row, cls, c["mut"]))
    # vacuity: the hostile inputs the property names are there
    muts = {c["mutation"] for _, c, _ in allrows}
    for need in ("unterminated-quote", "backslash", "empty-index-set", "empty-key-set", "delete-root", "double-dot",
                 "digits-beyond-int64", "digits-beyond-int32", "digits-20", "space", "nul", "non-utf8", "negative-number",
                 "child-path=neg1", "child-path=huge", "child-path=str", "child-path=float", "children=star+1", "deep",
                 "truncated", "raw"):
        if need not in muts:
            raise vlib.MachineryError("vacuous robustness universe: no input with mutation " + need)
    if not any(c.get("mutation") == "child-path=1" and c.get("under") == "Scalar" for _, c, _ in allrows):
        raise vlib.MachineryError("vacuous robustness universe: no children under a Scalar")
    casef, obsf = ctx.path("rcases.ndjson"), ctx.path("robs.ndjson")
    vlib.write_ndjson(casef, [r for r, _, _ in allrows])
    ctx.run([harness, "mask", casef, obsf], timeout=3000, env={"VERIF_MASK_Q": qfile})
    obs = vlib.read_ndjson(obsf)
    if len(obs) != len(allrows):
        raise vlib.MachineryError("harness returned %d observations for %d robustness cases" % (len(obs), len(allrows)))
    queries = json.load(open(qfile))
    accepted = collections.Counter()
    hang_confirmed = {}
    skipped = 0
    for (row, cls, mut), o in zip(allrows, obs):
        if o.get("accept") == "skipped":
            skipped += 1
            continue
        ctx.count(1, "%s:%s%s" % (cls["input_kind"], cls["mutation"], ("/" + cls["under"]) if "under" in cls else ""))
        accepted[(row["k"], bool(o.get("accept")))] += 1
        hang = False
        if o.get("hang"):
            hk = json.dumps(cls, sort_keys=True) + o["stage"]
            if hk not in hang_confirmed:      # one confirmation run per class (a confirmation costs the watchdog time)
                hang_confirmed[hk] = confirm_hang(ctx, harness, qfile, row)
            hang = hang_confirmed[hk]
            if not hang:
                ctx.notes.append("a watchdog timeout did not reproduce when the input was run alone: " + row["hex"][:80])
        if hang:
            cl = dict(cls)
            cl["stage"] = stage_class(o["stage"])
            cl["outcome"] = "hang"
            raw = bytes.fromhex(row["hex"])
            if ctx.violation(cl, {"k": row["k"], "root": row.get("root"), "hex": row["hex"], "input": raw[:200].decode("latin-1"),
                                  "mut": mut, "queries": queries},
                             {"hang": True, "stage": o["stage"]}, "the call returns (a mask or an error)",
                             "%s input %r: %s does not return (45 s watchdog, twice)" % (cls["input_kind"], raw[:80], o["stage"])):
                nviol += 1
        elif o.get("panic"):
            first = o["panic"].split("\n")[0]
            cl = dict(cls)
            cl["stage"] = stage_class(o["stage"])
            raw = bytes.fromhex(row["hex"])
            shown = raw[:200].decode("latin-1") + ("...(%d bytes)" % len(raw) if len(raw) > 200 else "")
            if ctx.violation(cl, {"k": row["k"], "root": row.get("root"), "hex": row["hex"] if len(raw) <= 65536 else None,
                                  "input": shown, "mut": mut, "queries": queries},
                             {"panic": first, "stage": o["stage"]}, "an error or a mask, never a panic",
                             "%s input %r makes %s panic: %s" % (cls["input_kind"], shown[:80], o["stage"], first)):
                nviol += 1
    if skipped:
        if not any(hang_confirmed.values()):
            raise vlib.MachineryError("%d robustness inputs were skipped after watchdog timeouts that do not reproduce" % skipped)
        ctx.notes.append("%d robustness inputs not run: the harness stops after 24 hanging calls" % skipped)
    for k in ("path", "json"):
        if not accepted[(k, True)] or not accepted[(k, False)]:
            raise vlib.MachineryError("vacuous robustness universe: %s inputs are all accepted or all rejected" % k)
    ctx.traces_validated += len(allrows) - skipped
    if allrows:
        ctx.sample({"robust_input": bytes.fromhex(allrows[len(allrows) // 3][0]["hex"])[:120].decode("latin-1"),
                    "class": allrows[len(allrows) // 3][1], "observation": obs[len(allrows) // 3]})
    return nviol


def vacuity(sems):
    cs = [c for s in sems for c in s.cases]
    mx = max(s.spec["maxlen"] for s in sems)
    ok = [c for c in cs if c["oa"] == "ok"]
    dec = ["".join(decode_walk(w) for w in c["aw"]) for c in ok]
    need = {
        "an error list": any(c["oa"] == "E" for c in cs),
        "a '*' conflict list": any("star" in c["ck"] for c in cs),
        "a complete-path / longer-path conflict list": any("prefix" in c["ck"] for c in cs),
        "a conflict-free list of maximal length": any(len(c["h"]) == mx for c in ok),
        "the empty list": any(not c["h"] for c in cs),
        "black and white": {c["m"] for c in cs} == {"W", "B"},
        "two orders of one path set": len({(c["m"], json.dumps(c["key"], sort_keys=True)) for c in ok}) < len(ok),
        "answers n, a and A": any("n" in d and "a" in d and "A" in d for d in dec),
        "a positive and a negative PathInMask answer": any(0 in c["ap"] and 1 in c["ap"] for c in ok),
        "a root with a negative field id": any(s.spec["root"] == "N" for s in sems),
        "a key beyond 32 bits in a path and in a walk": any(
            any("4294967298" in s.meta["alphabet"][i - 1] for i in c["h"]) for s in sems for c in s.cases if c["oa"] == "ok")
            and any(st[1] == "4294967298" for s in sems for w in s.meta["walks"] for st in w),
        "every error kind": {k for c in cs for k in c["ek"]} >= {"malformed", "unknown", "kind", "keykind"},
    }
    for k, v in need.items():
        if not v:
            raise vlib.MachineryError("vacuous universe: no case with %s" % k)


def probe_revision(ctx, harness):
    """Which revision of the code does layer B have to transcribe?  (B is the implementation-shaped model; verdicts do
    not depend on it, but a B that lags behind a repaired defect would make the B-honesty test cry wolf.)"""
    qf = ctx.path("q-probe.json")
    with open(qf, "w") as fh:
        json.dump({"N": {"walks": [[["f", -1]], [["f", 1]]], "pims": []},
                   "R": {"walks": [[["f", 2], ["f", 1]], [["f", 2], ["f", 2]]], "pims": ["$.x", "$.*"]}}, fh)
    casef, obsf = ctx.path("probe.ndjson"), ctx.path("probe-obs.ndjson")
    vlib.write_ndjson(casef, [{"k": "sem", "root": "N", "black": False, "paths": ["$.neg"]},
                              {"k": "sem", "root": "R", "black": True, "paths": ["$.s.a", "$.s"]},
                              {"k": "sem", "root": "R", "black": False, "paths": ["$"]},
                              {"k": "sem", "root": "R", "black": False, "paths": []}])
    ctx.run([harness, "mask", casef, obsf], env={"VERIF_MASK_Q": qf})
    o = vlib.read_ndjson(obsf)
    fixes = set()
    if not o[0].get("panic"):
        fixes.add("negid")
    if o[1].get("obs") and o[1]["obs"]["walks"][0] == "n":
        fixes.add("prefixdrop")
    if not o[2].get("panic"):
        fixes.add("getpathfix")
    if o[3].get("obs") and o[3]["obs"]["pims"][:1] == "1":
        fixes.add("existfix")
    vlib.log("layer B transcribes the revision with fixes: %s" % (sorted(fixes) or "none"))
    return fixes


def run(ctx, args):
    harness = ctx.build_harness("inproc")
    real_desc_f = ctx.path("desc.json")
    ctx.run([harness, "maskdesc", "-", real_desc_f])
    real_desc = json.load(open(real_desc_f))
    if args.replay:
        return replay(ctx, harness, json.load(open(args.replay)))
    nviol = 0
    sems = []
    fixes = probe_revision(ctx, harness)
    for k, spec in enumerate(SEM_TIERS[ctx.tier]):
        s = Sem(ctx, harness, spec, "u%d" % k, fixes)
        s.generate()
        check_descriptor(s.meta, real_desc)
        sems.append(s)
    vacuity(sems)
    for s in sems:
        s.replay()
        nviol += s.judge()
    nviol += robust(ctx, harness, ctx.path("q-u0.json"))
    ctx.exhaustive = True
    if os.environ.get("VERIF_C14_CLASSES"):      # development aid: all violation classes with counts
        cnt = collections.Counter(json.dumps(v["class"], sort_keys=True) for v in ctx.violations)
        with open(os.environ["VERIF_C14_CLASSES"], "w") as fh:
            json.dump(cnt.most_common(), fh, indent=1)
    return ctx.finish(
        rule="semantic cases = every reachable state of the FieldMask machine (all lists of <= MaxLen alphabet paths, "
             "every order and grouping, white and black), each replayed into the real package and compared with the "
             "answers layer A prescribes (63 walks of Field/Int/Str + All, 44 PathInMask queries, JSON round trip via 3 "
             "entry points, text stability, equal text for equal path sets). Robustness cases = every state of "
             "FieldMaskRobust (single / double mutations of 10 well-formed paths; JSON transfer trees to depth 2 over "
             "well- and ill-typed field values, deep chains, truncations, stray bytes), each through every entry point; "
             "panic or hang = violation. distinct class = (mode, root, length, outcome class, kinds of the paths) resp. "
             "(input kind, mutation, parent type)",
        assumptions=["one descriptor (structs R, W, V and N with negative ids) and the bounded alphabets / query sets of "
                     "spec/FieldMask/MC_FieldMask.tla",
                     "for lists with a conflict ('*' vs explicit key at one position, complete path vs longer path) only "
                     "the transport clauses and no-panic are demanded; PathInMask is prescribed for non-empty white lists"],
        trusted=["TLC", "harness/cmd/inproc/mask.go", "checks/c14.py (comparison, class records)"])


def replay(ctx, harness, rp):
    """re-run one recorded case against the real code and judge it again (the prescription of layer A is in the file)"""
    case = rp["case"]
    if case["k"] in ("path", "json"):
        qf = ctx.path("q-replay.json")
        if not case.get("hex"):
            raise vlib.MachineryError("the input of this case is too long to be stored in the replay file; re-run the tier")
        with open(qf, "w") as fh:
            json.dump(case.get("queries") or {"R": {"walks": [[["f", 1]]], "pims": ["$.x", "$.*"]}}, fh)
        casef, obsf = ctx.path("rcases.ndjson"), ctx.path("robs.ndjson")
        vlib.write_ndjson(casef, [{"k": case["k"], "root": case.get("root") or "R", "hex": case["hex"]}])
        ctx.run([harness, "mask", casef, obsf], env={"VERIF_MASK_Q": qf})
        o = vlib.read_ndjson(obsf)[0]
        ctx.count(1, "replay")
        if o.get("panic") or o.get("hang"):
            ctx.violation(rp["class"], case, o, "an error or a mask", "replayed input still makes the library panic / hang")
        return ctx.finish("replay of one robustness input")
    meta = case["meta"]
    if case["k"] == "sem2":
        raise vlib.MachineryError("replay of a text-depends-on-order pair: run the two lists with --tier quick")
    s = Sem(ctx, harness, dict(root=meta["root"], maxlen=case.get("maxlen", 0)), "replay")
    s.meta = meta
    s.cases = [case["tlc"]]
    s.replay()
    s.judge()
    return ctx.finish("replay of one path list")
