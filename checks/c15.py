"""C15 — reflection descriptors describe the IDL exactly.

Spec: spec/Reflect/Reflect.tla (Desc = the projection of a program onto the descriptor the property lists; what names
denote; the answers the registry owes for a set of registered files; Marshal/Unmarshal of descriptor.thrift's encoding;
the registry machine with a transcription of registerGoTypes / the alias map as layer B), spec/Reflect/ReflectGen.tla
(feature universe), spec/Reflect/Trace_Reflect.tla (trace validation of the real registry).

Flow: TLC enumerates feature vectors (ReflectGen) -> lib/c15_model builds multi-file programs -> TLC checks the registry
invariants for every registration order of every program, the round-trip identity on every descriptor, and emits
Desc(P, f) per file plus every registration order (MC_Reflect) ->
  (i)  in-process: parse+check+resolve, thrift_reflection.GetFileDescriptor(ast), Marshal/Unmarshal; every registration
       order is replayed with BuildFileDescriptor against the real registry, plus RegisterAST (harness `inproc reflect`);
  (ii) compiled: thriftgo -g go:with_reflection for every program, one driver binary, op "refl" walks
       GetFileDescriptorFor<X>(), GetDescriptor()/GetTypeDescriptor() of every generated type, registry lookups, Go types;
-> descriptors are compared field by field with Desc, registry traces are validated by TLC (Trace_Reflect).
"""
import json
import os
import re
import subprocess

import c15_model as M
import genlab
import vlib

LEVEL = "model_checking"

REGISTRY = dict(
    level="model_checking",
    text="Desc(program, file) is a declarative TLA+ projection of the IDL onto the reflection descriptor (names, implicit "
         "ids and enum numbers, requiredness, type expressions, const-value trees, all values of repeated annotation keys, "
         "comments, base service, oneway, includes, namespaces); TLC computes it for every file of a TLC-enumerated "
         "feature universe and model-checks the registry machine (all registration orders, Go-type tables, alias "
         "reachability, Marshal/Unmarshal identity). GetFileDescriptor in-process and the descriptors of compiled "
         "with_reflection code are compared with Desc field by field; lookups by name / alias / id / Go type are recorded "
         "from the real registry (every registration order in-process, the init order in compiled code) and validated "
         "by TLC against the spec.",
    design_ref="DESIGN.md 6 C15",
    note="Trusted: the renderer and the program->TLA image of lib/c15_model.py, the canonical projection of "
         "harness/pkg/c15refl, TLC, go toolchain. Bounded: programs of <= 4 files from 8 include topologies; one base "
         "pattern per node kind per program (rotated over the nodes of a kind); no escapes in literals.",
    technique="declarative TLA+ projection evaluated by TLC as the oracle + registry state machine with TLC trace "
              "validation of recorded lookups (in-process and compiled with_reflection code)")

GEN_CFG = """SPECIFICATION Spec
CONSTANTS
  Mode = "%s"
  Rots = 8
  Full = %s
  DExp = %s
INVARIANT Emit
CHECK_DEADLOCK FALSE
"""


# ------------------------------------------------------------------------------------------------ universe
def gen_vectors(ctx, thorough):
    r = ctx.tlc("Reflect", "MC_ReflectGen", "gen.cfg",
                files={"gen.cfg": GEN_CFG % ("systematic", "TRUE" if thorough else "FALSE", "FALSE")},
                timeout=900, label="ReflectGen[systematic]")
    fvs = ctx.tlc_cases(r)
    if thorough:
        r = ctx.tlc("Reflect", "MC_ReflectGen", "rnd.cfg", mode="simulate", simulate=1, depth=60, workers=16,
                    files={"rnd.cfg": GEN_CFG % ("random", "FALSE", "FALSE")}, timeout=900, label="ReflectGen[random]")
        seen = set()
        for fv in ctx.tlc_cases(r):
            k = json.dumps(fv, sort_keys=True)
            if k not in seen:
                seen.add(k)
                fvs.append(fv)
    fvs.sort(key=lambda v: json.dumps(v, sort_keys=True))
    return fvs


def universe_guard(fvs, progs, imgs):
    """vacuity: the universe has to contain what the property quantifies over"""
    def need(cond, what):
        if not cond:
            raise vlib.MachineryError("vacuous universe: no " + what)
    topos = {fv["topo"] for fv in fvs}
    need(topos >= set(M.TOPOS), "program for every include topology (have %s)" % sorted(topos))
    anns, cmts = set(), set()
    kinds = set()
    maps2 = nested = structlit = ident = enumref = implicit_id = neg_id = implicit_enum = oneway = ext_x = False
    for img in imgs:
        for F in img:
            for k in M.KINDS:
                for d in F[M.PLURAL[k]]:
                    kinds.add(k)
                    keys = [a[0] for a in d["ann"]]
                    if len(keys) != len(set(keys)):
                        anns.add(k)
            for sl in F["structs"] + F["unions"] + F["exceptions"]:
                for f in sl["fields"]:
                    implicit_id |= not f["hasid"]
                    neg_id |= f["hasid"] and f["id"] < 0
                    keys = [a[0] for a in f["ann"]]
                    if len(keys) != len(set(keys)):
                        anns.add("field")
            for e in F["enums"]:
                for v in e["values"]:
                    implicit_enum |= not v["has"]
                    keys = [a[0] for a in v["ann"]]
                    if len(keys) != len(set(keys)):
                        anns.add("enumvalue")
            for s in F["services"]:
                ext_x |= s["base"]["pre"] != ""
                for mth in s["methods"]:
                    oneway |= mth["oneway"]
                    keys = [a[0] for a in mth["ann"]]
                    if len(keys) != len(set(keys)):
                        anns.add("method")
            for c in F["consts"]:
                v = c["value"]
                maps2 |= v["t"] == "map" and len(v["ents"]) >= 2
                nested |= v["t"] == "list" and any(x["t"] == "list" for x in v["items"])
                structlit |= v["t"] == "map" and c["type"]["base"] != ""
                ident |= v["t"] == "id" and "." not in v["a"] and v["a"] not in ("true", "false")
                enumref |= v["t"] == "id" and "." in v["a"]
    need(kinds == set(M.KINDS), "definition of every kind")
    need(anns >= {"struct", "union", "exception", "enum", "typedef", "const", "service", "field", "enumvalue", "method"},
         "repeated annotation key on every node kind (have %s)" % sorted(anns))
    need(maps2, "map constant with >= 2 entries")
    need(nested, "nested list constant")
    need(structlit, "struct literal constant")
    need(ident and enumref, "identifier / enum reference constant")
    need(implicit_id and neg_id and implicit_enum, "implicit / negative ids and implicit enum numbers")
    need(oneway and ext_x, "oneway method / extends across files")
    need(any(any(len({i["alias"] for i in F["incs"]}) < len(F["incs"]) for F in img) for img in imgs),
         "file with two includes of the same base name")
    need(any(len({os.path.basename(F["path"]) for F in img}) < len(img) and
             all(len({i["alias"] for i in F["incs"]}) == len(F["incs"]) for F in img) for img in imgs),
         "same base name in two directories without alias clash")
    need(any(len(img) == 4 for img in imgs), "4-file program (diamond)")


# ------------------------------------------------------------------------------------------------ TLC oracle
def run_model(ctx, imgs, label):
    r = ctx.tlc("Reflect", "MC_Reflect", "MC_Reflect", files={"progs.json": json.dumps(imgs)}, timeout=3000, label=label)
    descs, orders = {}, {}
    for s in r["lines"]:
        if s.startswith("CASE "):
            c = json.loads(s[5:])
            descs[c["p"]] = c
        elif s.startswith("ORDER "):
            o = json.loads(s[6:])
            orders.setdefault(o["p"], []).append(o["order"])
    for p in range(1, len(imgs) + 1):
        if p not in descs:
            raise vlib.MachineryError("TLC emitted no Desc for program %d" % p)
        n = len(imgs[p - 1])
        fact = 1
        for k in range(2, n + 1):
            fact *= k
        if len(orders.get(p, [])) != fact:
            raise vlib.MachineryError("TLC emitted %d registration orders for program %d (%d files)" % (
                len(orders.get(p, [])), p, n))
        orders[p].sort()
    return descs, orders


def validate_traces(ctx, imgs, rows, label):
    """rows: [p, kind, events] -> set of accepted indexes, diagnostics {index: (event, query)}"""
    accepted = set()
    pj = json.dumps(imgs)
    CH = 250
    for off in range(0, len(rows), CH):
        tf = ctx.path("rtraces-%s-%d.ndjson" % (label, off))
        vlib.write_ndjson(tf, rows[off:off + CH])
        r = ctx.tlc("Reflect", "Trace_Reflect", "Trace_Reflect", files={"traces.ndjson": tf, "progs.json": pj},
                    timeout=3000, label="Trace_Reflect[%s+%d]" % (label, off))
        for s in r["lines"]:
            if s.startswith("ACC "):
                accepted.add(off + int(s[4:]) - 1)
        os.remove(tf)
    ctx.traces_validated += len(rows)
    rejected = [i for i in range(len(rows)) if i not in accepted]
    diag = {}
    DCH = 60
    for doff in range(0, min(len(rejected), 600), DCH):
        sub = rejected[doff:doff + DCH]
        tf = ctx.path("rdiag-%s.ndjson" % label)
        vlib.write_ndjson(tf, [rows[i] for i in sub])
        r = ctx.tlc("Reflect", "Trace_Reflect", "Trace_Reflect_diag", files={"traces.ndjson": tf, "progs.json": pj},
                    timeout=1500, label="Trace_Reflect_diag[%s+%d]" % (label, doff))
        at, bad = {}, {}
        for s in r["lines"]:
            if s.startswith("AT "):
                _, t, l = s.split()
                at[int(t)] = max(at.get(int(t), 0), int(l))
            elif s.startswith("BAD "):
                _, t, l, k = s.split()
                bad.setdefault((int(t), int(l)), set()).add(int(k))
        for n, i in enumerate(sub):
            ev = at.get(n + 1, 0)
            diag[i] = (ev, sorted(bad.get((n + 1, ev), [])))
        os.remove(tf)
    return accepted, rejected, diag


# ------------------------------------------------------------------------------------------------ verdict helpers
def alias_clash(img, f, pre):
    return pre != "" and sum(1 for i in img[f - 1]["incs"] if i["alias"] == pre) > 1


def desc_violations(ctx, src, k, fv, img, exp, obs, prefix, clash, case):
    diffs = M.compare_desc(exp, obs, prefix)
    by = {}
    for d in diffs:
        by.setdefault(d["what"], []).append(d)
    for what, ds in by.items():
        cls = {"check": "C15.desc", "src": src, "what": what}
        if what == "includes":
            cls["alias_clash"] = any(alias_clash(img, fi + 1, i["alias"]) for fi, F in enumerate(img)
                                     if F["path"] == exp["path"] for i in F["incs"])
        if what in ("const-value", "default"):
            cls["shape"] = shape_of(ds[0]["expected"])
        ctx.violation(cls, dict(case, file=exp["path"]), {"differences": ds[:6]},
                      {"Desc": "spec/Reflect/Reflect.tla Desc(P, f); see differences[].expected"},
                      "descriptor (%s) of %s deviates from the IDL: %s at %s" % (src, exp["path"], what, ds[0]["at"]))
    return len(diffs)


def shape_of(v):
    if v is None or M._none(v):
        return "none"
    t = v["t"]
    if t == "double" and "e" in str(v.get("a", "")).lower():
        return "double-exponent"
    return t


def trace_violation(ctx, src, k, fv, img, row, d, case):
    ev, bads = d
    events = row["events"]
    e = events[ev - 1] if 0 < ev <= len(events) else None
    cls = {"check": "C15.registry", "src": src, "kind": row["kind"]}
    obs = {"matched_events": ev - 1}
    if e is None:
        cls["q"] = "?"
    elif e["op"] != "obs":
        cls["q"] = e["op"]
        cls["map_values"] = M.has_map_values(img[e["f"] - 1]) if e.get("f") else False
        obs["rejected_event"] = {x: e[x] for x in ("op", "f", "err")}
    else:
        qs = [e["qs"][j - 1] for j in bads] or [None]
        q = qs[0]
        if q is None:
            cls["q"] = "?"
        else:
            cls["q"] = q["q"]
            cls["via_alias_clash"] = alias_clash(img, q["f"], q["pre"]) if q["f"] else False
            if q["q"] == "tref":
                cls["holder"] = q["kind"]      # whose type expression was resolved: struct-like field, typedef, const
            if q["err"].startswith("panic"):
                cls["q"] += "-panic"
        obs["rejected_answers"] = qs[:5]
        obs["registered"] = [x["f"] for x in events[:ev] if x["op"] in ("reg",)]
    ctx.violation(cls, dict(case, order=row.get("order")), obs,
                  "the answer spec/Reflect/Reflect.tla prescribes for the registered set (Trace_Reflect.tla OKq)",
                  "registry behaviour (%s, %s) rejected by the spec at %s" % (src, row["kind"], cls["q"]))


def count_features(ctx, b):
    for c in b.classes:
        ctx.count(1, c)


# ------------------------------------------------------------------------------------------------ in-process
def inproc(ctx, harness, fvs, progs, imgs, descs, orders, max_orders, rereg_all=False):
    thorough = ctx.tier == "thorough"
    rows = []
    for k, (fv, prog, img) in enumerate(zip(fvs, progs, imgs)):
        qs, qa = M.queries(img)
        os_ = orders[k + 1]
        mo = max_orders
        if thorough and len(os_) > 6 and fv.get("rot", 0) > 1:
            mo = 6               # every order of <= 3 files and of the first rotations of the 4-file topologies
        if len(os_) > mo:        # otherwise a seeded sample that keeps the first and the last order
            step = len(os_) / float(mo)
            pick = sorted({int(((j + (ctx.seed % 7) / 7.0) * step)) % len(os_) for j in range(mo)} | {0, len(os_) - 1})
            os_ = [os_[j] for j in pick]
        rows.append({"id": k, "prefix": "c15/%d/" % k, "main": prog["files"][0]["path"],
                     "paths": [f["path"] for f in prog["files"]], "files": M.texts(prog), "orders": os_,
                     "types": M.harness_types(img), "queries": qs, "queries_ast": qa, "rereg": rereg_all or k % 5 == 0, "full_first": thorough,
                     # while files are missing: what can depend on them, plus a slice of the purely local lookups
                     "queries_mid": [q for n, q in enumerate(qs) if M.state_dependent(img, q) or n % 9 == 0]})
    inf, outf = ctx.path("refl-in.ndjson"), ctx.path("refl-out.ndjson")
    vlib.write_ndjson(inf, rows)
    ctx.run([harness, "reflect", inf, outf], timeout=1800)
    res = vlib.read_ndjson(outf)
    if len(res) != len(rows):
        raise vlib.MachineryError("inproc reflect returned %d results for %d cases" % (len(res), len(rows)))
    traces, tmeta = [], []
    for k, (fv, prog, img, r) in enumerate(zip(fvs, progs, imgs, res)):
        case = {"fv": fv, "program": k + 1, "rerun": "bin/check C15"}
        clash = descs[k + 1]["clash"]
        if r["stage"] != "ok":
            # the universe is made of programs the compiler accepts; anything else is a broken universe, or a crash
            if r["stage"] == "panic":
                ctx.violation({"check": "C15.desc", "src": "inproc", "what": "panic"}, case, r["err"][:2000], "no panic",
                              "GetFileDescriptor / Marshal / registry panicked")
                continue
            raise vlib.MachineryError("front end rejected universe program %d at %s: %s" % (k + 1, r["stage"], r["err"][:500]))
        for fi, fo in enumerate(r["files"]):
            exp = descs[k + 1]["descs"][fi]
            ctx.count(1, "desc inproc topo=%s file=%s" % (fv["topo"], "main" if fi == 0 else "lib"))
            desc_violations(ctx, "inproc", k, fv, img, exp, fo["canon"], "c15/%d/" % k, clash, case)
            rt = fo["rt"]
            ctx.count(1, "roundtrip inproc topo=%s" % fv["topo"])
            if rt.get("err") or not rt.get("same") or not rt.get("same2"):
                ctx.violation({"check": "C15.roundtrip", "src": "inproc", "what": "not-identity" if not rt.get("err") else "error"},
                              dict(case, file=exp["path"]), {k2: rt.get(k2) for k2 in ("err", "same", "same2", "bytes")},
                              "Unmarshal(Marshal(fd)) = fd", "Marshal/Unmarshal of a file descriptor is not the identity")
            else:
                desc_violations(ctx, "roundtrip", k, fv, img, exp, rt["canon"], "c15/%d/" % k, clash, case)
        for t in r["traces"]:
            for tt in split_trace(img, {"p": k + 1, "kind": t["kind"], "order": t["order"], "events": norm_events(t["events"])}):
                traces.append(tt)
                tmeta.append(k)
    return traces, tmeta


def split_trace(img, t):
    """Answers that go through an include alias shared by two includes of one file are validated in a trace of their own
    (TLC stops at the first batch it rejects; they must not mask anything else)."""
    if not any(M.via_clash(img, q) for e in t["events"] for q in e["qs"]):
        return [t]
    a, b = dict(t, events=[]), dict(t, events=[], kind=t["kind"] + "+clash")
    for e in t["events"]:
        if e["op"] != "obs":
            a["events"].append(e)
            b["events"].append(e)
            continue
        a["events"].append(dict(e, qs=[q for q in e["qs"] if not M.via_clash(img, q)]))
        b["events"].append(dict(e, qs=[q for q in e["qs"] if M.via_clash(img, q)]))
    return [a, b]


def norm_events(events):
    """no JSON null for TLC: absent lists are empty"""
    for e in events:
        e["qs"] = e.get("qs") or []
        for q in e["qs"]:
            q["sel"] = q.get("sel") or []
            q["l"] = q.get("l") or []
    return events


# ------------------------------------------------------------------------------------------------ compiled
class ReflLab(genlab.Lab):
    """genlab.Lab with the comment-writing renderer of lib/c15_model"""

    def _generate_one(self, c):
        idl_root = os.path.join(self.root, "idl", c.id)
        main = M.write_program(c.prog, idl_root)
        out = os.path.join(self.root, "g", c.id)
        os.makedirs(out, exist_ok=True)
        opts = ["package_prefix=labmod/g/%s" % c.id] + c.opts
        cmd = [self.thriftgo, "-g", "%s:%s" % (c.backend, ",".join(opts)), "-o", out, "-r", os.path.relpath(main, self.root)]
        c.cmd = cmd
        try:
            p = subprocess.run(cmd, cwd=self.root, stdout=subprocess.PIPE, stderr=subprocess.PIPE, text=True,
                               errors="replace", timeout=120, env=self.ctx.env)
            c.rc, c.stdout, c.stderr = p.returncode, p.stdout, p.stderr
        except subprocess.TimeoutExpired:
            c.rc, c.stderr = -9, "timeout"
        for dp, _, fs in os.walk(out):
            for f in fs:
                c.files.append(os.path.relpath(os.path.join(dp, f), self.root))
        return c


def driver_code(lab, cids, progs, imgs):
    """(regs, extra_imports, extra_code) for the lab driver"""
    regs, imports, lines = [], {}, ["func registerExtra() {"]
    for cid, prog, img in zip(cids, progs, imgs):
        c = lab.cases[cid]
        lines.append("\tc15drv.Cases[%s] = []c15refl.FileInfo{" % json.dumps(cid))
        for f, F in zip(prog["files"], img):
            ip = genlab.Lab.go_pkg_path(c, f)
            al = imports.setdefault(ip, "r%d" % len(imports))
            base = os.path.basename(f["path"])[:-7]
            rf = os.path.join(lab.root, "g", cid, ip.split("/g/%s/" % cid, 1)[1], base + "-reflection.go")
            try:
                src = open(rf).read()
            except OSError:
                raise vlib.MachineryError("no reflection file generated for %s of case %s (%s)" % (f["path"], cid, rf))
            m = re.search(r"func (GetFileDescriptorFor\w+)\(", src)
            if not m:
                raise vlib.MachineryError("no GetFileDescriptorFor in " + rf)
            lines.append("\t\t{Path: %s, FD: %s.%s, Types: []c15refl.TypeInfo{" % (
                json.dumps("idl/%s/%s" % (cid, f["path"])), al, m.group(1)))
            for kind, i, d in M.go_types(F):
                n = d["name"]
                obj = "nil"
                if kind in ("struct", "union", "exception"):
                    obj = "%s.New%s()" % (al, n)
                elif kind == "enum":
                    obj = "%s.%s(0)" % (al, n)
                lines.append("\t\t\t{Kind: %s, Name: %s, Ptr: (*%s.%s)(nil), Obj: %s}," % (
                    json.dumps(kind), json.dumps(n), al, n, obj))
            lines.append("\t\t}},")
        lines.append("\t}")
        f0 = prog["files"][0]
        s0 = next(d for d in f0["defs"] if d["k"] == "struct")
        regs.append((cid, s0["name"], genlab.Lab.go_pkg_path(c, f0), "New" + s0["name"]))
    lines.append("}")
    extra_imports = ['"verifharness/pkg/c15drv"', '"verifharness/pkg/c15refl"'] + ['%s "%s"' % (al, ip) for ip, al in imports.items()]
    return regs, extra_imports, "\n".join(lines)


def compiled(ctx, fvs, progs, imgs, descs, plan):
    """one lab batch; plan: list of (program index, extra options)"""
    lab = ReflLab(ctx, "lab")
    cids, meta = [], []
    for n, (k, opts) in enumerate(plan):
        cid = "p%dc%d" % (k, n)
        lab.add_case(cid, progs[k], ["with_reflection"] + opts)
        cids.append(cid)
        meta.append((k, opts))
    lab.generate()
    for cid in cids:
        c = lab.cases[cid]
        if c.rc != 0:
            raise vlib.MachineryError("thriftgo failed on universe case %s (%s): %s" % (cid, " ".join(c.cmd), c.stderr[-1500:]))
    regs, imps, code = driver_code(lab, cids, [progs[k] for k, _ in meta], [imgs[k] for k, _ in meta])
    lab.write_driver(regs, imps, code)
    ok, out, binary = lab.build(timeout=3000)
    if not ok:
        # generated code that does not compile is C01's observation; this check cannot run without it
        raise vlib.MachineryError("generated with_reflection code of the universe does not compile:\n" + out[-3000:])
    scen = []
    for n, (cid, (k, opts)) in enumerate(zip(cids, meta)):
        qs, _ = M.queries(imgs[k], compiled=True)
        scen.append({"id": n, "op": "refl", "case": cid, "s": regs[n][1], "x": {"queries": qs}})
    res = lab.run_driver(binary, {cid: {"structs": {}, "enums": {}} for cid in cids}, scen, "refl")
    traces, tmeta = [], []
    for n, (cid, (k, opts), r) in enumerate(zip(cids, meta, res)):
        fv, img = fvs[k], imgs[k]
        case = {"fv": fv, "program": k + 1, "opts": ["with_reflection"] + opts, "cmd": " ".join(lab.cases[cid].cmd)}
        clash = descs[k + 1]["clash"]
        if r.get("panic"):
            ctx.violation({"check": "C15.desc", "src": "compiled", "what": "panic"}, case, r["panic"][:2000], "no panic",
                          "walking the registered descriptors of compiled code panicked")
            continue
        x = r["x"]
        prefix = "idl/%s/" % cid
        for fi, fo in enumerate(x["files"]):
            exp = descs[k + 1]["descs"][fi]
            ctx.count(1, "desc compiled topo=%s file=%s opts=%s" % (fv["topo"], "main" if fi == 0 else "lib", ",".join(opts)))
            if not fo.get("registered"):
                ctx.violation({"check": "C15.registry", "src": "compiled", "kind": "compiled", "q": "not-registered"},
                              dict(case, file=exp["path"]), {"registered": fo.get("registered"), "nil": fo["canon"] is None},
                              "GetFileDescriptorFor<X>() is the registry's entry for the file's path",
                              "the generated package's file descriptor is not the registered one")
            desc_violations(ctx, "compiled", k, fv, img, exp, fo["canon"], prefix, clash, case)
            rt = fo.get("rt") or {"err": "nil descriptor"}
            ctx.count(1, "roundtrip compiled topo=%s" % fv["topo"])
            if rt.get("err") or not rt.get("same") or not rt.get("same2"):
                ctx.violation({"check": "C15.roundtrip", "src": "compiled", "what": "not-identity" if not rt.get("err") else "error"},
                              dict(case, file=exp["path"]), {k2: rt.get(k2) for k2 in ("err", "same", "same2", "bytes")},
                              "Unmarshal(Marshal(fd)) = fd", "Marshal/Unmarshal of a registered file descriptor is not the identity")
        events = [{"op": "reg", "f": f + 1, "qs": [], "err": ""} for f in range(len(img))]
        events.append({"op": "obs", "f": 0, "qs": x["qs"], "err": ""})
        norm_events(events)
        for tt in split_trace(img, {"p": k + 1, "kind": "compiled", "order": list(range(1, len(img) + 1)), "events": events}):
            traces.append(tt)
            tmeta.append(k)
    return traces, tmeta


def answers_guard(traces, imgs):
    """vacuity: every kind of lookup was answered with a descriptor at least once, the ones that can cross files also
    with a descriptor of another file, and nil answers for not-yet-registered includes were seen"""
    hit, cross, early = {}, {}, 0
    # (from the universe, not from the answers) a service inherits over two include hops from a file its own file does not include
    far = 0
    for img in imgs:
        for fi, F in enumerate(img):
            near = {fi + 1} | {i["file"] for i in F["incs"]}
            for sv in F["services"]:
                g, b = fi, sv["base"]
                for _ in range(6):
                    if not b["w"]:
                        break
                    if b["pre"]:
                        tg = [i["file"] - 1 for i in img[g]["incs"] if i["alias"] == b["pre"]
                              and any(x["name"] == b["name"] for x in img[i["file"] - 1]["services"])]
                        if not tg:
                            break
                        g = tg[0]
                    nxt = [x for x in img[g]["services"] if x["name"] == b["name"]]
                    if not nxt:
                        break
                    if g + 1 not in near and nxt[0]["methods"]:
                        far += 1
                    b = nxt[0]["base"]
    for t in traces:
        nreg = 0
        for e in t["events"]:
            if e["op"] == "reg":
                nreg += 1
            for q in e["qs"]:
                k = q["q"]
                if k in ("allmethods", "closure") and q["l"]:
                    hit[k] = hit.get(k, 0) + 1
                    if any(x[0] > 0 and x[0] != q["f"] for x in q["l"]):
                        cross[k] = cross.get(k, 0) + 1
                if q["rf"] > 0 or q["rj"] > 0 or (k == "togo" and q["ri"] > 0):
                    hit[k] = hit.get(k, 0) + 1
                    if q["rf"] > 0 and q["rf"] != q["f"]:
                        cross[k] = cross.get(k, 0) + 1
                elif k == "get" and q["pre"] and nreg < len(t["order"]) and not q["err"]:
                    early += 1
    for k in ("fd", "inc", "get", "lookup", "glob", "method", "svcmethod", "parent", "fieldid", "fieldname", "tref", "own",
              "togo", "bygo", "allmethods", "methodfromall", "closure"):
        if not hit.get(k):
            raise vlib.MachineryError("vacuous: no non-nil answer to any %r lookup" % k)
    for k in ("inc", "get", "lookup", "method", "parent", "tref", "allmethods", "methodfromall", "closure"):
        if not cross.get(k):
            raise vlib.MachineryError("vacuous: no %r lookup was answered with a descriptor of another file" % k)
    if not far:
        raise vlib.MachineryError("vacuous: no service inherits methods over two include hops from a file its own file does not include")
    if not early:
        raise vlib.MachineryError("vacuous: no lookup through an alias while the included file was not registered yet")


# ------------------------------------------------------------------------------------------------ main
def run(ctx, args):
    thorough = ctx.tier == "thorough"
    if args.replay:
        # the whole pipeline on the one program of the recorded case (every source, every registration order)
        rp = json.load(open(args.replay))
        fvs = [rp["case"]["fv"]]
        thorough = True
    else:
        fvs = gen_vectors(ctx, thorough)
    builders = [M.Builder(fv) for fv in fvs]
    progs = [b.program() for b in builders]
    imgs = [M.to_tla(p) for p in progs]
    if not args.replay:
        universe_guard(fvs, progs, imgs)
    vlib.log("universe: %d programs, %d files" % (len(progs), sum(len(i) for i in imgs)))
    descs, orders = run_model(ctx, imgs, "MC_Reflect")
    harness = ctx.build_harness("inproc")
    vlib.log("harness built")
    t1, m1 = inproc(ctx, harness, fvs, progs, imgs, descs, orders, 24 if thorough else 3, rereg_all=thorough)
    vlib.log("in-process: %d registry traces" % len(t1))
    plan = [(k, []) for k in range(len(progs))]
    if thorough and not args.replay:
        # a second option set (presentation-only options: the descriptors must not change)
        plan += [(k, ["naming_style=golint", "gen_setter", "nil_safe", "json_enum_as_text"]) for k, fv in enumerate(fvs) if fv["rot"] == 0]
    if args.replay and rp["case"].get("opts"):
        plan = [(0, [o for o in rp["case"]["opts"] if o != "with_reflection"])]
    t2, m2 = compiled(ctx, fvs, progs, imgs, descs, plan)
    vlib.log("compiled: %d registry traces" % len(t2))
    traces, tmeta = t1 + t2, m1 + m2
    if not args.replay:
        answers_guard(traces, imgs)
    accepted, rejected, diag = validate_traces(ctx, imgs, [{"p": t["p"], "kind": t["kind"], "events": t["events"]} for t in traces], "all")
    for i, t in enumerate(traces):
        k = tmeta[i]
        nobs = sum(len(e["qs"] or []) for e in t["events"])
        ctx.count(nobs, "registry %s topo=%s files=%d" % (t["kind"], fvs[k]["topo"], len(imgs[k])))
    for i in rejected:
        k = tmeta[i]
        case = {"fv": fvs[k], "program": k + 1, "rerun": "bin/check C15"}
        trace_violation(ctx, "compiled" if traces[i]["kind"].startswith("compiled") else "inproc", k, fvs[k], imgs[k], traces[i],
                        diag.get(i, (0, [])), case)
    for b in builders:
        for c in sorted(set(b.classes)):
            ctx.count(1, c)
    if traces:
        t = traces[len(traces) // 2]
        ctx.sample({"registry_trace": {"program": t["p"], "kind": t["kind"], "order": t["order"],
                                       "events": [{"op": e["op"], "f": e["f"], "answers": (e["qs"] or [])[:3]} for e in t["events"][:4]]}})
    ctx.sample({"feature_vector": fvs[0], "expected_descriptor_excerpt": {
        "path": descs[1]["descs"][0]["path"], "struct": descs[1]["descs"][0]["structs"][1]}})
    return ctx.finish(
        rule="programs built from TLC-enumerated feature vectors (include topology x Latin-square rotation of annotation / "
             "comment / id / enum-number patterns over node kinds; thorough adds the full topology x rotation product, "
             "TLC-simulated random vectors and a second option set); every file's descriptor from GetFileDescriptor, from "
             "Unmarshal(Marshal()), and from compiled code compared with Desc; registry traces for every registration order "
             "(quick: 4 per program) + RegisterAST + compiled init order validated by TLC. distinct class = (source, topology, "
             "file role) for descriptors, (trace kind, topology, #files) for registry traces, (node kind, pattern) for "
             "annotations / comments / ids / enum numbers, constant shape",
        assumptions=["Go identifiers of the universe's definitions equal their IDL names (style-invariant names)",
                     "the order of definitions of one kind in a descriptor list is not part of the statement (compared by name); "
                     "fields, enum values, methods, arguments are compared in order",
                     "map-constant entries, annotation keys, includes and namespaces are unordered",
                     "a union member / declared exception may be reported optional whatever is written; void may be "
                     "reported as no response type",
                     "with two same-alias includes in one file an alias-qualified name denotes the first include that "
                     "defines it (the compiler's rule)"],
        trusted=["lib/c15_model.py renderer and program->TLA image", "harness/pkg/c15refl canonical projection",
                 "TLC", "go toolchain"])
