// Package c15refl observes thriftgo's reflection descriptors (C15): a canonical projection of a
// FileDescriptor that has the shape of spec/Reflect/Reflect.tla's Desc, a strict fingerprint used for the
// Marshal/Unmarshal identity, and the registry observations (lookups by name / id / Go type, identity of the
// returned descriptor = (file, position in the file's list of that kind)) that Trace_Reflect.tla validates.
//
// It is shared by the in-process harness (cmd/inproc reflect) and by the compiled lab driver (drv op "refl").
package c15refl

import (
	"crypto/sha1"
	"encoding/hex"
	"fmt"
	"reflect"
	"sort"
	"strconv"
	"strings"

	tr "github.com/cloudwego/thriftgo/thrift_reflection"
)

type M = map[string]interface{}

// ---------------------------------------------------------------------------------------------
// canonical projection (what the property lists; Extra is not part of it)
// ---------------------------------------------------------------------------------------------

func canonAnn(a map[string][]string) interface{} {
	out := M{}
	for k, v := range a {
		vs := make([]interface{}, 0, len(v))
		for _, s := range v {
			vs = append(vs, s)
		}
		out[k] = vs
	}
	return out
}

func CanonType(t *tr.TypeDescriptor) interface{} {
	if t == nil {
		return nil
	}
	return M{"fp": t.Filepath, "name": t.Name, "key": CanonType(t.KeyType), "value": CanonType(t.ValueType)}
}

func fmtDouble(f float64) string { return strconv.FormatFloat(f, 'g', -1, 64) }

func CanonValue(v *tr.ConstValueDescriptor) interface{} {
	if v == nil {
		return nil
	}
	switch v.Type {
	case tr.ConstValueType_INT:
		return M{"t": "int", "a": strconv.FormatInt(v.ValueInt, 10)}
	case tr.ConstValueType_DOUBLE:
		return M{"t": "double", "a": fmtDouble(v.ValueDouble)}
	case tr.ConstValueType_STRING:
		return M{"t": "string", "a": v.ValueString}
	case tr.ConstValueType_BOOL:
		return M{"t": "bool", "a": strconv.FormatBool(v.ValueBool)}
	case tr.ConstValueType_IDENTIFIER:
		return M{"t": "id", "a": v.ValueIdentifier}
	case tr.ConstValueType_LIST:
		items := make([]interface{}, 0, len(v.ValueList))
		for _, e := range v.ValueList {
			items = append(items, CanonValue(e))
		}
		return M{"t": "list", "items": items}
	case tr.ConstValueType_MAP:
		ents := make([]interface{}, 0, len(v.ValueMap))
		for k, e := range v.ValueMap {
			ents = append(ents, []interface{}{CanonValue(k), CanonValue(e)})
		}
		return M{"t": "map", "ents": ents} // a bag: the comparer sorts
	}
	return M{"t": "bad:" + strconv.FormatInt(int64(v.Type), 10)}
}

func canonField(f *tr.FieldDescriptor) interface{} {
	if f == nil {
		return nil
	}
	return M{"fp": f.Filepath, "name": f.Name, "id": f.ID, "req": f.Requiredness, "type": CanonType(f.Type),
		"default": CanonValue(f.DefaultValue), "ann": canonAnn(f.Annotations), "comments": f.Comments}
}

func canonFields(fs []*tr.FieldDescriptor) []interface{} {
	out := make([]interface{}, 0, len(fs))
	for _, f := range fs {
		out = append(out, canonField(f))
	}
	return out
}

func CanonStruct(s *tr.StructDescriptor) interface{} {
	if s == nil {
		return nil
	}
	return M{"fp": s.Filepath, "name": s.Name, "fields": canonFields(s.Fields), "ann": canonAnn(s.Annotations),
		"comments": s.Comments}
}

func CanonEnum(e *tr.EnumDescriptor) interface{} {
	if e == nil {
		return nil
	}
	vs := make([]interface{}, 0, len(e.Values))
	for _, v := range e.Values {
		if v == nil {
			vs = append(vs, nil)
			continue
		}
		vs = append(vs, M{"fp": v.Filepath, "name": v.Name, "value": v.Value, "ann": canonAnn(v.Annotations),
			"comments": v.Comments})
	}
	return M{"fp": e.Filepath, "name": e.Name, "values": vs, "ann": canonAnn(e.Annotations), "comments": e.Comments}
}

func CanonTypedef(t *tr.TypedefDescriptor) interface{} {
	if t == nil {
		return nil
	}
	return M{"fp": t.Filepath, "name": t.Alias, "type": CanonType(t.Type), "ann": canonAnn(t.Annotations),
		"comments": t.Comments}
}

func CanonConst(c *tr.ConstDescriptor) interface{} {
	if c == nil {
		return nil
	}
	return M{"fp": c.Filepath, "name": c.Name, "type": CanonType(c.Type), "value": CanonValue(c.Value),
		"ann": canonAnn(c.Annotations), "comments": c.Comments}
}

func CanonService(s *tr.ServiceDescriptor) interface{} {
	if s == nil {
		return nil
	}
	ms := make([]interface{}, 0, len(s.Methods))
	for _, m := range s.Methods {
		if m == nil {
			ms = append(ms, nil)
			continue
		}
		ms = append(ms, M{"fp": m.Filepath, "name": m.Name, "oneway": m.IsOneway, "ret": CanonType(m.Response),
			"args": canonFields(m.Args), "throws": canonFields(m.ThrowExceptions), "ann": canonAnn(m.Annotations),
			"comments": m.Comments})
	}
	return M{"fp": s.Filepath, "name": s.Name, "base": s.Base, "methods": ms, "ann": canonAnn(s.Annotations),
		"comments": s.Comments}
}

func strMap(m map[string]string) interface{} {
	out := M{}
	for k, v := range m {
		out[k] = v
	}
	return out
}

// Canon projects a file descriptor onto the record Reflect.tla's Desc computes.
func Canon(fd *tr.FileDescriptor) interface{} {
	if fd == nil {
		return nil
	}
	sl := func(xs []*tr.StructDescriptor) []interface{} {
		out := make([]interface{}, 0, len(xs))
		for _, x := range xs {
			out = append(out, CanonStruct(x))
		}
		return out
	}
	enums := make([]interface{}, 0)
	for _, e := range fd.Enums {
		enums = append(enums, CanonEnum(e))
	}
	tds := make([]interface{}, 0)
	for _, t := range fd.Typedefs {
		tds = append(tds, CanonTypedef(t))
	}
	cs := make([]interface{}, 0)
	for _, c := range fd.Consts {
		cs = append(cs, CanonConst(c))
	}
	svcs := make([]interface{}, 0)
	for _, s := range fd.Services {
		svcs = append(svcs, CanonService(s))
	}
	return M{"path": fd.Filepath, "includes": strMap(fd.Includes), "namespaces": strMap(fd.Namespaces),
		"structs": sl(fd.Structs), "unions": sl(fd.Unions), "exceptions": sl(fd.Exceptions), "enums": enums,
		"typedefs": tds, "consts": cs, "services": svcs}
}

// ---------------------------------------------------------------------------------------------
// strict fingerprint: every exported field of every node (also Extra and the fields of a const value that
// its Type does not select); nil and empty containers are the same; map entries sorted by their encoding
// ---------------------------------------------------------------------------------------------

func strictEnc(v reflect.Value, sb *strings.Builder, skipTopExtra bool) {
	switch v.Kind() {
	case reflect.Ptr:
		if v.IsNil() {
			sb.WriteString("nil")
			return
		}
		sb.WriteString("&")
		strictEnc(v.Elem(), sb, false)
	case reflect.Struct:
		sb.WriteString("{")
		t := v.Type()
		for i := 0; i < v.NumField(); i++ {
			if t.Field(i).PkgPath != "" {
				continue
			}
			if skipTopExtra && t.Field(i).Name == "Extra" {
				continue
			}
			sb.WriteString(t.Field(i).Name)
			sb.WriteString(":")
			strictEnc(v.Field(i), sb, false)
			sb.WriteString(";")
		}
		sb.WriteString("}")
	case reflect.Slice:
		sb.WriteString("[")
		for i := 0; i < v.Len(); i++ {
			strictEnc(v.Index(i), sb, false)
			sb.WriteString(",")
		}
		sb.WriteString("]")
	case reflect.Map:
		ents := make([]string, 0, v.Len())
		it := v.MapRange()
		for it.Next() {
			var e strings.Builder
			strictEnc(it.Key(), &e, false)
			e.WriteString("=>")
			strictEnc(it.Value(), &e, false)
			ents = append(ents, e.String())
		}
		sort.Strings(ents)
		sb.WriteString("<")
		sb.WriteString(strings.Join(ents, ","))
		sb.WriteString(">")
	case reflect.String:
		sb.WriteString(strconv.Quote(v.String()))
	case reflect.Float64, reflect.Float32:
		sb.WriteString(strconv.FormatFloat(v.Float(), 'b', -1, 64))
	default:
		fmt.Fprintf(sb, "%v", v.Interface())
	}
}

// Strict returns the fingerprint of a descriptor tree. The file descriptor's own Extra (go package path
// bookkeeping of the registry) is part of it only if withFileExtra.
func Strict(fd *tr.FileDescriptor, withFileExtra bool) string {
	if fd == nil {
		return "nil"
	}
	var sb strings.Builder
	strictEnc(reflect.ValueOf(fd).Elem(), &sb, !withFileExtra)
	h := sha1.Sum([]byte(sb.String()))
	return hex.EncodeToString(h[:])
}

// RoundTrip marshals and unmarshals fd. It reports the canonical projection of the decoded descriptor and
// whether the strict fingerprints agree.
func RoundTrip(fd *tr.FileDescriptor) M {
	out := M{}
	b, err := fd.Marshal()
	if err != nil {
		out["err"] = "marshal: " + err.Error()
		return out
	}
	out["bytes"] = len(b)
	fd2, err := tr.Unmarshal(b)
	if err != nil {
		out["err"] = "unmarshal: " + err.Error()
		return out
	}
	out["canon"] = Canon(fd2)
	out["same"] = Strict(fd, true) == Strict(fd2, true)
	// a second trip must be stable as well (decoding an encoding of a decoded descriptor)
	b2, err := fd2.Marshal()
	if err != nil {
		out["err"] = "marshal(2): " + err.Error()
		return out
	}
	fd3, err := tr.Unmarshal(b2)
	if err != nil {
		out["err"] = "unmarshal(2): " + err.Error()
		return out
	}
	out["same2"] = Strict(fd2, true) == Strict(fd3, true)
	return out
}

// ---------------------------------------------------------------------------------------------
// registry observations
// ---------------------------------------------------------------------------------------------

// Q is one query and, after Run, its answer. All fields are always present so that TLC sees uniform records.
//
//	q     kind of query (see Run)
//	f     file (1-based index into the case's file list) the query starts from, 0 = none / registry-wide
//	kind  struct|union|exception|enum|typedef|const|service
//	pre   include alias ("" = local), name: definition name, n/m: integers (field id, positions)
//	rf,ri,rj   answer: file, position in that file's list of `kind` (1-based), position inside (field/method);
//	           0 = nil answer, -1 = a descriptor that belongs to no registered file of the case
//	ty    abstract Go type identity (0 = nil / not applicable)
//	s     string answer (type descriptor name / file path of it)
type Q struct {
	Q    string   `json:"q"`
	F    int      `json:"f"`
	Kind string   `json:"kind"`
	Pre  string   `json:"pre"`
	Name string   `json:"name"`
	N    int      `json:"n"`
	M    int      `json:"m"`
	RF   int      `json:"rf"`
	RI   int      `json:"ri"`
	RJ   int      `json:"rj"`
	Ty   int      `json:"ty"`
	S    string   `json:"s"`
	Sel  []string `json:"sel"`
	L    [][]int  `json:"l"` // list answer: methods [rf, ri, rj]; struct closure [rf, kind (1 struct, 2 union, 3 exception), ri]
	Err  string   `json:"err"`
}

// TypeInfo is one generated (or stand-in) Go type of a case.
type TypeInfo struct {
	Kind string      // struct|union|exception|enum|typedef
	Name string      // IDL name
	Ptr  interface{} // (*T)(nil)
	Obj  interface{} // a value with GetDescriptor()/GetTypeDescriptor(), nil if the type has none
}

type FileInfo struct {
	Path  string // registry key (Filepath)
	FD    func() *tr.FileDescriptor
	Types []TypeInfo
}

// World is what the queries of one case run against.
type World struct {
	GD    *tr.GlobalDescriptor
	Paths []string // file index (1-based) -> registry key
	Files []FileInfo
	tyIDs map[reflect.Type]int
}

func DefaultGD() *tr.GlobalDescriptor { return tr.GetGlobalDescriptor(&tr.FileDescriptor{}) }

func (w *World) fd(i int) *tr.FileDescriptor {
	if i < 1 || i > len(w.Paths) {
		return nil
	}
	return w.GD.LookupFD(w.Paths[i-1])
}

func (w *World) TyID(t reflect.Type) int {
	if t == nil {
		return 0
	}
	if w.tyIDs == nil {
		w.tyIDs = map[reflect.Type]int{}
	}
	if id, ok := w.tyIDs[t]; ok {
		return id
	}
	id := len(w.tyIDs) + 1
	w.tyIDs[t] = id
	return id
}

func structList(fd *tr.FileDescriptor, kind string) []*tr.StructDescriptor {
	switch kind {
	case "struct":
		return fd.Structs
	case "union":
		return fd.Unions
	case "exception":
		return fd.Exceptions
	}
	return nil
}

// identify finds which registered file of the case owns the descriptor pointer p.
func (w *World) identify(kind string, p interface{}) (int, int) {
	rv := reflect.ValueOf(p)
	if p == nil || (rv.Kind() == reflect.Ptr && rv.IsNil()) {
		return 0, 0
	}
	for i := range w.Paths {
		fd := w.fd(i + 1)
		if fd == nil {
			continue
		}
		if kind == "file" {
			if p.(*tr.FileDescriptor) == fd {
				return i + 1, 0
			}
			continue
		}
		switch kind {
		case "struct", "union", "exception":
			for j, s := range structList(fd, kind) {
				if s == p.(*tr.StructDescriptor) {
					return i + 1, j + 1
				}
			}
		case "enum":
			for j, s := range fd.Enums {
				if s == p.(*tr.EnumDescriptor) {
					return i + 1, j + 1
				}
			}
		case "typedef":
			for j, s := range fd.Typedefs {
				if s == p.(*tr.TypedefDescriptor) {
					return i + 1, j + 1
				}
			}
		case "const":
			for j, s := range fd.Consts {
				if s == p.(*tr.ConstDescriptor) {
					return i + 1, j + 1
				}
			}
		case "service":
			for j, s := range fd.Services {
				if s == p.(*tr.ServiceDescriptor) {
					return i + 1, j + 1
				}
			}
		}
	}
	return -1, -1
}

func (w *World) identifyMethod(m *tr.MethodDescriptor) (int, int, int) {
	if m == nil {
		return 0, 0, 0
	}
	for i := range w.Paths {
		fd := w.fd(i + 1)
		if fd == nil {
			continue
		}
		for j, s := range fd.Services {
			for k, x := range s.Methods {
				if x == m {
					return i + 1, j + 1, k + 1
				}
			}
		}
	}
	return -1, -1, -1
}

func full(pre, name string) string {
	if pre == "" {
		return name
	}
	return pre + "." + name
}

func getByKind(fd *tr.FileDescriptor, kind, name string) interface{} {
	switch kind {
	case "struct":
		return fd.GetStructDescriptor(name)
	case "union":
		return fd.GetUnionDescriptor(name)
	case "exception":
		return fd.GetExceptionDescriptor(name)
	case "enum":
		return fd.GetEnumDescriptor(name)
	case "typedef":
		return fd.GetTypedefDescriptor(name)
	case "const":
		return fd.GetConstDescriptor(name)
	case "service":
		return fd.GetServiceDescriptor(name)
	}
	panic("bad kind " + kind)
}

func lookupByKind(gd *tr.GlobalDescriptor, kind, name, path string) interface{} {
	switch kind {
	case "struct":
		return gd.LookupStruct(name, path)
	case "union":
		return gd.LookupUnion(name, path)
	case "exception":
		return gd.LookupException(name, path)
	case "enum":
		return gd.LookupEnum(name, path)
	case "typedef":
		return gd.LookupTypedef(name, path)
	case "const":
		return gd.LookupConst(name, path)
	case "service":
		return gd.LookupService(name, path)
	}
	panic("bad kind " + kind)
}

// typeAt: the type descriptor a "tref" query talks about: holder = struct-like (kind, position n) field m,
// or typedef (position n, m = 0) target, or const (position n) type; sel = path below it ("", "k", "v", "vk", ...)
func (w *World) typeAt(fd *tr.FileDescriptor, kind string, n, m int, sel string) *tr.TypeDescriptor {
	var t *tr.TypeDescriptor
	switch kind {
	case "struct", "union", "exception":
		l := structList(fd, kind)
		if n < 1 || n > len(l) || m < 1 || m > len(l[n-1].Fields) {
			return nil
		}
		t = l[n-1].Fields[m-1].Type
	case "typedef":
		if n < 1 || n > len(fd.Typedefs) {
			return nil
		}
		t = fd.Typedefs[n-1].Type
	case "const":
		if n < 1 || n > len(fd.Consts) {
			return nil
		}
		t = fd.Consts[n-1].Type
	}
	for _, c := range sel {
		if t == nil {
			return nil
		}
		if c == 'k' {
			t = t.KeyType
		} else {
			t = t.ValueType
		}
	}
	return t
}

// Run answers one query. A panic of the code under test is reported in Err ("panic: ...").
func (w *World) Run(q *Q) {
	defer func() {
		if r := recover(); r != nil {
			q.Err = fmt.Sprintf("panic: %v", r)
		}
	}()
	switch q.Q {
	case "fd": // registry lookup of file f by path
		q.RF, _ = w.identify("file", w.fd(q.F))
	case "inc": // fd(f).GetIncludeFD(pre)
		fd := w.fd(q.F)
		if fd == nil {
			q.Err = "nofd"
			return
		}
		q.RF, _ = w.identify("file", fd.GetIncludeFD(q.Pre))
	case "get": // fd(f).Get<Kind>Descriptor(pre.name)
		fd := w.fd(q.F)
		if fd == nil {
			q.Err = "nofd"
			return
		}
		q.RF, q.RI = w.identify(q.Kind, getByKind(fd, q.Kind, full(q.Pre, q.Name)))
	case "lookup": // gd.Lookup<Kind>(pre.name, path(f))
		q.RF, q.RI = w.identify(q.Kind, lookupByKind(w.GD, q.Kind, full(q.Pre, q.Name), w.Paths[q.F-1]))
	case "glob": // gd.Lookup<Kind>(name, "")
		q.RF, q.RI = w.identify(q.Kind, lookupByKind(w.GD, q.Kind, q.Name, ""))
	case "method": // fd(f).GetMethodDescriptor(pre.name as service, S as method)
		fd := w.fd(q.F)
		if fd == nil {
			q.Err = "nofd"
			return
		}
		q.RF, q.RI, q.RJ = w.identifyMethod(fd.GetMethodDescriptor(full(q.Pre, q.Name), q.S))
	case "svcmethod": // service n of f: GetMethodByName(S)
		fd := w.fd(q.F)
		if fd == nil || q.N < 1 || q.N > len(fd.Services) {
			q.Err = "nofd"
			return
		}
		q.RF, q.RI, q.RJ = w.identifyMethod(fd.Services[q.N-1].GetMethodByName(q.S))
	case "allmethods", "methodfromall": // service n of f: GetAllMethods() / GetMethodByNameFromAll(S)
		fd := w.fd(q.F)
		if fd == nil || q.N < 1 || q.N > len(fd.Services) {
			q.Err = "nofd"
			return
		}
		if q.Q == "methodfromall" {
			q.RF, q.RI, q.RJ = w.identifyMethod(fd.Services[q.N-1].GetMethodByNameFromAll(q.S))
			return
		}
		q.L = [][]int{}
		for _, m := range fd.Services[q.N-1].GetAllMethods() {
			a, b, c := w.identifyMethod(m)
			q.L = append(q.L, []int{a, b, c})
		}
	case "closure": // struct n of f: registry.LookupIncludedStructsFromStruct
		fd := w.fd(q.F)
		if fd == nil || q.N < 1 || q.N > len(fd.Structs) {
			q.Err = "nofd"
			return
		}
		sds, err := w.GD.LookupIncludedStructsFromStruct(fd.Structs[q.N-1])
		if err != nil {
			q.Err = "error: " + err.Error()
			return
		}
		q.L = [][]int{}
		for _, sd := range sds {
			e := []int{-1, 0, -1}
			for kc, k := range []string{"struct", "union", "exception"} {
				if a, b := w.identify(k, sd); a > 0 {
					e = []int{a, kc + 1, b}
					break
				}
			}
			q.L = append(q.L, e)
		}
		sort.Slice(q.L, func(i, j int) bool {
			for x := 0; x < 3; x++ {
				if q.L[i][x] != q.L[j][x] {
					return q.L[i][x] < q.L[j][x]
				}
			}
			return false
		})
	case "parent": // service n of f: GetParent()
		fd := w.fd(q.F)
		if fd == nil || q.N < 1 || q.N > len(fd.Services) {
			q.Err = "nofd"
			return
		}
		q.RF, q.RI = w.identify("service", fd.Services[q.N-1].GetParent())
	case "fieldid", "fieldname": // struct-like (kind, n) of f: GetFieldById(m) / GetFieldByName(name)
		fd := w.fd(q.F)
		if fd == nil {
			q.Err = "nofd"
			return
		}
		l := structList(fd, q.Kind)
		if q.N < 1 || q.N > len(l) {
			q.Err = "nostruct"
			return
		}
		var f *tr.FieldDescriptor
		if q.Q == "fieldid" {
			f = l[q.N-1].GetFieldById(int32(q.M))
		} else {
			f = l[q.N-1].GetFieldByName(q.Name)
		}
		if f != nil {
			q.RJ = -1
			for j, x := range l[q.N-1].Fields {
				if x == f {
					q.RJ = j + 1
				}
			}
		}
	case "tref": // type descriptor at (kind, n, m, S=selector) of f resolved as Name in {struct,union,exception,enum,typedef}
		fd := w.fd(q.F)
		if fd == nil {
			q.Err = "nofd"
			return
		}
		t := w.typeAt(fd, q.Kind, q.N, q.M, q.S)
		if t == nil {
			q.Err = "notype"
			return
		}
		switch q.Name {
		case "struct":
			d, _ := t.GetStructDescriptor()
			q.RF, q.RI = w.identify("struct", d)
		case "union":
			d, _ := t.GetUnionDescriptor()
			q.RF, q.RI = w.identify("union", d)
		case "exception":
			d, _ := t.GetExceptionDescriptor()
			q.RF, q.RI = w.identify("exception", d)
		case "enum":
			d, _ := t.GetEnumDescriptor()
			q.RF, q.RI = w.identify("enum", d)
		case "typedef":
			d, _ := t.GetTypedefDescriptor()
			q.RF, q.RI = w.identify("typedef", d)
		}
	case "bygo", "togo", "own": // Go type n of file f (position in FileInfo.Types)
		if q.F < 1 || q.F > len(w.Files) || q.N < 1 || q.N > len(w.Files[q.F-1].Types) {
			q.Err = "notype"
			return
		}
		ti := w.Files[q.F-1].Types[q.N-1]
		q.Kind, q.Name = ti.Kind, ti.Name
		rt := reflect.TypeOf(ti.Ptr).Elem()
		q.Ty = w.TyID(rt)
		switch q.Q {
		case "bygo": // registry: Go type -> descriptor
			switch ti.Kind {
			case "struct", "union", "exception":
				d := w.GD.GetStructDescriptorByGoType(ti.Ptr)
				// the answer's list is not known beforehand: try all three
				for _, k := range []string{"struct", "union", "exception"} {
					q.RF, q.RI = w.identify(k, d)
					if q.RF > 0 {
						q.S = k
						break
					}
				}
			case "enum":
				q.RF, q.RI = w.identify("enum", w.GD.GetEnumDescriptorByGoType(ti.Ptr))
				q.S = "enum"
			case "typedef":
				d := w.GD.GetTypedefDescriptorByGoType(ti.Ptr)
				q.RF, q.RI = w.identify("typedef", d)
				q.S = "typedef"
				// the default registry is shared by every program linked into the process: a typedef of another
				// program is a legitimate answer if it has this very Go type (Go aliases of one type coincide)
				if q.RF == -1 && d != nil && d.GetGoType() == rt {
					q.RF, q.RI = -2, -2
				}
			}
		case "togo": // descriptor of the definition (taken by position from the registered fd) -> Go type
			fd := w.fd(q.F)
			if fd == nil {
				q.Err = "nofd"
				return
			}
			var got reflect.Type
			switch ti.Kind {
			case "struct", "union", "exception":
				l := structList(fd, ti.Kind)
				if q.M < 1 || q.M > len(l) {
					q.Err = "nodesc"
					return
				}
				got = l[q.M-1].GetGoType()
			case "enum":
				if q.M < 1 || q.M > len(fd.Enums) {
					q.Err = "nodesc"
					return
				}
				got = fd.Enums[q.M-1].GetGoType()
			case "typedef":
				if q.M < 1 || q.M > len(fd.Typedefs) {
					q.Err = "nodesc"
					return
				}
				got = fd.Typedefs[q.M-1].GetGoType()
			}
			q.RI = w.TyID(got)
		case "own": // the generated accessors of the type itself
			if ti.Obj == nil {
				q.Err = "noobj"
				return
			}
			switch ti.Kind {
			case "struct", "union", "exception":
				o, ok := ti.Obj.(interface {
					GetDescriptor() *tr.StructDescriptor
				})
				if !ok {
					q.Err = "noaccessor"
					return
				}
				q.RF, q.RI = w.identify(ti.Kind, o.GetDescriptor())
			case "enum":
				o, ok := ti.Obj.(interface {
					GetDescriptor() *tr.EnumDescriptor
				})
				if !ok {
					q.Err = "noaccessor"
					return
				}
				q.RF, q.RI = w.identify("enum", o.GetDescriptor())
			}
			if o, ok := ti.Obj.(interface {
				GetTypeDescriptor() *tr.TypeDescriptor
			}); ok {
				td := o.GetTypeDescriptor()
				if td != nil {
					q.S = td.Name
					q.RJ = 0
					for i, p := range w.Paths {
						if p == td.Filepath {
							q.RJ = i + 1
						}
					}
				}
			} else if ti.Kind != "enum" {
				q.Err = "notypeaccessor"
			} else {
				// enum GetTypeDescriptor has a pointer receiver
				pv := reflect.New(reflect.TypeOf(ti.Obj))
				pv.Elem().Set(reflect.ValueOf(ti.Obj))
				if o, ok := pv.Interface().(interface {
					GetTypeDescriptor() *tr.TypeDescriptor
				}); ok {
					td := o.GetTypeDescriptor()
					if td != nil {
						q.S = td.Name
						for i, p := range w.Paths {
							if p == td.Filepath {
								q.RJ = i + 1
							}
						}
					}
				} else {
					q.Err = "notypeaccessor"
				}
			}
		}
	default:
		q.Err = "unknown query " + q.Q
	}
}

// RunAll answers a batch of queries in place.
func (w *World) RunAll(qs []Q) []Q {
	for i := range qs {
		w.Run(&qs[i])
	}
	return qs
}
