package c11req

import (
	"bytes"
	"io"
	"os"

	"github.com/cloudwego/thriftgo/plugin"
	"github.com/cloudwego/thriftgo/sdk"

	"verifharness/pkg/c11canon"
	"verifharness/pkg/nd"
)

// kind "sdk": run the whole compiler in-process (sdk.InvokeThriftgo) with one scripted SDK plugin
// (plugin.SDKPlugin: no process, no codec) and report what the plugin was handed, what the
// compiler returned and what it printed on stderr.  The files are looked at by the caller.

type sdkItem struct {
	K       string `json:"k"`
	Name    string `json:"name,omitempty"`
	Content string `json:"content,omitempty"`
	Pt      string `json:"pt,omitempty"`
	Text    string `json:"text,omitempty"`
}

type sdkScript struct {
	Items    []sdkItem `json:"items"`
	Warnings []string  `json:"warnings"`
	Error    string    `json:"error"`
	Params   []string  `json:"params"`
}

type sdkObs struct {
	ID      interface{}      `json:"id"`
	Err     string           `json:"err"`     // error returned by InvokeThriftgo ("" = nil)
	Panic   string           `json:"panic"`   // InvokeThriftgo panicked
	Stderr  string           `json:"stderr"`  // what the compiler wrote to os.Stderr
	Dumps   []*c11canon.Dump `json:"dumps"`   // one per Invoke call
	RefAst  string           `json:"ref_ast"` // ast hash of a fresh parse+check+resolve of the same IDL
	RefErr  string           `json:"ref_err,omitempty"`
	Version string           `json:"version"`
}

type sdkRec struct {
	sc    *sdkScript
	dumps []*c11canon.Dump
}

func (p *sdkRec) GetName() string               { return "verifsdk" }
func (p *sdkRec) GetPluginParameters() []string { return p.sc.Params }
func (p *sdkRec) Invoke(req *plugin.Request) *plugin.Response {
	p.dumps = append(p.dumps, c11canon.Of(req, false))
	res := plugin.NewResponse()
	for i := range p.sc.Items {
		it := &p.sc.Items[i]
		g := &plugin.Generated{}
		switch it.K {
		case "File":
			g.Name, g.Content = &it.Name, it.Content
		case "UPatch":
			g.InsertionPoint, g.Content = &it.Pt, it.Text
		case "NPatch":
			g.Name, g.InsertionPoint, g.Content = &it.Name, &it.Pt, it.Text
		}
		res.Contents = append(res.Contents, g)
	}
	res.Warnings = p.sc.Warnings
	if p.sc.Error != "" {
		e := p.sc.Error
		res.Error = &e
	}
	return res
}

func sdkOne(c *reqCase) *sdkObs {
	o := &sdkObs{ID: c.ID, Dumps: []*c11canon.Dump{}}
	rec := &sdkRec{sc: c.SDK}
	// capture os.Stderr (the log functions are created inside InvokeThriftgo)
	old := os.Stderr
	r, w, err := os.Pipe()
	if err != nil {
		o.Panic = "pipe: " + err.Error()
		return o
	}
	done := make(chan []byte)
	go func() {
		var b bytes.Buffer
		_, _ = io.Copy(&b, r)
		done <- b.Bytes()
	}()
	os.Stderr = w
	o.Panic = nd.Guard(func() {
		if e := sdk.InvokeThriftgo([]plugin.SDKPlugin{rec}, append([]string{"thriftgo"}, c.Argv...)...); e != nil {
			o.Err = e.Error()
			if o.Err == "" {
				o.Err = "<empty error>"
			}
		}
	})
	os.Stderr = old
	w.Close()
	o.Stderr = string(<-done)
	r.Close()
	if len(o.Stderr) > 8000 {
		o.Stderr = o.Stderr[len(o.Stderr)-8000:]
	}
	o.Dumps = append(o.Dumps, rec.dumps...)
	p := nd.Guard(func() {
		ast, _, e := buildAST(c.IDL, c.Includes)
		if e != nil {
			o.RefErr = e.Error()
			return
		}
		o.RefAst = c11canon.HashOf(ast)
	})
	if p != "" {
		o.RefErr = "panic: " + p
	}
	return o
}
