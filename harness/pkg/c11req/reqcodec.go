// Package c11req implements the in-process request codec round trip of property C11
// (subcommand `inproc reqcodec`, also built stand-alone as cmd/c11req).
package c11req

import (
	"encoding/json"
	"fmt"
	"os"

	targs "github.com/cloudwego/thriftgo/args"
	"github.com/cloudwego/thriftgo/parser"
	"github.com/cloudwego/thriftgo/plugin"
	"github.com/cloudwego/thriftgo/semantic"
	"github.com/cloudwego/thriftgo/version"

	"verifharness/pkg/c11canon"
	"verifharness/pkg/nd"
)

// C11: build, in-process, the request the compiler would hand to a plugin for an IDL and a
// command line (parse + check + resolve exactly as sdk.InvokeThriftgo does; the scalar request
// fields come from the case, i.e. from the abstract spec), push it through the real codec
//
//	plain:    MarshalRequest -> UnmarshalRequest
//	compress: compressThriftInclude -> MarshalRequest -> trailer -> (revert) -> UnmarshalRequest
//
// and report canonical dumps (hash, sharing, file list; the full tree on request) of the
// original request, of both decoded requests and of the original after the revert.

type reqCase struct {
	ID        interface{} `json:"id"`
	Kind      string      `json:"kind"` // "" = codec round trip; "argv" = command-line parsing only; "sdk" = see sdk.go
	Argv      []string    `json:"argv"`
	SDK       *sdkScript  `json:"sdk"`
	Cwd       string      `json:"cwd"`
	IDL       string      `json:"idl"`
	Includes  []string    `json:"includes"`
	Lang      string      `json:"lang"`
	Out       string      `json:"out"`
	Recursive bool        `json:"recursive"`
	GParams   []string    `json:"gparams"`
	PParams   []string    `json:"pparams"`
	Full      bool        `json:"full"`
}

type reqObs struct {
	ID         interface{}    `json:"id"`
	Err        string         `json:"err,omitempty"`   // the front end rejected the program
	Stage      string         `json:"stage,omitempty"` // where
	Version    string         `json:"version,omitempty"`
	Orig       *c11canon.Dump `json:"orig,omitempty"`
	Plain      *c11canon.Dump `json:"plain,omitempty"`
	Compress   *c11canon.Dump `json:"compress,omitempty"`
	Restored   *c11canon.Dump `json:"restored,omitempty"`
	Compressed []string       `json:"compressed,omitempty"` // file names (DFS) of the AST while compressed
	NoTrailer  *c11canon.Dump `json:"notrailer,omitempty"`  // compressed bytes decoded without trailer
	Sizes      map[string]int `json:"sizes,omitempty"`
}

func guardDump(f func() (*plugin.Request, error), full bool) *c11canon.Dump {
	var d *c11canon.Dump
	p := nd.Guard(func() {
		r, err := f()
		if err != nil {
			d = &c11canon.Dump{Err: "error: " + err.Error()}
			return
		}
		d = c11canon.Of(r, full)
	})
	if p != "" {
		return &c11canon.Dump{Err: "panic: " + p}
	}
	return d
}

func buildAST(idl string, includes []string) (ast *parser.Thrift, stage string, err error) {
	ast, err = parser.ParseFile(idl, includes, true)
	if err != nil {
		return nil, "parse", err
	}
	if path := parser.CircleDetect(ast); len(path) > 0 {
		return nil, "circle", fmt.Errorf("found include circle: %s", path)
	}
	checker := semantic.NewChecker(semantic.Options{FixWarnings: true})
	if _, err = checker.CheckAll(ast); err != nil {
		return nil, "check", err
	}
	if err = semantic.ResolveSymbols(ast); err != nil {
		return nil, "resolve", err
	}
	return ast, "", nil
}

func reqcodecOne(c *reqCase) *reqObs {
	o := &reqObs{ID: c.ID, Version: version.ThriftgoVersion}
	var ast *parser.Thrift
	p := nd.Guard(func() {
		var err error
		ast, o.Stage, err = buildAST(c.IDL, c.Includes)
		if err != nil {
			o.Err = err.Error()
		}
	})
	if p != "" {
		o.Err, o.Stage = "panic: "+p, "panic"
	}
	if o.Err != "" {
		return o
	}
	req := &plugin.Request{
		Version:             version.ThriftgoVersion,
		GeneratorParameters: c.GParams,
		PluginParameters:    c.PParams,
		Language:            c.Lang,
		OutputPath:          c.Out,
		Recursive:           c.Recursive,
		AST:                 ast,
	}
	o.Sizes = map[string]int{}
	o.Orig = c11canon.Of(req, c.Full)

	// plain
	var plain []byte
	o.Plain = guardDump(func() (*plugin.Request, error) {
		b, err := plugin.MarshalRequest(req)
		if err != nil {
			return nil, err
		}
		plain = b
		o.Sizes["plain"] = len(b)
		o.Sizes["blength"] = req.BLength()
		return plugin.UnmarshalRequest(b)
	}, c.Full)

	// compress + trailer, revert, decode
	var comp []byte
	perr := nd.Guard(func() {
		m := map[string]*parser.Thrift{}
		plugin.VerifCompressThriftInclude(req.AST, m)
		o.Compressed = c11canon.Files(req.AST)
		b, err := plugin.MarshalRequest(req)
		if err == nil {
			comp = b
		}
		plugin.VerifDecompressThriftInclude(req.AST, m) // the deferred revert of external.Execute
	})
	if perr != "" {
		o.Compress = &c11canon.Dump{Err: "panic: " + perr}
		return o
	}
	o.Restored = c11canon.Of(req, c.Full)
	o.Sizes["compressed"] = len(comp)
	o.Compress = guardDump(func() (*plugin.Request, error) {
		return plugin.UnmarshalRequest(plugin.VerifAppendDataTrailer(append([]byte(nil), comp...)))
	}, c.Full)
	// what a plugin would see if the trailer were lost (information only)
	o.NoTrailer = guardDump(func() (*plugin.Request, error) {
		return plugin.UnmarshalRequest(comp)
	}, false)
	_ = plain
	return o
}

// argv: what the compiler's own command-line code (args.Arguments) makes of an argument vector.
type argvObs struct {
	ID        interface{}  `json:"id"`
	Err       string       `json:"err,omitempty"`
	Targets   []namedParam `json:"targets"`
	Plugins   []namedParam `json:"plugins"`
	Out       []string     `json:"out"` // output path per target
	Recursive bool         `json:"recursive"`
	LimitMs   int64        `json:"limit_ms"`
	IDL       string       `json:"idl"`
}

type namedParam struct {
	Name   string   `json:"name"`
	Params []string `json:"params"`
}

func argvOne(c *reqCase) *argvObs {
	o := &argvObs{ID: c.ID, Targets: []namedParam{}, Plugins: []namedParam{}, Out: []string{}}
	p := nd.Guard(func() {
		var a targs.Arguments
		if err := a.Parse(append([]string{"thriftgo"}, c.Argv...)); err != nil {
			o.Err = err.Error()
			return
		}
		ps, err := a.UsedPlugins()
		if err != nil {
			o.Err = err.Error()
			return
		}
		ts, err := a.Targets()
		if err != nil {
			o.Err = err.Error()
			return
		}
		for _, d := range ps {
			pp := plugin.Pack(d.Options)
			if pp == nil {
				pp = []string{}
			}
			o.Plugins = append(o.Plugins, namedParam{d.Name, pp})
		}
		for _, t := range ts {
			pp := plugin.Pack(t.Options)
			if pp == nil {
				pp = []string{}
			}
			o.Targets = append(o.Targets, namedParam{t.Language, pp})
			o.Out = append(o.Out, a.Output(t.Language))
		}
		o.Recursive = a.Recursive
		o.LimitMs = a.PluginTimeLimit.Milliseconds()
		o.IDL = a.IDL
	})
	if p != "" {
		o.Err = "panic: " + p
	}
	return o
}

// Run is the `reqcodec` subcommand: cases (ndjson) in, observations (ndjson) out.
func Run(in, out string) error {
	// sequential: the parser normalises file names relative to the working directory
	return nd.Each(in, out, 1, func(line []byte) (interface{}, error) {
		var c reqCase
		if err := json.Unmarshal(line, &c); err != nil {
			return nil, err
		}
		if c.Cwd != "" {
			if err := os.Chdir(c.Cwd); err != nil {
				return nil, err
			}
		}
		if c.Kind == "argv" {
			return argvOne(&c), nil
		}
		if c.Kind == "sdk" {
			o := sdkOne(&c)
			o.Version = version.ThriftgoVersion
			return o, nil
		}
		return reqcodecOne(&c), nil
	})
}
