// Package nd has the ndjson plumbing shared by the harness commands.
package nd

import (
	"bufio"
	"encoding/json"
	"fmt"
	"io"
	"os"
	"runtime"
	"sync"
)

// Each reads ndjson from path ("-" = stdin) and calls fn for every line in parallel,
// writing fn's result (one JSON value per input line, input order preserved) to out.
func Each(in, out string, workers int, fn func(line []byte) (interface{}, error)) error {
	var r io.Reader = os.Stdin
	if in != "-" {
		f, err := os.Open(in)
		if err != nil {
			return err
		}
		defer f.Close()
		r = f
	}
	var w io.Writer = os.Stdout
	if out != "-" {
		f, err := os.Create(out)
		if err != nil {
			return err
		}
		defer f.Close()
		w = f
	}
	bw := bufio.NewWriterSize(w, 1<<20)
	defer bw.Flush()
	sc := bufio.NewScanner(r)
	sc.Buffer(make([]byte, 1<<20), 1<<28)
	var lines [][]byte
	for sc.Scan() {
		b := append([]byte(nil), sc.Bytes()...)
		if len(b) == 0 {
			continue
		}
		lines = append(lines, b)
	}
	if err := sc.Err(); err != nil {
		return err
	}
	if workers <= 0 {
		workers = runtime.NumCPU()
	}
	res := make([][]byte, len(lines))
	var wg sync.WaitGroup
	var mu sync.Mutex
	var firstErr error
	ch := make(chan int, 1024)
	for k := 0; k < workers; k++ {
		wg.Add(1)
		go func() {
			defer wg.Done()
			for i := range ch {
				v, err := fn(lines[i])
				if err != nil {
					mu.Lock()
					if firstErr == nil {
						firstErr = fmt.Errorf("line %d: %w", i+1, err)
					}
					mu.Unlock()
					continue
				}
				b, err := json.Marshal(v)
				if err != nil {
					mu.Lock()
					if firstErr == nil {
						firstErr = fmt.Errorf("line %d: %w", i+1, err)
					}
					mu.Unlock()
					continue
				}
				res[i] = b
			}
		}()
	}
	for i := range lines {
		ch <- i
	}
	close(ch)
	wg.Wait()
	if firstErr != nil {
		return firstErr
	}
	for _, b := range res {
		bw.Write(b)
		bw.WriteByte('\n')
	}
	return nil
}

// Guard runs f and converts a panic into a string (empty = no panic).
func Guard(f func()) (panicked string) {
	defer func() {
		if r := recover(); r != nil {
			buf := make([]byte, 2048)
			n := runtime.Stack(buf, false)
			panicked = fmt.Sprintf("%v\n%s", r, buf[:n])
		}
	}()
	f()
	return ""
}
