// Package c15drv adds the scenario kind "refl" to the lab driver (C15): for one case it walks the file
// descriptors the generated packages registered at init time, projects them (pkg/c15refl), round-trips
// them through Marshal/Unmarshal and answers the registry queries against the default registry.
// The generated main fills Cases (one FileInfo per IDL file: GetFileDescriptorFor<X>, the Go types).
package c15drv

import (
	"encoding/json"
	"fmt"

	"verifharness/pkg/c15refl"
	"verifharness/pkg/drv"
	"verifharness/pkg/nd"
)

var Cases = map[string][]c15refl.FileInfo{}

func init() { drv.Ops["refl"] = opRefl }

func opRefl(_ *drv.Schema, s *drv.Scenario, r *drv.Result) error {
	files, ok := Cases[s.Case]
	if !ok {
		return fmt.Errorf("no reflection table for case %s", s.Case)
	}
	var qs []c15refl.Q
	if raw, ok := s.X["queries"]; ok {
		b, err := json.Marshal(raw)
		if err != nil {
			return err
		}
		if err := json.Unmarshal(b, &qs); err != nil {
			return err
		}
	}
	out := c15refl.M{}
	r.Panic = nd.Guard(func() {
		w := &c15refl.World{GD: c15refl.DefaultGD(), Files: files}
		for _, f := range files {
			w.Paths = append(w.Paths, f.Path)
		}
		var fl []interface{}
		for _, f := range files {
			fd := f.FD()
			e := c15refl.M{"path": f.Path, "canon": c15refl.Canon(fd), "registered": fd != nil && fd == w.GD.LookupFD(f.Path)}
			if fd != nil {
				e["rt"] = c15refl.RoundTrip(fd)
			}
			fl = append(fl, e)
		}
		out["files"] = fl
		out["qs"] = w.RunAll(qs)
	})
	r.X = out
	return nil
}
