// Package c08rpc is the generic half of the C08 conformance driver: it wires a generated Client to a
// generated Processor over an in-memory connection with recording protocols on all four protocol ends,
// plays scripted handler outcomes and logs the connection as an ordered event list
// (spec/Rpc/Trace_Rpc.tla). The typed half (handler types implementing the generated service
// interfaces, client call stubs) is generated per lab by lib/c08_model.py and registers itself here.
package c08rpc

import (
	"bytes"
	"context"
	"encoding/json"
	"errors"
	"fmt"
	"reflect"

	"github.com/apache/thrift/lib/go/thrift"

	"verifharness/pkg/drv"
	"verifharness/pkg/nd"
	"verifharness/pkg/rec"
)

type Arg struct {
	Name string
	T    drv.SType
}

type Throw struct {
	Name string
	Key  string // drv constructor key "<case>/<exception name>"
	S    string // schema struct name
}

type Method struct {
	Svc    string // defining service (IDL name)
	Name   string // IDL name
	Oneway bool
	Void   bool
	Args   []Arg
	Ret    *drv.SType
	Throws []Throw
	Call   func(cli interface{}, x *CallCtx) (interface{}, error)
}

type Service struct {
	Case         string
	Name         string
	Methods      []*Method // dispatch table: own and inherited
	NewClient    func(in, out thrift.TProtocol) interface{}
	NewProcessor func(h *Handler) thrift.TProcessor
}

var services = map[string]*Service{}

func Register(s *Service) { services[s.Case+"/"+s.Name] = s }

func init() { drv.Ops["rpc"] = opRPC }

// T parses the JSON image of a schema type (used by the generated registrations).
func T(js string) drv.SType {
	var t drv.SType
	if err := json.Unmarshal([]byte(js), &t); err != nil {
		panic("c08rpc.T: " + err.Error())
	}
	return t
}

func TP(js string) *drv.SType { t := T(js); return &t }

// ---- scenario payload -------------------------------------------------------------------------

type Outcome struct {
	K    string      `json:"k"`              // val | void | exc | other
	V    interface{} `json:"v,omitempty"`    // result value / exception value
	I    int         `json:"i,omitempty"`    // 1-based index into the method's throws (exc)
	Also interface{} `json:"also,omitempty"` // exc: a result value returned together with the exception
	Var  string      `json:"var,omitempty"`  // other: plain | appexc | undeclared
	Key  string      `json:"key,omitempty"`  // other/undeclared: exception struct name to return
}

type CallSpec struct {
	M    string        `json:"m"` // IDL method name ("" for a raw message)
	Args []interface{} `json:"args"`
	Out  *Outcome      `json:"out"`
	Lag  bool          `json:"lag"` // oneway: the server processes it only when a later call needs the server
	// raw message (unknown method name): written to the connection as bytes
	Raw  string    `json:"raw,omitempty"`
	Seq  int       `json:"seq,omitempty"`
	Mt   int       `json:"mt,omitempty"`
	Body []rec.Tok `json:"body,omitempty"`
}

type Payload struct {
	Svc   string     `json:"svc"`
	Calls []CallSpec `json:"calls"`
}

type Event map[string]interface{}

// ---- connection -------------------------------------------------------------------------------

type conn struct {
	sc      *drv.Schema
	cas     string
	svc     *Service
	c2s     *thrift.TMemoryBuffer
	s2c     *thrift.TMemoryBuffer
	cliIn   *rec.Protocol
	cliOut  *rec.Protocol
	srvIn   *rec.Protocol
	srvOut  *rec.Protocol
	proc    thrift.TProcessor
	events  []Event
	script  []*Outcome // outcomes of the requests not yet handled, in request order
	scriptM []string
	lag     bool
	cwMark  int
	c2sMark int
	hIdx    int // index of the handler event of the Process call in progress (-1 none)
	client  interface{}
	bytesOK bool
	notes   []string
	srvFlushes int
}

func (c *conn) emit(e Event) { c.events = append(c.events, e) }

// hookTransport is the client's output transport: a flush hands the bytes to the server.
type hookTransport struct {
	*thrift.TMemoryBuffer
	c *conn
}

// flushCount is the server's output transport: it counts Flush calls.  On a transport that buffers until Flush
// (framed, buffered, sockets) a message that is written but not flushed never leaves the server.
type flushCount struct {
	*thrift.TMemoryBuffer
	c *conn
}

func (t *flushCount) Flush(ctx context.Context) error {
	t.c.srvFlushes++
	return t.TMemoryBuffer.Flush(ctx)
}

func (t *hookTransport) Flush(ctx context.Context) error {
	t.c.onClientFlush()
	return nil
}

func (c *conn) onClientFlush() {
	toks := append([]rec.Tok(nil), c.cliOut.Log[c.cwMark:]...)
	c.cwMark = len(c.cliOut.Log)
	raw := c.c2s.Bytes()
	if c.c2sMark <= len(raw) {
		c.checkBytes("c2s", raw[c.c2sMark:], toks)
	}
	c.emit(Event{"e": "cw", "toks": toks})
	if !c.lag {
		c.pump()
	}
	c.c2sMark = c.c2s.Len()
}

func (c *conn) checkBytes(what string, got []byte, toks []rec.Tok) {
	want, err := rec.Encode(toks)
	if err != nil || !bytes.Equal(want, got) {
		c.bytesOK = false
		c.notes = append(c.notes, fmt.Sprintf("%s: bytes on the connection differ from the encoding of the recorded calls (%d vs %d bytes, %v)", what, len(got), len(want), err))
	}
}

// pump lets the server process every request that is on the connection.
func (c *conn) pump() {
	for c.c2s.Len() > 0 {
		mi, mo := len(c.srvIn.Log), len(c.srvOut.Log)
		before := c.c2s.Len()
		s2cBefore := c.s2c.Len()
		c.hIdx = -1
		f0 := c.srvFlushes
		at := len(c.events)
		var ok bool
		var perr error
		pan := nd.Guard(func() { ok, perr = c.proc.Process(context.Background(), c.srvIn, c.srvOut) })
		sr := Event{"e": "sr", "toks": append([]rec.Tok(nil), c.srvIn.Log[mi:]...)}
		// the tokens the server read for this request go in front of the handler event
		c.events = append(c.events, nil)
		copy(c.events[at+1:], c.events[at:])
		c.events[at] = sr
		if len(c.srvOut.Log) > mo {
			toks := append([]rec.Tok(nil), c.srvOut.Log[mo:]...)
			all := c.s2c.Bytes()
			// the client has not read anything in between: the new bytes are the tail
			if s2cBefore <= len(all) {
				c.checkBytes("s2c", all[s2cBefore:], toks)
			}
			c.emit(Event{"e": "sw", "toks": toks, "flushed": c.srvFlushes > f0})
		} else if c.s2c.Len() != s2cBefore {
			c.bytesOK = false
			c.notes = append(c.notes, "s2c: bytes written without protocol calls")
		}
		p := Event{"e": "p", "ok": ok}
		if perr != nil {
			p["err"] = perr.Error()
		}
		if pan != "" {
			p["panic"] = pan
		}
		c.emit(p)
		if c.c2s.Len() == before || pan != "" {
			break
		}
	}
}

// ---- handler side -----------------------------------------------------------------------------

// Handler is embedded by the generated typed handlers.
type Handler struct{ c *conn }

// Played is what a typed handler method gets back from Enter.
type Played struct {
	h   *Handler
	m   *Method
	o   *Outcome
	ev  Event
	bad []string
}

func (c *conn) method(svc, name string) *Method {
	for _, m := range c.svc.Methods {
		if m.Svc == svc && m.Name == name {
			return m
		}
	}
	return nil
}

// Enter records the invocation of IDL method svc.name with the Go arguments and returns the scripted outcome.
func (h *Handler) Enter(svc, name string, args ...interface{}) *Played {
	c := h.c
	p := &Played{h: h}
	ev := Event{"e": "h", "ds": svc, "m": name}
	p.ev = ev
	m := c.method(svc, name)
	p.m = m
	seen := map[string]interface{}{}
	if m == nil || len(m.Args) != len(args) {
		ev["bad"] = "handler method not in the service table"
	} else {
		for i := range m.Args {
			seen[m.Args[i].Name] = drv.Dump(c.sc, &m.Args[i].T, reflect.ValueOf(args[i]))
		}
	}
	ev["seen"] = map[string]interface{}{"s": seen}
	if len(c.script) == 0 {
		ev["bad"] = "handler invoked without a pending request"
		p.o = &Outcome{K: "other", Var: "plain"}
	} else {
		p.o = c.script[0]
		ev["for"] = c.scriptM[0]
		c.script = c.script[1:]
		c.scriptM = c.scriptM[1:]
	}
	ev["out"] = p.o
	c.hIdx = len(c.events)
	c.emit(ev)
	return p
}

// Result stores the scripted result value into *dst (dst is a pointer to the named result of the handler method).
func (p *Played) Result(dst interface{}) {
	var v interface{}
	switch p.o.K {
	case "val":
		v = p.o.V
	case "exc":
		v = p.o.Also
	}
	if v == nil || p.m == nil || p.m.Ret == nil {
		return
	}
	if err := drv.Build(p.h.c.sc, p.m.Ret, v, reflect.ValueOf(dst).Elem()); err != nil {
		p.ev["bad"] = "cannot build the scripted result: " + err.Error()
	}
}

func (c *conn) newException(key string, v interface{}) (error, error) {
	obj, sch, err := drv.NewObject(&drv.Scenario{Case: c.cas, S: key})
	if err != nil {
		return nil, err
	}
	holder := reflect.New(reflect.TypeOf(obj)).Elem()
	if err := drv.Build(sch, &drv.SType{N: "struct", S: key}, v, holder); err != nil {
		return nil, err
	}
	e, ok := holder.Interface().(error)
	if !ok {
		return nil, fmt.Errorf("%s is not an error type", key)
	}
	return e, nil
}

// Err is the error the handler method returns.
func (p *Played) Err() error {
	switch p.o.K {
	case "val", "void":
		return nil
	case "exc":
		if p.m == nil || p.o.I < 1 || p.o.I > len(p.m.Throws) {
			p.ev["bad"] = "scripted exception is not declared by the invoked method"
			return errors.New("verif: undeliverable scripted exception")
		}
		e, err := p.h.c.newException(p.m.Throws[p.o.I-1].S, p.o.V)
		if err != nil {
			p.ev["bad"] = "cannot build the scripted exception: " + err.Error()
			return errors.New("verif: undeliverable scripted exception")
		}
		return e
	}
	switch p.o.Var {
	case "appexc":
		return thrift.NewTApplicationException(thrift.PROTOCOL_ERROR, "handler says no")
	case "undeclared":
		e, err := p.h.c.newException(p.o.Key, p.o.V)
		if err != nil {
			p.ev["bad"] = "cannot build the undeclared exception: " + err.Error()
			return errors.New("verif: boom")
		}
		return e
	}
	return errors.New("verif: boom")
}

// ---- client side ------------------------------------------------------------------------------

type CallCtx struct {
	Ctx  context.Context
	c    *conn
	m    *Method
	vals []interface{}
	Bad  string
}

// Arg stores the i-th scripted argument into *dst.
func (x *CallCtx) Arg(i int, dst interface{}) {
	if i >= len(x.vals) || i >= len(x.m.Args) {
		x.Bad = "argument count"
		return
	}
	if err := drv.Build(x.c.sc, &x.m.Args[i].T, x.vals[i], reflect.ValueOf(dst).Elem()); err != nil {
		x.Bad = "cannot build argument: " + err.Error()
	}
}

func (c *conn) classify(m *Method, r interface{}, err error) map[string]interface{} {
	if err == nil {
		if m.Oneway {
			return map[string]interface{}{"k": "none"}
		}
		if m.Void {
			return map[string]interface{}{"k": "void"}
		}
		return map[string]interface{}{"k": "val", "v": drv.Dump(c.sc, m.Ret, reflect.ValueOf(r))}
	}
	if ae, ok := err.(thrift.TApplicationException); ok {
		return map[string]interface{}{"k": "app", "ty": int(ae.TypeId()), "msg": ae.Error()}
	}
	et := reflect.TypeOf(err)
	for i, t := range m.Throws {
		obj, _, e2 := drv.NewObject(&drv.Scenario{Case: c.cas, S: t.S})
		if e2 == nil && reflect.TypeOf(obj) == et {
			return map[string]interface{}{"k": "exc", "i": i + 1,
				"v": drv.Dump(c.sc, &drv.SType{N: "struct", S: t.S}, reflect.ValueOf(err))}
		}
	}
	return map[string]interface{}{"k": "err", "msg": err.Error(), "gotype": et.String()}
}

func appType(toks []rec.Tok) (int, bool) {
	depth := 0
	for i, t := range toks {
		switch t.T {
		case "SB":
			depth++
		case "SE":
			depth--
		case "FB":
			if depth == 1 && t.ID != nil && *t.ID == 2 && t.Ty != nil && *t.Ty == 8 && i+1 < len(toks) {
				var n int
				if _, err := fmt.Sscanf(toks[i+1].A, "i32:%d", &n); err == nil {
					return n, true
				}
			}
		}
	}
	return 0, false
}

func (c *conn) rawCall(k int, cs *CallSpec) {
	toks := []rec.Tok{{T: "MSG", Name: cs.Raw, Mt: &cs.Mt, Seq: &cs.Seq}}
	toks = append(toks, cs.Body...)
	toks = append(toks, rec.Tok{T: "MSGE"})
	b, err := rec.Encode(toks)
	if err != nil {
		c.emit(Event{"e": "bad", "what": "cannot encode raw message: " + err.Error()})
		return
	}
	if cs.Out != nil {
		// a known method name: the handler will run and play this outcome
		c.script = append(c.script, cs.Out)
		c.scriptM = append(c.scriptM, cs.Raw)
	}
	c.c2s.Write(b)
	c.emit(Event{"e": "raw", "k": k, "toks": toks})
	c.pump()
	c.c2sMark = c.c2s.Len()
	// read the reply without the generated client: header through the protocol library, body by the lexer
	res := map[string]interface{}{"k": "none"} // nothing came back
	var rt []rec.Tok
	if c.s2c.Len() > 0 {
		pr := thrift.NewTBinaryProtocol(c.s2c, true, true)
		name, mt, seq, err := pr.ReadMessageBegin()
		if err != nil {
			res = map[string]interface{}{"k": "err", "msg": "reply header: " + err.Error()}
		} else {
			imt, iseq := int(mt), int(seq)
			rt = append(rt, rec.Tok{T: "MSG", Name: name, Mt: &imt, Seq: &iseq})
			body, n, err := rec.Lex(c.s2c.Bytes(), 12)
			if err != nil {
				res = map[string]interface{}{"k": "err", "msg": "reply body: " + err.Error()}
			} else {
				c.s2c.Next(n)
				rt = append(rt, body...)
				rt = append(rt, rec.Tok{T: "MSGE"})
				if mt == thrift.EXCEPTION {
					if ty, ok := appType(body); ok {
						res = map[string]interface{}{"k": "app", "ty": ty}
					} else {
						res = map[string]interface{}{"k": "err", "msg": "exception reply without a type field"}
					}
				} else {
					res = map[string]interface{}{"k": "rawreply", "mt": imt}
				}
			}
		}
	}
	c.emit(Event{"e": "ret", "k": k, "toks": rt, "res": res, "raw": true})
}

func (c *conn) call(k int, cs *CallSpec) {
	var m *Method
	for _, x := range c.svc.Methods {
		if x.Name == cs.M {
			m = x
			break
		}
	}
	if m == nil {
		c.emit(Event{"e": "bad", "what": "no method " + cs.M})
		return
	}
	c.script = append(c.script, cs.Out)
	c.scriptM = append(c.scriptM, cs.M)
	c.lag = cs.Lag && m.Oneway
	args := map[string]interface{}{}
	for i := range m.Args {
		if i < len(cs.Args) {
			args[m.Args[i].Name] = cs.Args[i]
		}
	}
	c.emit(Event{"e": "call", "k": k, "m": cs.M, "a": map[string]interface{}{"s": args}})
	c.cwMark = len(c.cliOut.Log)
	c.c2sMark = c.c2s.Len()
	crMark := len(c.cliIn.Log)
	x := &CallCtx{Ctx: context.Background(), c: c, m: m, vals: cs.Args}
	var r interface{}
	var err error
	pan := nd.Guard(func() { r, err = m.Call(c.cli(), x) })
	ev := Event{"e": "ret", "k": k, "toks": append([]rec.Tok(nil), c.cliIn.Log[crMark:]...)}
	if pan != "" {
		ev["res"] = map[string]interface{}{"k": "panic", "msg": pan}
	} else {
		ev["res"] = c.classify(m, r, err)
	}
	if x.Bad != "" {
		ev["bad"] = x.Bad
	}
	c.emit(ev)
	c.lag = false
}

func (c *conn) cli() interface{} { return c.client }

// ---- scenario ---------------------------------------------------------------------------------

func opRPC(sc *drv.Schema, s *drv.Scenario, r *drv.Result) error {
	raw, err := json.Marshal(s.X)
	if err != nil {
		return err
	}
	var pl Payload
	if err := json.Unmarshal(raw, &pl); err != nil {
		return fmt.Errorf("rpc payload: %w", err)
	}
	svc, ok := services[s.Case+"/"+pl.Svc]
	if !ok {
		return fmt.Errorf("no service registered for %s/%s", s.Case, pl.Svc)
	}
	c := &conn{sc: sc, cas: s.Case, svc: svc, bytesOK: true, hIdx: -1}
	c.c2s = thrift.NewTMemoryBuffer()
	c.s2c = thrift.NewTMemoryBuffer()
	c.cliOut = rec.New(thrift.NewTBinaryProtocol(&hookTransport{c.c2s, c}, true, true))
	c.cliIn = rec.New(thrift.NewTBinaryProtocol(c.s2c, true, true))
	c.srvIn = rec.New(thrift.NewTBinaryProtocol(c.c2s, true, true))
	c.srvOut = rec.New(thrift.NewTBinaryProtocol(&flushCount{c.s2c, c}, true, true))
	c.client = svc.NewClient(c.cliIn, c.cliOut)
	c.proc = svc.NewProcessor(&Handler{c: c})
	for k := range pl.Calls {
		cs := &pl.Calls[k]
		if cs.Raw != "" {
			c.rawCall(k+1, cs)
		} else {
			c.call(k+1, cs)
		}
	}
	// requests the server has not looked at yet (lagging oneway calls at the end of the connection)
	c.pump()
	c.emit(Event{"e": "end", "c2s": c.c2s.Len(), "s2c": c.s2c.Len(), "script": len(c.script)})
	r.X = map[string]interface{}{"events": c.events, "bytes_ok": c.bytesOK, "notes": c.notes}
	return nil
}
