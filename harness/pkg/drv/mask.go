package drv

import (
	"fmt"
	"reflect"

	"github.com/apache/thrift/lib/go/thrift"
	"github.com/cloudwego/thriftgo/fieldmask"
	"github.com/cloudwego/thriftgo/thrift_reflection"

	"verifharness/pkg/nd"
	"verifharness/pkg/rec"
)

func init() {
	Ops["mw"] = opMaskWrite
	Ops["mr"] = opMaskRead
}

type masked interface {
	GetTypeDescriptor() *thrift_reflection.TypeDescriptor
	Set_FieldMask(fm *fieldmask.FieldMask)
}

// mkMask builds the mask with the real library. X: {"paths": [...], "mode": "white"|"black"|"none"}
func mkMask(obj thrift.TStruct, x map[string]interface{}) (*fieldmask.FieldMask, error) {
	mode, _ := x["mode"].(string)
	if mode == "none" {
		return nil, nil
	}
	m, ok := obj.(masked)
	if !ok {
		return nil, fmt.Errorf("%T has no field-mask API", obj)
	}
	var paths []string
	if ps, ok := x["paths"].([]interface{}); ok {
		for _, p := range ps {
			paths = append(paths, p.(string))
		}
	}
	desc := m.GetTypeDescriptor()
	if mode == "black" {
		return fieldmask.Options{BlackListMode: true}.NewFieldMask(desc, paths...)
	}
	return fieldmask.NewFieldMask(desc, paths...)
}

func opMaskWrite(sc *Schema, s *Scenario, r *Result) error {
	obj, err := buildObj(sc, s)
	if err != nil {
		return err
	}
	x := map[string]interface{}{}
	r.Panic = nd.Guard(func() {
		fm, err := mkMask(obj, s.X)
		if err != nil {
			x["mask_err"] = err.Error()
			return
		}
		// history: the same object was written before under other masks (x.pre: list of path lists); what is
		// written now must depend on the current mask only
		if pre, ok := s.X["pre"].([]interface{}); ok {
			if m, ok := obj.(masked); ok {
				for _, ps := range pre {
					pm, err := mkMask(obj, map[string]interface{}{"mode": "white", "paths": ps})
					if err != nil || pm == nil {
						continue
					}
					m.Set_FieldMask(pm)
					obj.Write(thrift.NewTBinaryProtocol(thrift.NewTMemoryBuffer(), true, true))
				}
				m.Set_FieldMask(nil)
			}
		}
		if fm != nil {
			obj.(masked).Set_FieldMask(fm)
		}
		buf := thrift.NewTMemoryBuffer()
		rp := rec.New(thrift.NewTBinaryProtocol(buf, true, true))
		if err := obj.Write(rp); err != nil {
			r.Err = err.Error()
		}
		r.Toks = rp.Log
	})
	r.X = x
	return nil
}

func opMaskRead(sc *Schema, s *Scenario, r *Result) error {
	b, err := rec.Encode(s.Toks)
	if err != nil {
		return err
	}
	obj, _, err := NewObject(s)
	if err != nil {
		return err
	}
	x := map[string]interface{}{}
	r.Panic = nd.Guard(func() {
		fm, err := mkMask(obj, s.X)
		if err != nil {
			x["mask_err"] = err.Error()
			return
		}
		if fm != nil {
			obj.(masked).Set_FieldMask(fm)
		}
		buf := thrift.NewTMemoryBuffer()
		buf.Write(b)
		rp := rec.New(thrift.NewTBinaryProtocol(buf, true, true))
		if err := obj.Read(rp); err != nil {
			r.Err = err.Error()
		}
		r.Toks = rp.Log
		if buf.Len() != 0 {
			x["unread"] = buf.Len()
		}
	})
	r.V = Dump(sc, stype(s.S), reflect.ValueOf(obj))
	r.X = x
	return nil
}
