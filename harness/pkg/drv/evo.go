package drv

import (
	"fmt"
	"reflect"

	"github.com/apache/thrift/lib/go/thrift"

	"verifharness/pkg/nd"
	"verifharness/pkg/rec"
)

func init() { Ops["evo"] = opEvolution }

// evo: new.Write(v) -> old.Read -> old.Write -> new.Read, across two independently generated
// packages. Scenario: case/s = the NEW version; X = {"old_case": id}
func opEvolution(sc *Schema, s *Scenario, r *Result) error {
	oldCase, _ := s.X["old_case"].(string)
	os := &Scenario{Case: oldCase, S: s.S}
	oldObj, oldSc, err := NewObject(os)
	if err != nil {
		return err
	}
	newObj, err := buildObj(sc, s)
	if err != nil {
		return err
	}
	x := map[string]interface{}{}
	r.Panic = nd.Guard(func() {
		// 1. new.Write
		b1 := thrift.NewTMemoryBuffer()
		if err := newObj.Write(thrift.NewTBinaryProtocol(b1, true, true)); err != nil {
			x["err_write_new"] = err.Error()
			return
		}
		// 2. old.Read
		if err := oldObj.Read(thrift.NewTBinaryProtocol(b1, true, true)); err != nil {
			x["err_read_old"] = err.Error()
			return
		}
		x["old_v"] = Dump(oldSc, stype(s.S), reflect.ValueOf(oldObj))
		if c, ok := oldObj.(interface{ CarryingUnknownFields() bool }); ok {
			if c.CarryingUnknownFields() {
				x["carry"] = "yes"
			} else {
				x["carry"] = "no"
			}
		} else {
			x["carry"] = "na"
		}
		// 3. old.Write (recorded)
		b2 := thrift.NewTMemoryBuffer()
		rp := rec.New(thrift.NewTBinaryProtocol(b2, true, true))
		if err := oldObj.Write(rp); err != nil {
			x["err_write_old"] = err.Error()
		}
		_ = rp.Log
		// the property speaks about the bytes: lex them back (the unknown-field store replays raw
		// bytes and need not make one TProtocol call per token)
		raw := append([]byte(nil), b2.Bytes()...)
		toks, n, lerr := rec.Lex(raw, 12)
		if lerr != nil {
			x["lexerr"] = lerr.Error()
		} else if n != len(raw) {
			x["lexerr"] = fmt.Sprintf("trailing bytes: %d of %d", n, len(raw))
		}
		r.Toks = toks
		// 4. new.Read
		fin, _, _ := NewObject(s)
		if err := fin.Read(thrift.NewTBinaryProtocol(b2, true, true)); err != nil {
			x["err_read_new"] = err.Error()
		}
		x["final_v"] = Dump(sc, stype(s.S), reflect.ValueOf(fin))
		if b2.Len() != 0 {
			x["unread"] = fmt.Sprint(b2.Len())
		}
	})
	r.X = x
	return nil
}
