package drv

import (
	"fmt"
	"reflect"

	"verifharness/pkg/nd"
)

func init() { Ops["deq"] = opDeepEqual }

// deq: x.DeepEqual(y), y.DeepEqual(x), x.DeepEqual(x') with x' an independent rebuild of x,
// and the nil cases. x and y are built independently (no shared pointers).
// Scenario.X = {"x": VALUE, "y": VALUE}
func opDeepEqual(sc *Schema, s *Scenario, r *Result) error {
	build := func(v interface{}) (reflect.Value, error) {
		obj, _, err := NewObject(s)
		if err != nil {
			return reflect.Value{}, err
		}
		h := reflect.New(reflect.TypeOf(obj)).Elem()
		if err := Build(sc, stype(s.S), v, h); err != nil {
			return reflect.Value{}, fmt.Errorf("build: %w", err)
		}
		return h, nil
	}
	x, err := build(s.X["x"])
	if err != nil {
		return err
	}
	x2, err := build(s.X["x"])
	if err != nil {
		return err
	}
	y, err := build(s.X["y"])
	if err != nil {
		return err
	}
	m := x.MethodByName("DeepEqual")
	if !m.IsValid() {
		return fmt.Errorf("%s has no DeepEqual", x.Type())
	}
	out := map[string]interface{}{}
	call := func(name string, a, b reflect.Value) {
		var res bool
		p := nd.Guard(func() { res = a.MethodByName("DeepEqual").Call([]reflect.Value{b})[0].Bool() })
		if p != "" {
			out[name] = "panic: " + p
		} else {
			out[name] = res
		}
	}
	nilv := reflect.Zero(x.Type())
	call("xy", x, y)
	call("yx", y, x)
	call("xx", x, x)
	call("xx2", x, x2)
	call("x_nil", x, nilv)
	call("nil_x", nilv, x)
	call("nil_nil", nilv, nilv)
	r.X = out
	return nil
}
