package drv

import (
	"fmt"
	"reflect"

	"verifharness/pkg/nd"
)

func init() { Ops["deq"] = opDeepEqual }

// deq: x.DeepEqual(y), y.DeepEqual(x), x.DeepEqual(x') with x' an independent rebuild of x,
// and the nil cases. x and y are built independently (no shared pointers).
// Scenario.X = {"x": VALUE, "y": VALUE}
func opDeepEqual(sc *Schema, s *Scenario, r *Result) error {
	build := func(v interface{}) (reflect.Value, error) {
		obj, _, err := NewObject(s)
		if err != nil {
			return reflect.Value{}, err
		}
		h := reflect.New(reflect.TypeOf(obj)).Elem()
		if err := Build(sc, stype(s.S), v, h); err != nil {
			return reflect.Value{}, fmt.Errorf("build: %w", err)
		}
		return h, nil
	}
	x, err := build(s.X["x"])
	if err != nil {
		return err
	}
	x2, err := build(s.X["x"])
	if err != nil {
		return err
	}
	y, err := build(s.X["y"])
	if err != nil {
		return err
	}
	m := x.MethodByName("DeepEqual")
	if !m.IsValid() {
		return fmt.Errorf("%s has no DeepEqual", x.Type())
	}
	out := map[string]interface{}{}
	call := func(name string, a, b reflect.Value) {
		var res bool
		p := nd.Guard(func() { res = a.MethodByName("DeepEqual").Call([]reflect.Value{b})[0].Bool() })
		if p != "" {
			out[name] = "panic: " + p
		} else {
			out[name] = res
		}
	}
	nilv := reflect.Zero(x.Type())
	// a third object ys holds y's value but SHARES with x every struct pointer (list/set element, map value,
	// struct field) whose value is equal in x and y -- what a shallow copy followed by an update produces
	ys, err := build(s.X["y"])
	if err != nil {
		return err
	}
	out["shared_ptrs"] = share(x, ys)
	call("xys", x, ys)
	call("ysx", ys, x)
	call("xy", x, y)
	call("yx", y, x)
	call("xx", x, x)
	call("xx2", x, x2)
	call("x_nil", x, nilv)
	call("nil_x", nilv, x)
	call("nil_nil", nilv, nilv)
	r.X = out
	return nil
}

// share makes b reuse a's struct pointers wherever both hold reflect.DeepEqual values at the same place.
// Returns the number of pointers shared. a and b are values of the same generated type.
func share(a, b reflect.Value) int {
	n := 0
	switch a.Kind() {
	case reflect.Ptr:
		if a.IsNil() || b.IsNil() || a.Type().Elem().Kind() != reflect.Struct {
			return 0
		}
		return share(a.Elem(), b.Elem())
	case reflect.Struct:
		for i := 0; i < a.NumField(); i++ {
			fa, fb := a.Field(i), b.Field(i)
			if !fb.CanSet() {
				continue
			}
			n += shareSlot(fa, fb)
		}
	case reflect.Slice:
		if a.Type().Elem().Kind() == reflect.Uint8 {
			return 0
		}
		for i := 0; i < a.Len() && i < b.Len(); i++ {
			n += shareSlot(a.Index(i), b.Index(i))
		}
	case reflect.Map:
		if a.IsNil() || b.IsNil() {
			return 0
		}
		for _, k := range a.MapKeys() {
			va, vb := a.MapIndex(k), b.MapIndex(k)
			if !vb.IsValid() {
				continue
			}
			if va.Kind() == reflect.Ptr && va.Type().Elem().Kind() == reflect.Struct && !va.IsNil() && !vb.IsNil() {
				if reflect.DeepEqual(va.Interface(), vb.Interface()) {
					b.SetMapIndex(k, va)
					n++
				} else {
					n += share(va, vb)
				}
			}
		}
	}
	return n
}

func shareSlot(fa, fb reflect.Value) int {
	if fa.Kind() == reflect.Ptr && fa.Type().Elem().Kind() == reflect.Struct {
		if fa.IsNil() || fb.IsNil() {
			return 0
		}
		if reflect.DeepEqual(fa.Interface(), fb.Interface()) {
			fb.Set(fa)
			return 1
		}
		return share(fa, fb)
	}
	if fa.Kind() == reflect.Slice || fa.Kind() == reflect.Map || fa.Kind() == reflect.Struct {
		return share(fa, fb)
	}
	return 0
}
