package drv

import (
	"bytes"
	"fmt"
	"reflect"

	"github.com/apache/thrift/lib/go/thrift"

	"verifharness/pkg/nd"
	"verifharness/pkg/rec"
)

// fastCodec is what `-g fastgo` adds to every struct-like type.
type fastCodec interface {
	BLength() int
	FastWrite(b []byte) int
	FastAppend(b []byte) []byte
	FastRead(b []byte) (int, error)
}

func init() {
	Ops["fw"] = opFastWrite
	Ops["fr"] = opFastRead
	Ops["ffault"] = opFastFault
}

func buildObj(sc *Schema, s *Scenario) (thrift.TStruct, error) {
	obj, _, err := NewObject(s)
	if err != nil {
		return nil, err
	}
	holder := reflect.New(reflect.TypeOf(obj)).Elem()
	if err := Build(sc, stype(s.S), s.V, holder); err != nil {
		return nil, fmt.Errorf("build: %w", err)
	}
	return holder.Interface().(thrift.TStruct), nil
}

// fw: FastAppend / BLength / FastWrite of a model value; the bytes are lexed back into tokens.
func opFastWrite(sc *Schema, s *Scenario, r *Result) error {
	obj, err := buildObj(sc, s)
	if err != nil {
		return err
	}
	fc, ok := obj.(fastCodec)
	if !ok {
		return fmt.Errorf("%T has no fastgo methods", obj)
	}
	x := map[string]interface{}{}
	r.Panic = nd.Guard(func() {
		b := fc.FastAppend(nil)
		bl := fc.BLength()
		x["blen"] = bl
		x["n_append"] = len(b)
		pre := []byte{0xAA, 0xBB}
		b2 := fc.FastAppend(append([]byte(nil), pre...))
		x["append_keeps_prefix"] = bytes.HasPrefix(b2, pre) && bytes.Equal(b2[2:], b)
		if bl >= 0 && bl < 1<<26 {
			buf := make([]byte, bl)
			var n int
			if p := nd.Guard(func() { n = fc.FastWrite(buf) }); p != "" {
				x["fastwrite_panic"] = p
			} else {
				x["n_write"] = n
				x["write_equals_append"] = n <= len(buf) && bytes.Equal(buf[:n], b)
			}
		}
		toks, n, err := rec.Lex(b, 12)
		if err != nil {
			x["lexerr"] = err.Error()
		} else {
			x["lexed_bytes"] = n
		}
		r.Toks = toks
		// the standard generated Read must decode what FastAppend produced
		o2, _, _ := NewObject(s)
		mb := thrift.NewTMemoryBuffer()
		mb.Write(b)
		if err := o2.Read(thrift.NewTBinaryProtocol(mb, true, true)); err != nil {
			x["std_read_err"] = err.Error()
		} else {
			x["std_read_v"] = Dump(sc, stype(s.S), reflect.ValueOf(o2))
		}
	})
	r.X = x
	return nil
}

func stdRead(s *Scenario, b []byte) (thrift.TStruct, error, string) {
	o, _, _ := NewObject(s)
	var err error
	p := nd.Guard(func() {
		mb := thrift.NewTMemoryBuffer()
		mb.Write(b)
		err = o.Read(thrift.NewTBinaryProtocol(mb, true, true))
	})
	return o, err, p
}

func errStr(err error) string {
	if err == nil {
		return ""
	}
	return err.Error()
}

// fr: FastRead of the encoding of a token sequence, next to the standard Read of the same bytes.
func opFastRead(sc *Schema, s *Scenario, r *Result) error {
	b, err := rec.Encode(s.Toks)
	if err != nil {
		return err
	}
	obj, _, err := NewObject(s)
	if err != nil {
		return err
	}
	fc, ok := obj.(fastCodec)
	if !ok {
		return fmt.Errorf("%T has no fastgo methods", obj)
	}
	x := map[string]interface{}{"nbytes": len(b)}
	var off int
	var ferr error
	r.Panic = nd.Guard(func() { off, ferr = fc.FastRead(b) })
	r.Err = errStr(ferr)
	x["off"] = off
	r.V = Dump(sc, stype(s.S), reflect.ValueOf(obj))
	o2, err2, p2 := stdRead(s, b)
	x["std_err"] = errStr(err2)
	x["std_panic"] = p2
	x["std_v"] = Dump(sc, stype(s.S), reflect.ValueOf(o2))
	r.X = x
	return nil
}

// ffault: every truncation point and every single type-byte corruption of an encoding.
// Allowed outcomes: an error, or -- if the damaged bytes still decode -- the same object the
// standard Read builds from them. Never a panic.
func opFastFault(sc *Schema, s *Scenario, r *Result) error {
	b, err := rec.Encode(s.Toks)
	if err != nil {
		return err
	}
	offs, err := rec.TypeOffsets(b)
	if err != nil {
		return err
	}
	var bad []map[string]interface{}
	report := func(kind string, pos int, nb int, what, detail string) {
		if len(bad) < 5 {
			bad = append(bad, map[string]interface{}{"kind": kind, "pos": pos, "byte": nb, "what": what, "detail": detail})
		}
	}
	nbad := 0
	try := func(kind string, pos, nb int, data []byte, mustFail bool) {
		obj, _, _ := NewObject(s)
		fc := obj.(fastCodec)
		var ferr error
		p := nd.Guard(func() { _, ferr = fc.FastRead(data) })
		if p != "" {
			nbad++
			report(kind, pos, nb, "panic", p)
			return
		}
		if ferr != nil {
			return
		}
		if mustFail {
			nbad++
			report(kind, pos, nb, "no-error", "FastRead accepted a truncated encoding")
			return
		}
		o2, err2, p2 := stdRead(s, data)
		if p2 != "" {
			return // the standard reader's own robustness is not this property
		}
		if err2 != nil {
			nbad++
			report(kind, pos, nb, "fast-accepts-std-rejects", err2.Error())
			return
		}
		a := Dump(sc, stype(s.S), reflect.ValueOf(obj))
		c := Dump(sc, stype(s.S), reflect.ValueOf(o2))
		if !reflect.DeepEqual(a, c) {
			nbad++
			report(kind, pos, nb, "objects-differ", fmt.Sprintf("fast=%v std=%v", a, c))
		}
	}
	ntr, nco := 0, 0
	for k := 0; k < len(b); k++ {
		try("truncate", k, -1, b[:k], true)
		ntr++
	}
	repl := []byte{0, 1, 2, 3, 4, 5, 6, 8, 10, 11, 12, 13, 14, 15, 16, 0x7f, 0xff}
	for _, off := range offs {
		for _, nb := range repl {
			if b[off] == nb {
				continue
			}
			d := append([]byte(nil), b...)
			d[off] = nb
			try("corrupt-type", off, int(nb), d, false)
			nco++
		}
	}
	r.X = map[string]interface{}{"truncations": ntr, "corruptions": nco, "type_bytes": len(offs), "bad": bad, "nbad": nbad}
	return nil
}
