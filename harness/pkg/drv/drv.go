// Package drv is the generic reflective driver for generated code: it builds Go objects of
// generated struct types from model values (spec/Wire/Wire.tla VALUE), dumps them back, and runs
// write / read scenarios through a recording protocol. The generated packages are registered by
// a small generated main (one constructor per struct-like type).
package drv

import (
	"encoding/hex"
	"encoding/json"
	"fmt"
	"os"
	"reflect"
	"sort"
	"strconv"
	"strings"
	"sync"

	"github.com/apache/thrift/lib/go/thrift"

	"verifharness/pkg/nd"
	"verifharness/pkg/rec"
)

type SType struct {
	N string `json:"n"`
	E string `json:"e,omitempty"`
	S string `json:"s,omitempty"`
	V *SType `json:"v,omitempty"`
	K *SType `json:"k,omitempty"`
}

type SField struct {
	ID   int         `json:"id"`
	Req  string      `json:"req"`
	Name string      `json:"name"`
	Type SType       `json:"type"`
	Def  interface{} `json:"def"`
}

type SStruct struct {
	Kind   string   `json:"kind"`
	Fields []SField `json:"fields"`
}

type Schema struct {
	Structs map[string]SStruct `json:"structs"`
	Enums   map[string][]int   `json:"enums"`
}

var (
	ctors   = map[string]func() thrift.TStruct{}
	schemas = map[string]*Schema{}
)

// Register makes a generated struct-like type known under "<case>/<IDL name>".
func Register(key string, ctor func() thrift.TStruct) { ctors[key] = ctor }

var NIL = map[string]interface{}{"nil": true}

func isNil(v interface{}) bool {
	m, ok := v.(map[string]interface{})
	if !ok {
		return false
	}
	_, ok = m["nil"]
	return ok
}

// ---- struct field lookup by thrift tag id -------------------------------------------------

type fieldInfo struct {
	Index   int
	TagName string
	TagReq  string
}

var fieldCache sync.Map // reflect.Type -> map[int]fieldInfo

func fieldsOf(t reflect.Type) map[int]fieldInfo {
	if m, ok := fieldCache.Load(t); ok {
		return m.(map[int]fieldInfo)
	}
	m := map[int]fieldInfo{}
	for i := 0; i < t.NumField(); i++ {
		tag, ok := t.Field(i).Tag.Lookup("thrift")
		if !ok {
			continue
		}
		parts := strings.Split(tag, ",")
		if len(parts) < 2 {
			continue
		}
		id, err := strconv.Atoi(parts[1])
		if err != nil {
			continue
		}
		fi := fieldInfo{Index: i, TagName: parts[0]}
		if len(parts) > 2 {
			fi.TagReq = parts[2]
		}
		m[id] = fi
	}
	fieldCache.Store(t, m)
	return m
}

// ---- Build ---------------------------------------------------------------------------------

func atomParts(v interface{}) (kind, body string, err error) {
	m, ok := v.(map[string]interface{})
	if !ok {
		return "", "", fmt.Errorf("not a value: %v", v)
	}
	a, ok := m["a"].(string)
	if !ok {
		return "", "", fmt.Errorf("not an atom: %v", v)
	}
	i := strings.IndexByte(a, ':')
	if i < 0 {
		return "", "", fmt.Errorf("bad atom %q", a)
	}
	return a[:i], a[i+1:], nil
}

// Build sets dst (addressable, of the generated Go type for t) from model value v.
func Build(sc *Schema, t *SType, v interface{}, dst reflect.Value) error {
	if isNil(v) {
		dst.Set(reflect.Zero(dst.Type()))
		return nil
	}
	if dst.Kind() == reflect.Ptr {
		nv := reflect.New(dst.Type().Elem())
		if err := Build(sc, t, v, nv.Elem()); err != nil {
			return err
		}
		dst.Set(nv)
		return nil
	}
	switch t.N {
	case "list", "set":
		m := v.(map[string]interface{})
		xs, _ := m["l"].([]interface{})
		sl := reflect.MakeSlice(dst.Type(), len(xs), len(xs))
		for i, x := range xs {
			if err := Build(sc, t.V, x, sl.Index(i)); err != nil {
				return err
			}
		}
		dst.Set(sl)
		return nil
	case "map":
		m := v.(map[string]interface{})
		xs, _ := m["m"].([]interface{})
		mp := reflect.MakeMapWithSize(dst.Type(), len(xs))
		for _, x := range xs {
			kv := x.([]interface{})
			k := reflect.New(dst.Type().Key()).Elem()
			if err := Build(sc, t.K, kv[0], k); err != nil {
				return err
			}
			e := reflect.New(dst.Type().Elem()).Elem()
			if err := Build(sc, t.V, kv[1], e); err != nil {
				return err
			}
			mp.SetMapIndex(k, e)
		}
		dst.Set(mp)
		return nil
	case "struct":
		st, ok := sc.Structs[t.S]
		if !ok {
			return fmt.Errorf("unknown struct %s", t.S)
		}
		m := v.(map[string]interface{})
		var fv map[string]interface{}
		switch x := m["s"].(type) {
		case map[string]interface{}:
			fv = x
		default:
			fv = map[string]interface{}{}
		}
		fi := fieldsOf(dst.Type())
		for i := range st.Fields {
			f := &st.Fields[i]
			val, ok := fv[f.Name]
			if !ok {
				continue
			}
			info, ok := fi[f.ID]
			if !ok {
				return fmt.Errorf("%s: no Go field tagged with id %d (%s)", dst.Type(), f.ID, f.Name)
			}
			if err := Build(sc, &f.Type, val, dst.Field(info.Index)); err != nil {
				return fmt.Errorf("%s.%s: %w", t.S, f.Name, err)
			}
		}
		return nil
	}
	kind, body, err := atomParts(v)
	if err != nil {
		return err
	}
	switch dst.Kind() {
	case reflect.Bool:
		dst.SetBool(body == "1")
	case reflect.Int8, reflect.Int16, reflect.Int32, reflect.Int64, reflect.Int:
		n, err := strconv.ParseInt(body, 10, 64)
		if err != nil {
			return err
		}
		dst.SetInt(n)
	case reflect.Float64:
		f, err := rec.ParseDouble(body)
		if err != nil {
			return err
		}
		dst.SetFloat(f)
	case reflect.String:
		if kind == "bin" {
			b, err := hex.DecodeString(body)
			if err != nil {
				return err
			}
			dst.SetString(string(b))
		} else {
			dst.SetString(body)
		}
	case reflect.Slice: // []byte
		if kind == "bin" {
			b, err := hex.DecodeString(body)
			if err != nil {
				return err
			}
			if b == nil {
				b = []byte{}
			}
			dst.SetBytes(b)
		} else {
			dst.SetBytes([]byte(body))
		}
	default:
		return fmt.Errorf("cannot put atom %s:%s into %s", kind, body, dst.Type())
	}
	return nil
}

// ---- Dump ----------------------------------------------------------------------------------

func atom(s string) map[string]interface{} { return map[string]interface{}{"a": s} }

// Dump is the projection function: generated Go object -> model value.
func Dump(sc *Schema, t *SType, rv reflect.Value) interface{} {
	if rv.Kind() == reflect.Ptr || rv.Kind() == reflect.Interface {
		if rv.IsNil() {
			return NIL
		}
		return Dump(sc, t, rv.Elem())
	}
	switch t.N {
	case "list", "set":
		if rv.Kind() != reflect.Slice {
			return map[string]interface{}{"bad": rv.Type().String()}
		}
		if rv.IsNil() {
			return NIL
		}
		xs := make([]interface{}, rv.Len())
		for i := range xs {
			xs[i] = Dump(sc, t.V, rv.Index(i))
		}
		return map[string]interface{}{"l": xs}
	case "map":
		if rv.Kind() != reflect.Map {
			return map[string]interface{}{"bad": rv.Type().String()}
		}
		if rv.IsNil() {
			return NIL
		}
		type kv struct {
			k string
			v []interface{}
		}
		var ents []kv
		it := rv.MapRange()
		for it.Next() {
			k := Dump(sc, t.K, it.Key())
			kb, _ := json.Marshal(k)
			ents = append(ents, kv{string(kb), []interface{}{k, Dump(sc, t.V, it.Value())}})
		}
		sort.Slice(ents, func(i, j int) bool { return ents[i].k < ents[j].k })
		xs := make([]interface{}, len(ents))
		for i := range ents {
			xs[i] = ents[i].v
		}
		return map[string]interface{}{"m": xs}
	case "struct":
		st := sc.Structs[t.S]
		if rv.Kind() != reflect.Struct {
			return map[string]interface{}{"bad": rv.Type().String()}
		}
		fi := fieldsOf(rv.Type())
		out := map[string]interface{}{}
		for i := range st.Fields {
			f := &st.Fields[i]
			info, ok := fi[f.ID]
			if !ok {
				out[f.Name] = map[string]interface{}{"bad": "no Go field with tag id"}
				continue
			}
			out[f.Name] = Dump(sc, &f.Type, rv.Field(info.Index))
		}
		return map[string]interface{}{"s": out}
	}
	switch rv.Kind() {
	case reflect.Bool:
		if rv.Bool() {
			return atom("b:1")
		}
		return atom("b:0")
	case reflect.Int8, reflect.Int16, reflect.Int32, reflect.Int64, reflect.Int:
		p := t.N
		if p == "enum" {
			p = "i32"
		}
		if p == "byte" {
			p = "i8"
		}
		return atom(fmt.Sprintf("%s:%d", p, rv.Int()))
	case reflect.Float64:
		return atom("dbl:" + rec.FmtDouble(rv.Float()))
	case reflect.String:
		if t.N == "binary" {
			return atom("bin:" + hex.EncodeToString([]byte(rv.String())))
		}
		return atom("str:" + rv.String())
	case reflect.Slice:
		if rv.IsNil() {
			return NIL
		}
		if t.N == "string" {
			return atom("str:" + string(rv.Bytes()))
		}
		return atom("bin:" + hex.EncodeToString(rv.Bytes()))
	}
	return map[string]interface{}{"bad": rv.Type().String()}
}

// Tags reports, per schema field, what the generated struct tag says.
func Tags(sc *Schema, s string, rt reflect.Type) []map[string]interface{} {
	var out []map[string]interface{}
	fi := fieldsOf(rt)
	for _, f := range sc.Structs[s].Fields {
		info, ok := fi[f.ID]
		if !ok {
			out = append(out, map[string]interface{}{"id": f.ID, "missing": true})
			continue
		}
		out = append(out, map[string]interface{}{"id": f.ID, "tag_name": info.TagName, "tag_req": info.TagReq,
			"go_field": rt.Field(info.Index).Name, "go_type": rt.Field(info.Index).Type.String()})
	}
	return out
}

// ---- scenarios ------------------------------------------------------------------------------

type Scenario struct {
	ID   int         `json:"id"`
	Op   string      `json:"op"`
	Case string      `json:"case"`
	S    string      `json:"s"`
	V    interface{} `json:"v,omitempty"`
	Toks []rec.Tok   `json:"toks,omitempty"`
	// extension point for other checks
	X map[string]interface{} `json:"x,omitempty"`
}

type Result struct {
	ID    int         `json:"id"`
	Toks  []rec.Tok   `json:"toks,omitempty"`
	Err   string      `json:"err,omitempty"`
	Panic string      `json:"panic,omitempty"`
	V     interface{} `json:"v,omitempty"`
	Tags  interface{} `json:"tags,omitempty"`
	X     interface{} `json:"x,omitempty"`
}

// Ops lets other packages add scenario kinds.
var Ops = map[string]func(sc *Schema, s *Scenario, r *Result) error{}

func NewObject(sc *Scenario) (thrift.TStruct, *Schema, error) {
	ctor, ok := ctors[sc.Case+"/"+sc.S]
	if !ok {
		return nil, nil, fmt.Errorf("no constructor registered for %s/%s", sc.Case, sc.S)
	}
	sch, ok := schemas[sc.Case]
	if !ok {
		return nil, nil, fmt.Errorf("no schema for case %s", sc.Case)
	}
	return ctor(), sch, nil
}

func stype(s string) *SType { return &SType{N: "struct", S: s} }

func runOne(s *Scenario) (*Result, error) {
	r := &Result{ID: s.ID}
	obj, sch, err := NewObject(s)
	if err != nil {
		return nil, err
	}
	switch s.Op {
	case "w":
		rv := reflect.ValueOf(obj)
		holder := reflect.New(rv.Type()).Elem()
		if err := Build(sch, stype(s.S), s.V, holder); err != nil {
			return nil, fmt.Errorf("build: %w", err)
		}
		buf := thrift.NewTMemoryBuffer()
		rp := rec.New(thrift.NewTBinaryProtocol(buf, true, true))
		r.Panic = nd.Guard(func() {
			var target thrift.TStruct
			if holder.IsNil() {
				target = obj // never happens: top-level values are non-nil
			} else {
				target = holder.Interface().(thrift.TStruct)
			}
			if err := target.Write(rp); err != nil {
				r.Err = err.Error()
			}
		})
		r.Toks = rp.Log
	case "r":
		b, err := rec.Encode(s.Toks)
		if err != nil {
			return nil, fmt.Errorf("encode: %w", err)
		}
		buf := thrift.NewTMemoryBuffer()
		buf.Write(b)
		rp := rec.New(thrift.NewTBinaryProtocol(buf, true, true))
		r.Panic = nd.Guard(func() {
			if err := obj.Read(rp); err != nil {
				r.Err = err.Error()
			}
		})
		r.Toks = rp.Log
		r.V = Dump(sch, stype(s.S), reflect.ValueOf(obj))
		if buf.Len() != 0 && r.Err == "" {
			r.X = map[string]interface{}{"unread_bytes": buf.Len()}
		}
	case "tags":
		r.Tags = Tags(sch, s.S, reflect.TypeOf(obj).Elem())
	default:
		f, ok := Ops[s.Op]
		if !ok {
			return nil, fmt.Errorf("unknown op %q", s.Op)
		}
		if err := f(sch, s, r); err != nil {
			return nil, err
		}
	}
	return r, nil
}

// Main is called by the generated driver: drv <schemas.json> <scenarios.ndjson> <results.ndjson>
func Main() {
	if len(os.Args) < 4 {
		fmt.Fprintln(os.Stderr, "usage: driver <schemas.json> <scenarios.ndjson> <results.ndjson>")
		os.Exit(2)
	}
	b, err := os.ReadFile(os.Args[1])
	if err == nil {
		err = json.Unmarshal(b, &schemas)
	}
	if err != nil {
		fmt.Fprintln(os.Stderr, "driver: schemas:", err)
		os.Exit(2)
	}
	err = nd.Each(os.Args[2], os.Args[3], 0, func(line []byte) (interface{}, error) {
		var s Scenario
		if err := json.Unmarshal(line, &s); err != nil {
			return nil, err
		}
		return runOne(&s)
	})
	if err != nil {
		fmt.Fprintln(os.Stderr, "driver:", err)
		os.Exit(2)
	}
}
