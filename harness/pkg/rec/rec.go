// Package rec is the instrumentation for generated code: a thrift.TProtocol decorator that logs
// every call as an abstract wire token (the alphabet of spec/Wire/Wire.tla), and converters
// between token sequences and binary-protocol bytes.
package rec

import (
	"context"
	"encoding/hex"
	"fmt"
	"math"
	"strconv"
	"strings"

	"github.com/apache/thrift/lib/go/thrift"
)

// Tok is one abstract token. Fields are used depending on T.
type Tok struct {
	T    string `json:"t"`
	Ty   *int   `json:"ty,omitempty"`
	ID   *int   `json:"id,omitempty"`
	E    *int   `json:"e,omitempty"`
	K    *int   `json:"k,omitempty"`
	V    *int   `json:"v,omitempty"`
	N    *int   `json:"n,omitempty"`
	A    string `json:"a,omitempty"`
	Z    *int   `json:"z,omitempty"` // byte length of a string/binary payload (lexer only)
	Name string `json:"name,omitempty"`
	Mt   *int   `json:"mt,omitempty"`
	Seq  *int   `json:"seq,omitempty"`
}

func ip(i int) *int { return &i }

// FmtDouble is the canonical spelling of a double inside an atom.
func FmtDouble(x float64) string {
	switch {
	case math.IsNaN(x):
		return "nan"
	case math.IsInf(x, 1):
		return "inf"
	case math.IsInf(x, -1):
		return "-inf"
	}
	return strconv.FormatFloat(x, 'g', -1, 64)
}

// ParseDouble is the inverse of FmtDouble.
func ParseDouble(s string) (float64, error) {
	switch s {
	case "nan":
		return math.NaN(), nil
	case "inf":
		return math.Inf(1), nil
	case "-inf":
		return math.Inf(-1), nil
	}
	return strconv.ParseFloat(s, 64)
}

// Protocol records the calls made on it and forwards them to Inner.
type Protocol struct {
	Inner thrift.TProtocol
	Log   []Tok
	// FailAfter > 0 makes the FailAfter-th write call fail (fault injection for writers).
	FailAfter int
	calls     int
}

func New(inner thrift.TProtocol) *Protocol { return &Protocol{Inner: inner} }

func (p *Protocol) add(t Tok) { p.Log = append(p.Log, t) }

func (p *Protocol) WriteMessageBegin(name string, typeId thrift.TMessageType, seqid int32) error {
	p.add(Tok{T: "MSG", Name: name, Mt: ip(int(typeId)), Seq: ip(int(seqid))})
	return p.Inner.WriteMessageBegin(name, typeId, seqid)
}
func (p *Protocol) WriteMessageEnd() error { p.add(Tok{T: "MSGE"}); return p.Inner.WriteMessageEnd() }
func (p *Protocol) WriteStructBegin(name string) error {
	p.add(Tok{T: "SB"})
	return p.Inner.WriteStructBegin(name)
}
func (p *Protocol) WriteStructEnd() error { p.add(Tok{T: "SE"}); return p.Inner.WriteStructEnd() }
func (p *Protocol) WriteFieldBegin(name string, typeId thrift.TType, id int16) error {
	p.add(Tok{T: "FB", Ty: ip(int(typeId)), ID: ip(int(id))})
	return p.Inner.WriteFieldBegin(name, typeId, id)
}
func (p *Protocol) WriteFieldEnd() error  { p.add(Tok{T: "FE"}); return p.Inner.WriteFieldEnd() }
func (p *Protocol) WriteFieldStop() error { p.add(Tok{T: "STOP"}); return p.Inner.WriteFieldStop() }
func (p *Protocol) WriteMapBegin(k, v thrift.TType, size int) error {
	p.add(Tok{T: "MB", K: ip(int(k)), V: ip(int(v)), N: ip(size)})
	return p.Inner.WriteMapBegin(k, v, size)
}
func (p *Protocol) WriteMapEnd() error { p.add(Tok{T: "ME"}); return p.Inner.WriteMapEnd() }
func (p *Protocol) WriteListBegin(e thrift.TType, size int) error {
	p.add(Tok{T: "LB", E: ip(int(e)), N: ip(size)})
	return p.Inner.WriteListBegin(e, size)
}
func (p *Protocol) WriteListEnd() error { p.add(Tok{T: "LE"}); return p.Inner.WriteListEnd() }
func (p *Protocol) WriteSetBegin(e thrift.TType, size int) error {
	p.add(Tok{T: "XB", E: ip(int(e)), N: ip(size)})
	return p.Inner.WriteSetBegin(e, size)
}
func (p *Protocol) WriteSetEnd() error { p.add(Tok{T: "XE"}); return p.Inner.WriteSetEnd() }
func b2s(b bool) string {
	if b {
		return "b:1"
	}
	return "b:0"
}
func (p *Protocol) WriteBool(v bool) error {
	p.add(Tok{T: "V", Ty: ip(2), A: b2s(v)})
	return p.Inner.WriteBool(v)
}
func (p *Protocol) WriteByte(v int8) error {
	p.add(Tok{T: "V", Ty: ip(3), A: fmt.Sprintf("i8:%d", v)})
	return p.Inner.WriteByte(v)
}
func (p *Protocol) WriteI16(v int16) error {
	p.add(Tok{T: "V", Ty: ip(6), A: fmt.Sprintf("i16:%d", v)})
	return p.Inner.WriteI16(v)
}
func (p *Protocol) WriteI32(v int32) error {
	p.add(Tok{T: "V", Ty: ip(8), A: fmt.Sprintf("i32:%d", v)})
	return p.Inner.WriteI32(v)
}
func (p *Protocol) WriteI64(v int64) error {
	p.add(Tok{T: "V", Ty: ip(10), A: fmt.Sprintf("i64:%d", v)})
	return p.Inner.WriteI64(v)
}
func (p *Protocol) WriteDouble(v float64) error {
	p.add(Tok{T: "V", Ty: ip(4), A: "dbl:" + FmtDouble(v)})
	return p.Inner.WriteDouble(v)
}
func (p *Protocol) WriteString(v string) error {
	p.add(Tok{T: "V", Ty: ip(11), A: "str:" + v})
	return p.Inner.WriteString(v)
}
func (p *Protocol) WriteBinary(v []byte) error {
	p.add(Tok{T: "V", Ty: ip(11), A: "bin:" + hex.EncodeToString(v)})
	return p.Inner.WriteBinary(v)
}

func (p *Protocol) ReadMessageBegin() (string, thrift.TMessageType, int32, error) {
	n, t, s, err := p.Inner.ReadMessageBegin()
	if err == nil {
		p.add(Tok{T: "MSG", Name: n, Mt: ip(int(t)), Seq: ip(int(s))})
	}
	return n, t, s, err
}
func (p *Protocol) ReadMessageEnd() error { p.add(Tok{T: "MSGE"}); return p.Inner.ReadMessageEnd() }
func (p *Protocol) ReadStructBegin() (string, error) {
	p.add(Tok{T: "SB"})
	return p.Inner.ReadStructBegin()
}
func (p *Protocol) ReadStructEnd() error { p.add(Tok{T: "SE"}); return p.Inner.ReadStructEnd() }
func (p *Protocol) ReadFieldBegin() (string, thrift.TType, int16, error) {
	n, t, id, err := p.Inner.ReadFieldBegin()
	if err == nil {
		if t == thrift.STOP {
			p.add(Tok{T: "STOP"})
		} else {
			p.add(Tok{T: "FB", Ty: ip(int(t)), ID: ip(int(id))})
		}
	}
	return n, t, id, err
}
func (p *Protocol) ReadFieldEnd() error { p.add(Tok{T: "FE"}); return p.Inner.ReadFieldEnd() }
func (p *Protocol) ReadMapBegin() (thrift.TType, thrift.TType, int, error) {
	k, v, n, err := p.Inner.ReadMapBegin()
	if err == nil {
		p.add(Tok{T: "MB", K: ip(int(k)), V: ip(int(v)), N: ip(n)})
	}
	return k, v, n, err
}
func (p *Protocol) ReadMapEnd() error { p.add(Tok{T: "ME"}); return p.Inner.ReadMapEnd() }
func (p *Protocol) ReadListBegin() (thrift.TType, int, error) {
	e, n, err := p.Inner.ReadListBegin()
	if err == nil {
		p.add(Tok{T: "LB", E: ip(int(e)), N: ip(n)})
	}
	return e, n, err
}
func (p *Protocol) ReadListEnd() error { p.add(Tok{T: "LE"}); return p.Inner.ReadListEnd() }
func (p *Protocol) ReadSetBegin() (thrift.TType, int, error) {
	e, n, err := p.Inner.ReadSetBegin()
	if err == nil {
		p.add(Tok{T: "XB", E: ip(int(e)), N: ip(n)})
	}
	return e, n, err
}
func (p *Protocol) ReadSetEnd() error { p.add(Tok{T: "XE"}); return p.Inner.ReadSetEnd() }
func (p *Protocol) ReadBool() (bool, error) {
	v, err := p.Inner.ReadBool()
	if err == nil {
		p.add(Tok{T: "V", Ty: ip(2), A: b2s(v)})
	}
	return v, err
}
func (p *Protocol) ReadByte() (int8, error) {
	v, err := p.Inner.ReadByte()
	if err == nil {
		p.add(Tok{T: "V", Ty: ip(3), A: fmt.Sprintf("i8:%d", v)})
	}
	return v, err
}
func (p *Protocol) ReadI16() (int16, error) {
	v, err := p.Inner.ReadI16()
	if err == nil {
		p.add(Tok{T: "V", Ty: ip(6), A: fmt.Sprintf("i16:%d", v)})
	}
	return v, err
}
func (p *Protocol) ReadI32() (int32, error) {
	v, err := p.Inner.ReadI32()
	if err == nil {
		p.add(Tok{T: "V", Ty: ip(8), A: fmt.Sprintf("i32:%d", v)})
	}
	return v, err
}
func (p *Protocol) ReadI64() (int64, error) {
	v, err := p.Inner.ReadI64()
	if err == nil {
		p.add(Tok{T: "V", Ty: ip(10), A: fmt.Sprintf("i64:%d", v)})
	}
	return v, err
}
func (p *Protocol) ReadDouble() (float64, error) {
	v, err := p.Inner.ReadDouble()
	if err == nil {
		p.add(Tok{T: "V", Ty: ip(4), A: "dbl:" + FmtDouble(v)})
	}
	return v, err
}
func (p *Protocol) ReadString() (string, error) {
	v, err := p.Inner.ReadString()
	if err == nil {
		p.add(Tok{T: "V", Ty: ip(11), A: "str:" + v})
	}
	return v, err
}
func (p *Protocol) ReadBinary() ([]byte, error) {
	v, err := p.Inner.ReadBinary()
	if err == nil {
		p.add(Tok{T: "V", Ty: ip(11), A: "bin:" + hex.EncodeToString(v)})
	}
	return v, err
}
func (p *Protocol) Skip(t thrift.TType) error {
	p.add(Tok{T: "SKIP", Ty: ip(int(t))})
	return p.Inner.Skip(t)
}
func (p *Protocol) Flush(ctx context.Context) error { return p.Inner.Flush(ctx) }
func (p *Protocol) Transport() thrift.TTransport    { return p.Inner.Transport() }

// ---------------------------------------------------------------------------------------------

// Encode turns a token sequence into binary-protocol bytes (strict write, as thriftgo's users do).
func Encode(toks []Tok) ([]byte, error) {
	buf := thrift.NewTMemoryBuffer()
	pr := thrift.NewTBinaryProtocol(buf, true, true)
	for i, t := range toks {
		var err error
		switch t.T {
		case "MSG":
			err = pr.WriteMessageBegin(t.Name, thrift.TMessageType(*t.Mt), int32(*t.Seq))
		case "MSGE":
			err = pr.WriteMessageEnd()
		case "SB":
			err = pr.WriteStructBegin("")
		case "SE":
			err = pr.WriteStructEnd()
		case "FB":
			err = pr.WriteFieldBegin("", thrift.TType(*t.Ty), int16(*t.ID))
		case "FE":
			err = pr.WriteFieldEnd()
		case "STOP":
			err = pr.WriteFieldStop()
		case "MB":
			err = pr.WriteMapBegin(thrift.TType(*t.K), thrift.TType(*t.V), *t.N)
		case "ME":
			err = pr.WriteMapEnd()
		case "LB":
			err = pr.WriteListBegin(thrift.TType(*t.E), *t.N)
		case "LE":
			err = pr.WriteListEnd()
		case "XB":
			err = pr.WriteSetBegin(thrift.TType(*t.E), *t.N)
		case "XE":
			err = pr.WriteSetEnd()
		case "V":
			err = WriteAtom(pr, t.A)
		default:
			err = fmt.Errorf("token %d: cannot encode %q", i, t.T)
		}
		if err != nil {
			return nil, err
		}
	}
	return buf.Bytes(), nil
}

// WriteAtom writes the scalar an atom denotes.
func WriteAtom(pr thrift.TProtocol, a string) error {
	i := strings.IndexByte(a, ':')
	if i < 0 {
		return fmt.Errorf("bad atom %q", a)
	}
	kind, s := a[:i], a[i+1:]
	switch kind {
	case "b":
		return pr.WriteBool(s == "1")
	case "i8":
		n, err := strconv.ParseInt(s, 10, 8)
		if err != nil {
			return err
		}
		return pr.WriteByte(int8(n))
	case "i16":
		n, err := strconv.ParseInt(s, 10, 16)
		if err != nil {
			return err
		}
		return pr.WriteI16(int16(n))
	case "i32":
		n, err := strconv.ParseInt(s, 10, 32)
		if err != nil {
			return err
		}
		return pr.WriteI32(int32(n))
	case "i64":
		n, err := strconv.ParseInt(s, 10, 64)
		if err != nil {
			return err
		}
		return pr.WriteI64(n)
	case "dbl":
		f, err := ParseDouble(s)
		if err != nil {
			return err
		}
		return pr.WriteDouble(f)
	case "str":
		return pr.WriteString(s)
	case "bin":
		b, err := hex.DecodeString(s)
		if err != nil {
			return err
		}
		return pr.WriteBinary(b)
	}
	return fmt.Errorf("bad atom kind %q", kind)
}

// Lex decodes one value of wire type ty from binary-protocol bytes into tokens, without any schema
// (the binary protocol is self-describing). Strings and binaries cannot be told apart: both
// become "bin:<hex>" atoms. Returns the tokens and the number of bytes consumed.
func Lex(b []byte, ty int) (toks []Tok, n int, err error) {
	l := &lexer{b: b}
	defer func() {
		if r := recover(); r != nil {
			err = fmt.Errorf("lex: %v", r)
		}
	}()
	l.value(ty, 0)
	return l.out, l.p, nil
}

type lexer struct {
	b     []byte
	p     int
	out   []Tok
	types []int // offsets of the bytes that hold a wire type (field, element, key, value types)
}

// TypeOffsets returns the offsets of all type bytes of the struct encoding b (ty 12).
func TypeOffsets(b []byte) (offs []int, err error) {
	l := &lexer{b: b}
	defer func() {
		if r := recover(); r != nil {
			err = fmt.Errorf("lex: %v", r)
		}
	}()
	l.value(12, 0)
	return l.types, nil
}

func (l *lexer) need(n int) {
	if n < 0 || l.p+n > len(l.b) {
		panic(fmt.Sprintf("truncated at %d (+%d of %d)", l.p, n, len(l.b)))
	}
}
func (l *lexer) u8() int { l.need(1); v := l.b[l.p]; l.p++; return int(v) }
func (l *lexer) i16() int {
	l.need(2)
	v := int16(uint16(l.b[l.p])<<8 | uint16(l.b[l.p+1]))
	l.p += 2
	return int(v)
}
func (l *lexer) i32() int {
	l.need(4)
	v := int32(uint32(l.b[l.p])<<24 | uint32(l.b[l.p+1])<<16 | uint32(l.b[l.p+2])<<8 | uint32(l.b[l.p+3]))
	l.p += 4
	return int(v)
}
func (l *lexer) i64() int64 {
	l.need(8)
	var v uint64
	for i := 0; i < 8; i++ {
		v = v<<8 | uint64(l.b[l.p+i])
	}
	l.p += 8
	return int64(v)
}

func (l *lexer) value(ty int, depth int) {
	if depth > 200 {
		panic("too deep")
	}
	switch ty {
	case 2:
		v := l.u8()
		l.out = append(l.out, Tok{T: "V", Ty: ip(2), A: b2s(v != 0)})
	case 3:
		l.out = append(l.out, Tok{T: "V", Ty: ip(3), A: fmt.Sprintf("i8:%d", int8(l.u8()))})
	case 4:
		l.out = append(l.out, Tok{T: "V", Ty: ip(4), A: "dbl:" + FmtDouble(math.Float64frombits(uint64(l.i64())))})
	case 6:
		l.out = append(l.out, Tok{T: "V", Ty: ip(6), A: fmt.Sprintf("i16:%d", l.i16())})
	case 8:
		l.out = append(l.out, Tok{T: "V", Ty: ip(8), A: fmt.Sprintf("i32:%d", l.i32())})
	case 10:
		l.out = append(l.out, Tok{T: "V", Ty: ip(10), A: fmt.Sprintf("i64:%d", l.i64())})
	case 11:
		n := l.i32()
		l.need(n)
		l.out = append(l.out, Tok{T: "V", Ty: ip(11), A: "bin:" + hex.EncodeToString(l.b[l.p:l.p+n]), Z: ip(n)})
		l.p += n
	case 12:
		l.out = append(l.out, Tok{T: "SB"})
		for {
			l.types = append(l.types, l.p)
			ft := l.u8()
			if ft == 0 {
				l.out = append(l.out, Tok{T: "STOP"})
				break
			}
			id := l.i16()
			l.out = append(l.out, Tok{T: "FB", Ty: ip(ft), ID: ip(id)})
			l.value(ft, depth+1)
			l.out = append(l.out, Tok{T: "FE"})
		}
		l.out = append(l.out, Tok{T: "SE"})
	case 13:
		l.types = append(l.types, l.p, l.p+1)
		kt, vt, n := l.u8(), l.u8(), l.i32()
		l.out = append(l.out, Tok{T: "MB", K: ip(kt), V: ip(vt), N: ip(n)})
		if n < 0 {
			panic("negative size")
		}
		for i := 0; i < n; i++ {
			l.value(kt, depth+1)
			l.value(vt, depth+1)
		}
		l.out = append(l.out, Tok{T: "ME"})
	case 14, 15:
		l.types = append(l.types, l.p)
		et, n := l.u8(), l.i32()
		if n < 0 {
			panic("negative size")
		}
		b, e := "LB", "LE"
		if ty == 14 {
			b, e = "XB", "XE"
		}
		l.out = append(l.out, Tok{T: b, E: ip(et), N: ip(n)})
		for i := 0; i < n; i++ {
			l.value(et, depth+1)
		}
		l.out = append(l.out, Tok{T: e})
	default:
		panic(fmt.Sprintf("unknown wire type %d at %d", ty, l.p))
	}
}
