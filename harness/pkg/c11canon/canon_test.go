package c11canon

import (
	"crypto/sha256"
	"encoding/hex"
	"testing"

	"github.com/cloudwego/thriftgo/parser"
	"github.com/cloudwego/thriftgo/plugin"
)

// the streaming hash must be the hash of the canonical JSON
func TestHashOfMatchesJSON(t *testing.T) {
	tr := true
	f := 1.5
	lit := "a\"b\\c\n\u00e9<>&\xff"
	ast := &parser.Thrift{
		Filename: "x.thrift",
		Includes: []*parser.Include{{Path: "y", Used: &tr, Reference: &parser.Thrift{Filename: "y"}}},
		Constants: []*parser.Constant{{Name: "K", Value: &parser.ConstValue{Type: parser.ConstType_ConstDouble,
			TypedValue: &parser.ConstTypedValue{Double: &f, Literal: &lit}}}},
		Name2Category: map[string]parser.Category{"b": 2, "a": 1, "\"q": 3},
	}
	req := &plugin.Request{Version: "v", AST: ast, PluginParameters: []string{"a=b", ""}}
	sum := sha256.Sum256(JSON(Value(req)))
	if got, want := HashOf(req), hex.EncodeToString(sum[:]); got != want {
		t.Fatalf("HashOf %s != sha256(JSON) %s\n%s", got, want, JSON(Value(req)))
	}
}
