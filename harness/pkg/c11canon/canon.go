// Package c11canon renders a plugin.Request (and the parser AST inside it) as a canonical JSON
// value, node for node, for property C11.  It is used on both sides of the comparison: by the
// in-process harness (the request the compiler built) and by the recording plugin (the request
// a plugin decoded).
//
// Canonical form (generic, by reflection, so every field of every node is included):
//
//	struct  -> object with every exported field (field name as key)
//	pointer -> null when nil, else the pointee (optional fields: set vs. unset is visible)
//	slice   -> array; a nil slice and an empty slice are both [] (the wire cannot tell them apart)
//	map     -> object with the keys as strings; nil and empty are both {}
//	string  -> the string if it is valid UTF-8, else {"hex": "..."}
//	float64 -> {"f64": "<bits in hex>"} (exact, NaN-safe)
//	ints, bools -> themselves
//
// Include.Reference is followed like any other pointer: the result is the tree unfolding of the
// include DAG, so two requests have equal canonical forms iff they are structurally equal.
// Sharing (which include edges point at the same *parser.Thrift) is reported separately.
package c11canon

import (
	"bufio"
	"bytes"
	"crypto/sha256"
	"encoding/hex"
	"encoding/json"
	"fmt"
	"math"
	"reflect"
	"sort"
	"strconv"
	"sync"
	"unicode/utf8"

	"github.com/cloudwego/thriftgo/parser"
	"github.com/cloudwego/thriftgo/plugin"
)

// Value returns the canonical form of any value built from the parser / plugin types.
func Value(x interface{}) interface{} { return canon(reflect.ValueOf(x)) }

func canon(v reflect.Value) interface{} {
	switch v.Kind() {
	case reflect.Invalid:
		return nil
	case reflect.Ptr, reflect.Interface:
		if v.IsNil() {
			return nil
		}
		return canon(v.Elem())
	case reflect.Struct:
		m := make(map[string]interface{}, v.NumField())
		t := v.Type()
		for i := 0; i < v.NumField(); i++ {
			f := t.Field(i)
			if f.PkgPath != "" { // unexported
				continue
			}
			m[f.Name] = canon(v.Field(i))
		}
		return m
	case reflect.Slice, reflect.Array:
		if v.Kind() == reflect.Slice && v.Type().Elem().Kind() == reflect.Uint8 {
			return map[string]interface{}{"hex": hex.EncodeToString(v.Bytes())}
		}
		out := make([]interface{}, v.Len())
		for i := 0; i < v.Len(); i++ {
			out[i] = canon(v.Index(i))
		}
		return out
	case reflect.Map:
		m := make(map[string]interface{}, v.Len())
		it := v.MapRange()
		for it.Next() {
			m[fmt.Sprint(it.Key().Interface())] = canon(it.Value())
		}
		return m
	case reflect.String:
		s := v.String()
		if utf8.ValidString(s) {
			return s
		}
		return map[string]interface{}{"hex": hex.EncodeToString([]byte(s))}
	case reflect.Bool:
		return v.Bool()
	case reflect.Int, reflect.Int8, reflect.Int16, reflect.Int32, reflect.Int64:
		return v.Int()
	case reflect.Uint, reflect.Uint8, reflect.Uint16, reflect.Uint32, reflect.Uint64:
		return v.Uint()
	case reflect.Float32, reflect.Float64:
		return map[string]interface{}{"f64": fmt.Sprintf("%016x", math.Float64bits(v.Float()))}
	}
	return fmt.Sprintf("<unsupported kind %s>", v.Kind())
}

// stream writes the canonical JSON of v (same bytes as JSON(Value(v))) without building the tree.
type stream struct {
	w   *bufio.Writer
	buf []byte
}

var fieldOrder sync.Map // reflect.Type -> []int (exported fields sorted by name)

func sortedFields(t reflect.Type) []int {
	if v, ok := fieldOrder.Load(t); ok {
		return v.([]int)
	}
	var idx []int
	for i := 0; i < t.NumField(); i++ {
		if t.Field(i).PkgPath == "" {
			idx = append(idx, i)
		}
	}
	sort.Slice(idx, func(a, b int) bool { return t.Field(idx[a]).Name < t.Field(idx[b]).Name })
	fieldOrder.Store(t, idx)
	return idx
}

func (s *stream) str(x string) {
	if !utf8.ValidString(x) {
		s.w.WriteString(`{"hex":"` + hex.EncodeToString([]byte(x)) + `"}`)
		return
	}
	// encoding/json's string escaping without HTML escaping, to stay byte-identical with JSON()
	var bb bytes.Buffer
	enc := json.NewEncoder(&bb)
	enc.SetEscapeHTML(false)
	_ = enc.Encode(x)
	s.w.Write(bytes.TrimRight(bb.Bytes(), "\n"))
}

func plainASCII(x string) bool {
	for i := 0; i < len(x); i++ {
		c := x[i]
		if c < 0x20 || c >= 0x7f || c == '"' || c == '\\' {
			return false
		}
	}
	return true
}

func (s *stream) val(v reflect.Value) {
	switch v.Kind() {
	case reflect.Invalid:
		s.w.WriteString("null")
	case reflect.Ptr, reflect.Interface:
		if v.IsNil() {
			s.w.WriteString("null")
			return
		}
		s.val(v.Elem())
	case reflect.Struct:
		t := v.Type()
		s.w.WriteByte('{')
		for k, i := range sortedFields(t) {
			if k > 0 {
				s.w.WriteByte(',')
			}
			s.w.WriteByte('"')
			s.w.WriteString(t.Field(i).Name)
			s.w.WriteString(`":`)
			s.val(v.Field(i))
		}
		s.w.WriteByte('}')
	case reflect.Slice, reflect.Array:
		if v.Kind() == reflect.Slice && v.Type().Elem().Kind() == reflect.Uint8 {
			s.w.WriteString(`{"hex":"` + hex.EncodeToString(v.Bytes()) + `"}`)
			return
		}
		s.w.WriteByte('[')
		for i := 0; i < v.Len(); i++ {
			if i > 0 {
				s.w.WriteByte(',')
			}
			s.val(v.Index(i))
		}
		s.w.WriteByte(']')
	case reflect.Map:
		keys := make([]string, 0, v.Len())
		vals := make(map[string]reflect.Value, v.Len())
		it := v.MapRange()
		for it.Next() {
			k := fmt.Sprint(it.Key().Interface())
			keys = append(keys, k)
			vals[k] = it.Value()
		}
		sort.Strings(keys)
		s.w.WriteByte('{')
		for i, k := range keys {
			if i > 0 {
				s.w.WriteByte(',')
			}
			s.str(k)
			s.w.WriteByte(':')
			s.val(vals[k])
		}
		s.w.WriteByte('}')
	case reflect.String:
		x := v.String()
		if plainASCII(x) {
			s.w.WriteByte('"')
			s.w.WriteString(x)
			s.w.WriteByte('"')
		} else {
			s.str(x)
		}
	case reflect.Bool:
		if v.Bool() {
			s.w.WriteString("true")
		} else {
			s.w.WriteString("false")
		}
	case reflect.Int, reflect.Int8, reflect.Int16, reflect.Int32, reflect.Int64:
		s.buf = strconv.AppendInt(s.buf[:0], v.Int(), 10)
		s.w.Write(s.buf)
	case reflect.Uint, reflect.Uint8, reflect.Uint16, reflect.Uint32, reflect.Uint64:
		s.buf = strconv.AppendUint(s.buf[:0], v.Uint(), 10)
		s.w.Write(s.buf)
	case reflect.Float32, reflect.Float64:
		s.w.WriteString(fmt.Sprintf(`{"f64":"%016x"}`, math.Float64bits(v.Float())))
	default:
		s.str(fmt.Sprintf("<unsupported kind %s>", v.Kind()))
	}
}

// HashOf is the sha256 (hex) of the canonical JSON of x, computed without building it.
func HashOf(x interface{}) string {
	h := sha256.New()
	s := &stream{w: bufio.NewWriterSize(h, 1<<16)}
	s.val(reflect.ValueOf(x))
	s.w.Flush()
	return hex.EncodeToString(h.Sum(nil))
}

// Sharing lists, for every include edge of the tree unfolding in depth-first order, the number
// of the *parser.Thrift it points at (numbered by first visit; 0 = nil reference).
func Sharing(ast *parser.Thrift) []int {
	ids := map[*parser.Thrift]int{}
	var out []int
	var walk func(t *parser.Thrift, depth int)
	walk = func(t *parser.Thrift, depth int) {
		if t == nil || depth > 64 {
			return
		}
		for _, inc := range t.Includes {
			if inc == nil || inc.Reference == nil {
				out = append(out, 0)
				continue
			}
			id, ok := ids[inc.Reference]
			if !ok {
				id = len(ids) + 1
				ids[inc.Reference] = id
			}
			out = append(out, id)
			walk(inc.Reference, depth+1)
		}
	}
	walk(ast, 0)
	if out == nil {
		out = []int{}
	}
	return out
}

// Files lists the file names of the tree unfolding in depth-first order (root first).
func Files(ast *parser.Thrift) []string {
	var out []string
	var walk func(t *parser.Thrift, depth int)
	walk = func(t *parser.Thrift, depth int) {
		if t == nil || depth > 64 {
			return
		}
		out = append(out, t.Filename)
		for _, inc := range t.Includes {
			if inc != nil {
				walk(inc.Reference, depth+1)
			}
		}
	}
	walk(ast, 0)
	return out
}

// Dump is what both sides write: the canonical request, its hash and the sharing structure.
type Dump struct {
	Hash    string      `json:"hash"`            // sha256 of the canonical JSON of the whole request
	AstHash string      `json:"ast_hash"`        // sha256 of the canonical JSON of Req.AST
	Head    interface{} `json:"head,omitempty"`  // canonical request without the AST
	Req     interface{} `json:"req,omitempty"`   // canonical request (omitted when only the hashes are wanted)
	Sharing []int       `json:"sharing"`         // see Sharing
	Files   []string    `json:"files"`           // see Files
	Err     string      `json:"err,omitempty"`   // decode error / panic text
	Extra   interface{} `json:"extra,omitempty"` // side information (sizes, trailer flag ...)
}

// JSON is deterministic JSON (object keys sorted, no HTML escaping).
func JSON(v interface{}) []byte {
	var buf bytes.Buffer
	enc := json.NewEncoder(&buf)
	enc.SetEscapeHTML(false)
	if err := enc.Encode(v); err != nil {
		panic(err)
	}
	return bytes.TrimRight(buf.Bytes(), "\n")
}

// Of builds the dump of a request.
func Of(req *plugin.Request, full bool) *Dump {
	d := &Dump{Hash: HashOf(req)}
	if full {
		d.Req = Value(req)
	}
	if req != nil {
		d.AstHash = HashOf(req.AST)
		h := *req
		h.AST = nil
		head := Value(&h).(map[string]interface{})
		delete(head, "AST")
		d.Head = head
	}
	if req != nil {
		d.Sharing = Sharing(req.AST)
		d.Files = Files(req.AST)
	}
	return d
}
