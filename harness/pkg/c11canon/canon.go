// Package c11canon renders a plugin.Request (and the parser AST inside it) as a canonical JSON
// value, node for node, for property C11.  It is used on both sides of the comparison: by the
// in-process harness (the request the compiler built) and by the recording plugin (the request
// a plugin decoded).
//
// Canonical form (generic, by reflection, so every field of every node is included):
//
//	struct  -> object with every exported field (field name as key)
//	pointer -> null when nil, else the pointee (optional fields: set vs. unset is visible)
//	slice   -> array; a nil slice and an empty slice are both [] (the wire cannot tell them apart)
//	map     -> object with the keys as strings; nil and empty are both {}
//	string  -> the string if it is valid UTF-8, else {"hex": "..."}
//	float64 -> {"f64": "<bits in hex>"} (exact, NaN-safe)
//	ints, bools -> themselves
//
// Include.Reference is followed like any other pointer: the result is the tree unfolding of the
// include DAG, so two requests have equal canonical forms iff they are structurally equal.
// Sharing (which include edges point at the same *parser.Thrift) is reported separately.
package c11canon

import (
	"bytes"
	"crypto/sha256"
	"encoding/hex"
	"encoding/json"
	"fmt"
	"math"
	"reflect"
	"unicode/utf8"

	"github.com/cloudwego/thriftgo/parser"
	"github.com/cloudwego/thriftgo/plugin"
)

// Value returns the canonical form of any value built from the parser / plugin types.
func Value(x interface{}) interface{} { return canon(reflect.ValueOf(x)) }

func canon(v reflect.Value) interface{} {
	switch v.Kind() {
	case reflect.Invalid:
		return nil
	case reflect.Ptr, reflect.Interface:
		if v.IsNil() {
			return nil
		}
		return canon(v.Elem())
	case reflect.Struct:
		m := make(map[string]interface{}, v.NumField())
		t := v.Type()
		for i := 0; i < v.NumField(); i++ {
			f := t.Field(i)
			if f.PkgPath != "" { // unexported
				continue
			}
			m[f.Name] = canon(v.Field(i))
		}
		return m
	case reflect.Slice, reflect.Array:
		if v.Kind() == reflect.Slice && v.Type().Elem().Kind() == reflect.Uint8 {
			return map[string]interface{}{"hex": hex.EncodeToString(v.Bytes())}
		}
		out := make([]interface{}, v.Len())
		for i := 0; i < v.Len(); i++ {
			out[i] = canon(v.Index(i))
		}
		return out
	case reflect.Map:
		m := make(map[string]interface{}, v.Len())
		it := v.MapRange()
		for it.Next() {
			m[fmt.Sprint(it.Key().Interface())] = canon(it.Value())
		}
		return m
	case reflect.String:
		s := v.String()
		if utf8.ValidString(s) {
			return s
		}
		return map[string]interface{}{"hex": hex.EncodeToString([]byte(s))}
	case reflect.Bool:
		return v.Bool()
	case reflect.Int, reflect.Int8, reflect.Int16, reflect.Int32, reflect.Int64:
		return v.Int()
	case reflect.Uint, reflect.Uint8, reflect.Uint16, reflect.Uint32, reflect.Uint64:
		return v.Uint()
	case reflect.Float32, reflect.Float64:
		return map[string]interface{}{"f64": fmt.Sprintf("%016x", math.Float64bits(v.Float()))}
	}
	return fmt.Sprintf("<unsupported kind %s>", v.Kind())
}

// Sharing lists, for every include edge of the tree unfolding in depth-first order, the number
// of the *parser.Thrift it points at (numbered by first visit; 0 = nil reference).
func Sharing(ast *parser.Thrift) []int {
	ids := map[*parser.Thrift]int{}
	var out []int
	var walk func(t *parser.Thrift, depth int)
	walk = func(t *parser.Thrift, depth int) {
		if t == nil || depth > 64 {
			return
		}
		for _, inc := range t.Includes {
			if inc == nil || inc.Reference == nil {
				out = append(out, 0)
				continue
			}
			id, ok := ids[inc.Reference]
			if !ok {
				id = len(ids) + 1
				ids[inc.Reference] = id
			}
			out = append(out, id)
			walk(inc.Reference, depth+1)
		}
	}
	walk(ast, 0)
	if out == nil {
		out = []int{}
	}
	return out
}

// Files lists the file names of the tree unfolding in depth-first order (root first).
func Files(ast *parser.Thrift) []string {
	var out []string
	var walk func(t *parser.Thrift, depth int)
	walk = func(t *parser.Thrift, depth int) {
		if t == nil || depth > 64 {
			return
		}
		out = append(out, t.Filename)
		for _, inc := range t.Includes {
			if inc != nil {
				walk(inc.Reference, depth+1)
			}
		}
	}
	walk(ast, 0)
	return out
}

// Dump is what both sides write: the canonical request, its hash and the sharing structure.
type Dump struct {
	Hash    string      `json:"hash"`            // sha256 of the canonical JSON of the whole request
	AstHash string      `json:"ast_hash"`        // sha256 of the canonical JSON of Req.AST
	Head    interface{} `json:"head,omitempty"`  // canonical request without the AST
	Req     interface{} `json:"req,omitempty"`   // canonical request (omitted when only the hashes are wanted)
	Sharing []int       `json:"sharing"`         // see Sharing
	Files   []string    `json:"files"`           // see Files
	Err     string      `json:"err,omitempty"`   // decode error / panic text
	Extra   interface{} `json:"extra,omitempty"` // side information (sizes, trailer flag ...)
}

// JSON is deterministic JSON (object keys sorted, no HTML escaping).
func JSON(v interface{}) []byte {
	var buf bytes.Buffer
	enc := json.NewEncoder(&buf)
	enc.SetEscapeHTML(false)
	if err := enc.Encode(v); err != nil {
		panic(err)
	}
	return bytes.TrimRight(buf.Bytes(), "\n")
}

// Of builds the dump of a request.
func Of(req *plugin.Request, full bool) *Dump {
	c := Value(req)
	sum := sha256.Sum256(JSON(c))
	d := &Dump{Hash: hex.EncodeToString(sum[:])}
	if full {
		d.Req = c
	}
	if m, ok := c.(map[string]interface{}); ok {
		asum := sha256.Sum256(JSON(m["AST"]))
		d.AstHash = hex.EncodeToString(asum[:])
		head := make(map[string]interface{}, len(m))
		for k, v := range m {
			if k != "AST" {
				head[k] = v
			}
		}
		d.Head = head
	}
	if req != nil {
		d.Sharing = Sharing(req.AST)
		d.Files = Files(req.AST)
	}
	return d
}
