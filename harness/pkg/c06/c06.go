// Package c06 adds the C06 scenario kinds to the reflective driver (pkg/drv):
//
//	c06.const   dump one generated package-level constant / variable as a model VALUE
//	c06.struct  run a trace of the struct-object machine of spec/Consts/Consts.tla on a generated struct
//	            (new = NewX(), zero = new(X), init = InitDefault(), set = assign a field, obs = observe the
//	            fields, every Get<F>() and every IsSet<F>())
//
// Constants are package-level identifiers, so the generated main registers one accessor closure per constant.
package c06

import (
	"encoding/json"
	"fmt"
	"reflect"

	"github.com/apache/thrift/lib/go/thrift"

	"verifharness/pkg/drv"
	"verifharness/pkg/nd"
)

var consts = map[string]func() interface{}{}

// RegisterConst makes a generated constant known under "<case>/<file>/<IDL name>".
func RegisterConst(key string, f func() interface{}) { consts[key] = f }

// RegisterCase lets scenarios without a struct (S == "") pass the driver's constructor lookup.
func RegisterCase(cid string) {
	drv.Register(cid+"/", func() thrift.TStruct { return nil })
}

func init() {
	drv.Ops["c06.const"] = opConst
	drv.Ops["c06.struct"] = opStruct
}

func remarshal(in interface{}, out interface{}) error {
	b, err := json.Marshal(in)
	if err != nil {
		return err
	}
	return json.Unmarshal(b, out)
}

func dump(sc *drv.Schema, t *drv.SType, rv reflect.Value) interface{} {
	if !rv.IsValid() {
		return drv.NIL
	}
	return drv.Dump(sc, t, rv)
}

func opConst(sc *drv.Schema, s *drv.Scenario, r *drv.Result) error {
	key, _ := s.X["key"].(string)
	f, ok := consts[key]
	if !ok {
		return fmt.Errorf("no constant registered for %q", key)
	}
	var t drv.SType
	if err := remarshal(s.X["t"], &t); err != nil {
		return err
	}
	r.Panic = nd.Guard(func() {
		v := f()
		r.V = dump(sc, &t, reflect.ValueOf(v))
		r.X = map[string]interface{}{"go_type": fmt.Sprintf("%T", v)}
	})
	return nil
}

type step struct {
	Op string      `json:"op"`
	F  string      `json:"f"`
	V  interface{} `json:"v"`
}

func opStruct(sc *drv.Schema, s *drv.Scenario, r *drv.Result) error {
	obj0, _, err := drv.NewObject(s)
	if err != nil {
		return err
	}
	st, ok := sc.Structs[s.S]
	if !ok {
		return fmt.Errorf("no struct %s in the schema", s.S)
	}
	var trace []step
	if err := remarshal(s.X["trace"], &trace); err != nil {
		return err
	}
	typ := reflect.TypeOf(obj0) // *T
	if typ.Kind() != reflect.Ptr || typ.Elem().Kind() != reflect.Struct {
		return fmt.Errorf("constructor of %s returns %s", s.S, typ)
	}
	goField := map[string]string{}
	for _, tg := range drv.Tags(sc, s.S, typ.Elem()) {
		id, _ := tg["id"].(int)
		name, _ := tg["go_field"].(string)
		for i := range st.Fields {
			if st.Fields[i].ID == id {
				goField[st.Fields[i].Name] = name
			}
		}
	}
	stype := &drv.SType{N: "struct", S: s.S}
	var cur reflect.Value
	var out []interface{}
	var runErr error
	r.Panic = nd.Guard(func() {
		for i, sp := range trace {
			switch sp.Op {
			case "new":
				o, _, _ := drv.NewObject(s)
				cur = reflect.ValueOf(o)
			case "zero":
				cur = reflect.New(typ.Elem())
			case "init":
				m := cur.MethodByName("InitDefault")
				if !m.IsValid() {
					out = append(out, map[string]interface{}{"missing": "InitDefault"})
					continue
				}
				m.Call(nil)
			case "set":
				var f *drv.SField
				for k := range st.Fields {
					if st.Fields[k].Name == sp.F {
						f = &st.Fields[k]
					}
				}
				gf := goField[sp.F]
				if f == nil || gf == "" {
					runErr = fmt.Errorf("step %d: no field %q", i, sp.F)
					return
				}
				if err := drv.Build(sc, &f.Type, sp.V, cur.Elem().FieldByName(gf)); err != nil {
					runErr = fmt.Errorf("step %d: %w", i, err)
					return
				}
			case "obs":
				o := map[string]interface{}{"v": dump(sc, stype, cur)}
				get := map[string]interface{}{}
				isset := map[string]interface{}{}
				for k := range st.Fields {
					f := &st.Fields[k]
					gf := goField[f.Name]
					if gf == "" {
						continue
					}
					if m := cur.MethodByName("Get" + gf); m.IsValid() && m.Type().NumIn() == 0 && m.Type().NumOut() == 1 {
						get[f.Name] = dump(sc, &f.Type, m.Call(nil)[0])
					}
					if m := cur.MethodByName("IsSet" + gf); m.IsValid() && m.Type().NumIn() == 0 && m.Type().NumOut() == 1 {
						isset[f.Name] = m.Call(nil)[0].Bool()
					}
				}
				o["get"] = get
				o["isset"] = isset
				out = append(out, o)
			default:
				runErr = fmt.Errorf("step %d: unknown op %q", i, sp.Op)
				return
			}
		}
	})
	if runErr != nil {
		return runErr
	}
	r.X = out
	return nil
}
