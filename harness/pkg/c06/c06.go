// Package c06 adds the C06 scenario kinds to the reflective driver (pkg/drv):
//
//	c06.const   dump one generated package-level constant / variable as a model VALUE
//	c06.struct  run a trace of the struct-object machine of spec/Consts/Consts.tla on a generated struct
//	            (new = NewX(), zero = new(X), init = InitDefault(), set = assign a field, obs = observe the
//	            fields, every Get<F>() and every IsSet<F>())
//
// Constants are package-level identifiers, so the generated main registers one accessor closure per constant.
package c06

import (
	"encoding/json"
	"fmt"
	"reflect"

	"github.com/apache/thrift/lib/go/thrift"

	"verifharness/pkg/drv"
	"verifharness/pkg/nd"
)

var consts = map[string]func() interface{}{}

// RegisterConst makes a generated constant known under "<case>/<file>/<IDL name>".
func RegisterConst(key string, f func() interface{}) { consts[key] = f }

// RegisterCase lets scenarios without a struct (S == "") pass the driver's constructor lookup.
func RegisterCase(cid string) {
	drv.Register(cid+"/", func() thrift.TStruct { return nil })
}

func init() {
	drv.Ops["c06.const"] = opConst
	drv.Ops["c06.struct"] = opStruct
}

func remarshal(in interface{}, out interface{}) error {
	b, err := json.Marshal(in)
	if err != nil {
		return err
	}
	return json.Unmarshal(b, out)
}

func dump(sc *drv.Schema, t *drv.SType, rv reflect.Value) interface{} {
	if !rv.IsValid() {
		return drv.NIL
	}
	return drv.Dump(sc, t, rv)
}

func opConst(sc *drv.Schema, s *drv.Scenario, r *drv.Result) error {
	key, _ := s.X["key"].(string)
	f, ok := consts[key]
	if !ok {
		return fmt.Errorf("no constant registered for %q", key)
	}
	var t drv.SType
	if err := remarshal(s.X["t"], &t); err != nil {
		return err
	}
	r.Panic = nd.Guard(func() {
		v := f()
		r.V = dump(sc, &t, reflect.ValueOf(v))
		r.X = map[string]interface{}{"go_type": fmt.Sprintf("%T", v)}
	})
	return nil
}

type step struct {
	Op  string      `json:"op"`
	F   string      `json:"f"`
	V   interface{} `json:"v"`
	K   string      `json:"k"`   // mut: "idx" (element 0 of a list/set), "key" (entry of a map), "fld" (field of a nested struct)
	Key interface{} `json:"key"` // mut/key: the entry's key
	Fld string      `json:"fld"` // mut/fld: the nested struct's field (IDL name)
}

// mutate changes the value held by field fv in place (below the field), never the field itself.
func mutate(sc *drv.Schema, t *drv.SType, fv reflect.Value, sp *step) error {
	for fv.Kind() == reflect.Ptr {
		if fv.IsNil() {
			return fmt.Errorf("nothing to mutate: nil")
		}
		fv = fv.Elem()
	}
	switch sp.K {
	case "idx":
		if fv.Kind() != reflect.Slice || fv.Len() == 0 {
			return fmt.Errorf("no element 0 in %s", fv.Type())
		}
		return drv.Build(sc, t.V, sp.V, fv.Index(0))
	case "key":
		if fv.Kind() != reflect.Map || fv.IsNil() {
			return fmt.Errorf("no map in %s", fv.Type())
		}
		k := reflect.New(fv.Type().Key()).Elem()
		if err := drv.Build(sc, t.K, sp.Key, k); err != nil {
			return err
		}
		if !fv.MapIndex(k).IsValid() {
			return fmt.Errorf("map has no entry for the key")
		}
		e := reflect.New(fv.Type().Elem()).Elem()
		if err := drv.Build(sc, t.V, sp.V, e); err != nil {
			return err
		}
		fv.SetMapIndex(k, e)
		return nil
	case "fld":
		if fv.Kind() != reflect.Struct {
			return fmt.Errorf("no struct in %s", fv.Type())
		}
		st := sc.Structs[t.S]
		for _, tg := range drv.Tags(sc, t.S, fv.Type()) {
			id, _ := tg["id"].(int)
			name, _ := tg["go_field"].(string)
			for i := range st.Fields {
				if st.Fields[i].ID == id && st.Fields[i].Name == sp.Fld && name != "" {
					return drv.Build(sc, &st.Fields[i].Type, sp.V, fv.FieldByName(name))
				}
			}
		}
		return fmt.Errorf("no field %q in %s", sp.Fld, t.S)
	}
	return fmt.Errorf("unknown mutation %q", sp.K)
}

func opStruct(sc *drv.Schema, s *drv.Scenario, r *drv.Result) error {
	obj0, _, err := drv.NewObject(s)
	if err != nil {
		return err
	}
	st, ok := sc.Structs[s.S]
	if !ok {
		return fmt.Errorf("no struct %s in the schema", s.S)
	}
	var trace []step
	if err := remarshal(s.X["trace"], &trace); err != nil {
		return err
	}
	typ := reflect.TypeOf(obj0) // *T
	if typ.Kind() != reflect.Ptr || typ.Elem().Kind() != reflect.Struct {
		return fmt.Errorf("constructor of %s returns %s", s.S, typ)
	}
	goField := map[string]string{}
	for _, tg := range drv.Tags(sc, s.S, typ.Elem()) {
		id, _ := tg["id"].(int)
		name, _ := tg["go_field"].(string)
		for i := range st.Fields {
			if st.Fields[i].ID == id {
				goField[st.Fields[i].Name] = name
			}
		}
	}
	stype := &drv.SType{N: "struct", S: s.S}
	var cur reflect.Value
	var out []interface{}
	var runErr error
	r.Panic = nd.Guard(func() {
		for i, sp := range trace {
			switch sp.Op {
			case "new":
				o, _, _ := drv.NewObject(s)
				cur = reflect.ValueOf(o)
			case "zero":
				cur = reflect.New(typ.Elem())
			case "init":
				m := cur.MethodByName("InitDefault")
				if !m.IsValid() {
					out = append(out, map[string]interface{}{"missing": "InitDefault"})
					continue
				}
				m.Call(nil)
			case "set":
				var f *drv.SField
				for k := range st.Fields {
					if st.Fields[k].Name == sp.F {
						f = &st.Fields[k]
					}
				}
				gf := goField[sp.F]
				if f == nil || gf == "" {
					runErr = fmt.Errorf("step %d: no field %q", i, sp.F)
					return
				}
				if err := drv.Build(sc, &f.Type, sp.V, cur.Elem().FieldByName(gf)); err != nil {
					runErr = fmt.Errorf("step %d: %w", i, err)
					return
				}
			case "mut":
				var f *drv.SField
				for k := range st.Fields {
					if st.Fields[k].Name == sp.F {
						f = &st.Fields[k]
					}
				}
				gf := goField[sp.F]
				if f == nil || gf == "" {
					runErr = fmt.Errorf("step %d: no field %q", i, sp.F)
					return
				}
				spc := sp
				if err := mutate(sc, &f.Type, cur.Elem().FieldByName(gf), &spc); err != nil {
					runErr = fmt.Errorf("step %d: %w", i, err)
					return
				}
			case "obs":
				o := map[string]interface{}{"v": dump(sc, stype, cur)}
				get := map[string]interface{}{}
				isset := map[string]interface{}{}
				for k := range st.Fields {
					f := &st.Fields[k]
					gf := goField[f.Name]
					if gf == "" {
						continue
					}
					if m := cur.MethodByName("Get" + gf); m.IsValid() && m.Type().NumIn() == 0 && m.Type().NumOut() == 1 {
						get[f.Name] = dump(sc, &f.Type, m.Call(nil)[0])
					}
					if m := cur.MethodByName("IsSet" + gf); m.IsValid() && m.Type().NumIn() == 0 && m.Type().NumOut() == 1 {
						isset[f.Name] = m.Call(nil)[0].Bool()
					}
				}
				o["get"] = get
				o["isset"] = isset
				out = append(out, o)
			default:
				runErr = fmt.Errorf("step %d: unknown op %q", i, sp.Op)
				return
			}
		}
	})
	if runErr != nil {
		return runErr
	}
	r.X = out
	return nil
}
