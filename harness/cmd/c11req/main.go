// Command c11req is `inproc reqcodec` as a stand-alone binary (property C11), so that the C11
// check does not depend on the other subcommands of cmd/inproc building.
//
//	c11req <cases.ndjson> <out.ndjson>
package main

import (
	"fmt"
	"os"

	"verifharness/pkg/c11req"
)

func main() {
	if len(os.Args) < 3 {
		fmt.Fprintln(os.Stderr, "usage: c11req <in> <out>")
		os.Exit(2)
	}
	if err := c11req.Run(os.Args[1], os.Args[2]); err != nil {
		fmt.Fprintln(os.Stderr, "c11req:", err)
		os.Exit(2)
	}
}
