package main

import (
	"crypto/sha1"
	"encoding/base64"
	"encoding/hex"
	"encoding/json"
	"fmt"
	"os"
	"strconv"
	"syscall"
	"time"

	"github.com/cloudwego/thriftgo/parser"
	"github.com/cloudwego/thriftgo/semantic"
	"github.com/cloudwego/thriftgo/tool/trimmer/dump"

	"verifharness/pkg/nd"
)

// C03 / C17: `inproc parse` and `inproc dump`.
//
// parse: one request per line
//
//	{"id":..,"text":..|"b64":..,"proj":bool,"reps":n,"limit_ms":n}          one document
//	{"id":..,"text":..,"bytepass":true,"limit_ms":n}                        byte-level neighbourhood of one document
//
// answer: {"id","ok","err","panic","timeout","ns","h","proj"} resp. a summary for bytepass.
// "h" is the SHA-1 of the canonical JSON of the projection (or of "ERR"); the projection is every
// field of parser.Thrift that the parser fills, except ReservedComments and Filename.
//
// dump: {"id","main":"a.thrift","files":{"a.thrift":text,...}} ->
// parse (ParseBatchString, so that includes are linked) -> CheckAll + ResolveSymbols -> dump.DumpIDL(main)
// -> parse the dumped text in place of the main file -> CheckAll + ResolveSymbols; both projections.

type lxPAnn struct {
	K string   `json:"k"`
	V []string `json:"v"`
}

type lxPType struct {
	N   string   `json:"n"`
	K   *lxPType `json:"k,omitempty"`
	V   *lxPType `json:"v,omitempty"`
	Cpp string   `json:"cpp"`
	Ann []lxPAnn `json:"ann"`
}

// lxPVal: t = i|d|s|id|l|m. Numbers are strings (TLC integers are 32 bit; JSON has no Inf/NaN).
// For doubles, Int carries the decimal integer of equal value when there is one ("" otherwise).
type lxPVal struct {
	T   string      `json:"t"`
	V   string      `json:"v"`
	Int string      `json:"int"`
	L   []*lxPVal   `json:"l"`
	M   [][]*lxPVal `json:"m"`
}

type lxPField struct {
	ID   int32    `json:"id"`
	Name string   `json:"name"`
	Req  string   `json:"req"`
	Type *lxPType `json:"type"`
	Def  *lxPVal  `json:"def"`
	Ann  []lxPAnn `json:"ann"`
}

type lxPEnumValue struct {
	Name  string   `json:"name"`
	Value string   `json:"value"`
	Ann   []lxPAnn `json:"ann"`
}

type lxPEnum struct {
	Name   string         `json:"name"`
	Values []lxPEnumValue `json:"values"`
	Ann    []lxPAnn       `json:"ann"`
}

type lxPStruct struct {
	Cat    string     `json:"cat"`
	Name   string     `json:"name"`
	Fields []lxPField `json:"fields"`
	Ann    []lxPAnn   `json:"ann"`
}

type lxPFunc struct {
	Name   string     `json:"name"`
	Oneway bool       `json:"oneway"`
	Void   bool       `json:"void"`
	Ret    *lxPType   `json:"ret"`
	Args   []lxPField `json:"args"`
	Throws []lxPField `json:"throws"`
	Ann    []lxPAnn   `json:"ann"`
}

type lxPService struct {
	Name    string    `json:"name"`
	Extends string    `json:"extends"`
	Funcs   []lxPFunc `json:"functions"`
	Ann     []lxPAnn  `json:"ann"`
}

type lxPNamespace struct {
	Lang string   `json:"lang"`
	Name string   `json:"name"`
	Ann  []lxPAnn `json:"ann"`
}

type lxPTypedef struct {
	Name string   `json:"name"`
	Type *lxPType `json:"type"`
	Ann  []lxPAnn `json:"ann"`
}

type lxPConst struct {
	Name  string   `json:"name"`
	Type  *lxPType `json:"type"`
	Value *lxPVal  `json:"value"`
	Ann   []lxPAnn `json:"ann"`
}

type lxPThrift struct {
	Includes    []string       `json:"includes"`
	CppIncludes []string       `json:"cpp_includes"`
	Namespaces  []lxPNamespace `json:"namespaces"`
	Typedefs    []lxPTypedef   `json:"typedefs"`
	Consts      []lxPConst     `json:"consts"`
	Enums       []lxPEnum      `json:"enums"`
	Structs     []lxPStruct    `json:"structs"`
	Unions      []lxPStruct    `json:"unions"`
	Exceptions  []lxPStruct    `json:"exceptions"`
	Services    []lxPService   `json:"services"`
}

func lxProjAnn(a parser.Annotations) []lxPAnn {
	out := []lxPAnn{}
	for _, x := range a {
		if x == nil {
			out = append(out, lxPAnn{K: "<nil>"})
			continue
		}
		vs := append([]string{}, x.Values...)
		out = append(out, lxPAnn{K: x.Key, V: vs})
	}
	return out
}

func lxProjType(t *parser.Type) *lxPType {
	if t == nil {
		return nil
	}
	return &lxPType{N: t.Name, K: lxProjType(t.KeyType), V: lxProjType(t.ValueType), Cpp: t.CppType, Ann: lxProjAnn(t.Annotations)}
}

func lxProjVal(v *parser.ConstValue) *lxPVal {
	if v == nil {
		return &lxPVal{T: "none", L: []*lxPVal{}, M: [][]*lxPVal{}} // no null: TLC reads these records back
	}
	out := &lxPVal{L: []*lxPVal{}, M: [][]*lxPVal{}}
	tv := v.TypedValue
	switch v.Type {
	case parser.ConstType_ConstInt:
		out.T = "i"
		if tv != nil && tv.Int != nil {
			out.V = strconv.FormatInt(*tv.Int, 10)
		} else {
			out.V = "<nil>"
		}
	case parser.ConstType_ConstDouble:
		out.T = "d"
		if tv != nil && tv.Double != nil {
			d := *tv.Double
			out.V = strconv.FormatFloat(d, 'g', -1, 64)
			// the integer literal of equal value, if the value is integral (any magnitude)
			if d == float64(int64(d)) && d > -9.3e18 && d < 9.3e18 {
				out.Int = strconv.FormatInt(int64(d), 10)
			} else if s := strconv.FormatFloat(d, 'f', -1, 64); lxIsDigits(s) {
				out.Int = s
			}
		} else {
			out.V = "<nil>"
		}
	case parser.ConstType_ConstLiteral:
		out.T = "s"
		if tv != nil && tv.Literal != nil {
			out.V = *tv.Literal
		} else {
			out.V = "<nil>"
		}
	case parser.ConstType_ConstIdentifier:
		out.T = "id"
		if tv != nil && tv.Identifier != nil {
			out.V = *tv.Identifier
		} else {
			out.V = "<nil>"
		}
	case parser.ConstType_ConstList:
		out.T = "l"
		if tv != nil {
			for _, e := range tv.List {
				out.L = append(out.L, lxProjVal(e))
			}
		}
	case parser.ConstType_ConstMap:
		out.T = "m"
		if tv != nil {
			for _, e := range tv.Map {
				if e == nil {
					out.M = append(out.M, []*lxPVal{nil, nil})
					continue
				}
				out.M = append(out.M, []*lxPVal{lxProjVal(e.Key), lxProjVal(e.Value)})
			}
		}
	default:
		out.T = "?" + v.Type.String()
	}
	return out
}

func lxIsDigits(s string) bool {
	if len(s) > 0 && s[0] == '-' {
		s = s[1:]
	}
	if s == "" {
		return false
	}
	for _, c := range s {
		if c < '0' || c > '9' {
			return false
		}
	}
	return true
}

func lxReqName(r parser.FieldType) string {
	switch r {
	case parser.FieldType_Default:
		return "default"
	case parser.FieldType_Required:
		return "required"
	case parser.FieldType_Optional:
		return "optional"
	}
	return "?" + strconv.Itoa(int(r))
}

func lxProjFields(fs []*parser.Field) []lxPField {
	out := []lxPField{}
	for _, f := range fs {
		if f == nil {
			out = append(out, lxPField{Name: "<nil>"})
			continue
		}
		out = append(out, lxPField{ID: f.ID, Name: f.Name, Req: lxReqName(f.Requiredness), Type: lxProjType(f.Type),
			Def: lxProjVal(f.Default), Ann: lxProjAnn(f.Annotations)})
	}
	return out
}

func lxProjStructs(ss []*parser.StructLike) []lxPStruct {
	out := []lxPStruct{}
	for _, s := range ss {
		out = append(out, lxPStruct{Cat: s.Category, Name: s.Name, Fields: lxProjFields(s.Fields), Ann: lxProjAnn(s.Annotations)})
	}
	return out
}

func lxProject(t *parser.Thrift) *lxPThrift {
	p := &lxPThrift{Includes: []string{}, CppIncludes: []string{}, Namespaces: []lxPNamespace{}, Typedefs: []lxPTypedef{},
		Consts: []lxPConst{}, Enums: []lxPEnum{}, Services: []lxPService{}}
	for _, i := range t.Includes {
		p.Includes = append(p.Includes, i.Path)
	}
	p.CppIncludes = append(p.CppIncludes, t.CppIncludes...)
	for _, n := range t.Namespaces {
		p.Namespaces = append(p.Namespaces, lxPNamespace{Lang: n.Language, Name: n.Name, Ann: lxProjAnn(n.Annotations)})
	}
	for _, d := range t.Typedefs {
		p.Typedefs = append(p.Typedefs, lxPTypedef{Name: d.Alias, Type: lxProjType(d.Type), Ann: lxProjAnn(d.Annotations)})
	}
	for _, c := range t.Constants {
		p.Consts = append(p.Consts, lxPConst{Name: c.Name, Type: lxProjType(c.Type), Value: lxProjVal(c.Value), Ann: lxProjAnn(c.Annotations)})
	}
	for _, e := range t.Enums {
		pe := lxPEnum{Name: e.Name, Values: []lxPEnumValue{}, Ann: lxProjAnn(e.Annotations)}
		for _, v := range e.Values {
			pe.Values = append(pe.Values, lxPEnumValue{Name: v.Name, Value: strconv.FormatInt(v.Value, 10), Ann: lxProjAnn(v.Annotations)})
		}
		p.Enums = append(p.Enums, pe)
	}
	p.Structs = lxProjStructs(t.Structs)
	p.Unions = lxProjStructs(t.Unions)
	p.Exceptions = lxProjStructs(t.Exceptions)
	for _, s := range t.Services {
		ps := lxPService{Name: s.Name, Extends: s.Extends, Funcs: []lxPFunc{}, Ann: lxProjAnn(s.Annotations)}
		for _, f := range s.Functions {
			ps.Funcs = append(ps.Funcs, lxPFunc{Name: f.Name, Oneway: f.Oneway, Void: f.Void, Ret: lxProjType(f.FunctionType),
				Args: lxProjFields(f.Arguments), Throws: lxProjFields(f.Throws), Ann: lxProjAnn(f.Annotations)})
		}
		p.Services = append(p.Services, ps)
	}
	return p
}

func lxHashOf(v interface{}) (string, []byte) {
	b, err := json.Marshal(v)
	if err != nil {
		b = []byte("MARSHAL-ERROR " + err.Error())
	}
	s := sha1.Sum(b)
	return hex.EncodeToString(s[:8]), b
}

type lxParseReq struct {
	ID       string `json:"id"`
	Text     string `json:"text"`
	B64      string `json:"b64"`
	Proj     bool   `json:"proj"`
	Reps     int    `json:"reps"`
	LimitMs  int    `json:"limit_ms"`
	BytePass bool   `json:"bytepass"`
	CPU      bool   `json:"cpu"` // also report the CPU time of the process spent during the parse (single request, VERIF_WORKERS=1)
}

type lxParseObs struct {
	ok       bool
	err      string
	panicked string
	timeout  bool
	ns       int64
	ast      *parser.Thrift
}

func lxShort(s string, n int) string {
	if len(s) > n {
		return s[:n] + "..."
	}
	return s
}

// lxParseOnce runs the real parser under a watchdog; a panic or a timeout is an observation.
func lxParseOnce(text string, limit time.Duration) lxParseObs {
	ch := make(chan lxParseObs, 1)
	go func() {
		var o lxParseObs
		t0 := time.Now()
		o.panicked = nd.Guard(func() {
			ast, err := parser.ParseString("main.thrift", text)
			if err != nil {
				o.err = lxShort(err.Error(), 300)
				if o.err == "" {
					o.err = "(empty error)"
				}
			} else if ast == nil {
				panic("ParseString returned (nil, nil)")
			} else {
				o.ok = true
				o.ast = ast
			}
		})
		o.ns = time.Since(t0).Nanoseconds()
		ch <- o
	}()
	select {
	case o := <-ch:
		return o
	case <-time.After(limit):
		return lxParseObs{timeout: true, ns: limit.Nanoseconds()}
	}
}

var lxPassBytes = []byte{'"', '\'', '\\', '/', '*', '#', 0, 0xff}

func lxBytePass(id, text string, limit time.Duration) map[string]interface{} {
	b := []byte(text)
	n, okc, errc, timeouts, panics := 0, 0, 0, 0, 0
	var maxNs int64
	bad := []map[string]interface{}{}
	try := func(kind string, off int, by int, doc []byte) {
		o := lxParseOnce(string(doc), limit)
		n++
		if o.ns > maxNs {
			maxNs = o.ns
		}
		switch {
		case o.timeout:
			timeouts++
			if len(bad) < 5 {
				bad = append(bad, map[string]interface{}{"kind": kind, "off": off, "byte": by, "what": "timeout",
					"b64": base64.StdEncoding.EncodeToString(doc)})
			}
		case o.panicked != "":
			if len(bad) < 5 {
				bad = append(bad, map[string]interface{}{"kind": kind, "off": off, "byte": by, "what": "panic", "msg": lxShort(o.panicked, 600),
					"b64": base64.StdEncoding.EncodeToString(doc)})
			}
			panics++
		case o.ok:
			okc++
		default:
			errc++
		}
	}
	for i := 0; i < len(b); i++ {
		try("truncate", i, -1, b[:i])
	}
	for i := 0; i < len(b); i++ {
		for _, c := range lxPassBytes {
			if b[i] == c {
				continue
			}
			d := append([]byte(nil), b...)
			d[i] = c
			try("overwrite", i, int(c), d)
		}
	}
	return map[string]interface{}{"id": id, "bytepass": true, "n": n, "ok": okc, "err": errc, "timeouts": timeouts, "panics": panics,
		"bad": bad, "max_ns": maxNs, "len": len(b)}
}

func init() {
	subcommands["parse"] = func(in, out string) error {
		workers := 0 // 0 = one per CPU; VERIF_WORKERS=1 for undisturbed timing
		if w, err := strconv.Atoi(os.Getenv("VERIF_WORKERS")); err == nil && w > 0 {
			workers = w
		}
		return nd.Each(in, out, workers, func(line []byte) (interface{}, error) {
			var c lxParseReq
			if err := json.Unmarshal(line, &c); err != nil {
				return nil, err
			}
			text := c.Text
			if c.B64 != "" {
				b, err := base64.StdEncoding.DecodeString(c.B64)
				if err != nil {
					return nil, err
				}
				text = string(b)
			}
			limit := 20 * time.Second
			if c.LimitMs > 0 {
				limit = time.Duration(c.LimitMs) * time.Millisecond
			}
			if c.BytePass {
				return lxBytePass(c.ID, text, limit), nil
			}
			var ru0 syscall.Rusage
			if c.CPU {
				syscall.Getrusage(syscall.RUSAGE_SELF, &ru0)
			}
			o := lxParseOnce(text, limit)
			var cpuNs int64 = -1
			if c.CPU {
				var ru1 syscall.Rusage
				syscall.Getrusage(syscall.RUSAGE_SELF, &ru1)
				cpuNs = (ru1.Utime.Nano() + ru1.Stime.Nano()) - (ru0.Utime.Nano() + ru0.Stime.Nano())
			}
			for r := 1; r < c.Reps && !o.timeout; r++ {
				o2 := lxParseOnce(text, limit)
				if o2.ns < o.ns {
					o2, o = o, o2
				}
			}
			res := map[string]interface{}{"id": c.ID, "ok": o.ok, "err": o.err, "panic": lxShort(o.panicked, 1500),
				"timeout": o.timeout, "ns": o.ns, "len": len(text), "cpu_ns": cpuNs}
			if o.ok {
				var pj *lxPThrift
				pp := nd.Guard(func() { pj = lxProject(o.ast) })
				if pp != "" {
					res["panic"] = "projection: " + lxShort(pp, 1500)
				} else {
					h, _ := lxHashOf(pj)
					res["h"] = h
					if c.Proj {
						res["proj"] = pj
					}
				}
			} else {
				res["h"] = "ERR"
			}
			return res, nil
		})
	}

	subcommands["dump"] = func(in, out string) error {
		return nd.Each(in, out, 0, func(line []byte) (interface{}, error) {
			var c struct {
				ID    string            `json:"id"`
				Main  string            `json:"main"`
				Files map[string]string `json:"files"`
			}
			if err := json.Unmarshal(line, &c); err != nil {
				return nil, err
			}
			res := map[string]interface{}{"id": c.ID, "stage": "parse1"}
			stage := "parse1"
			sem := func(t *parser.Thrift) error {
				ck := semantic.NewChecker(semantic.Options{FixWarnings: false})
				if _, err := ck.CheckAll(t); err != nil {
					return fmt.Errorf("CheckAll: %w", err)
				}
				if err := semantic.ResolveSymbols(t); err != nil {
					return fmt.Errorf("ResolveSymbols: %w", err)
				}
				return nil
			}
			pan := nd.Guard(func() {
				ast1, err := parser.ParseBatchString(c.Main, c.Files, nil)
				if err != nil {
					res["parse1_err"] = lxShort(err.Error(), 400)
					return
				}
				res["p1_raw"] = lxProject(ast1)
				stage = "sem1"
				if err := sem(ast1); err != nil {
					res["sem1_err"] = lxShort(err.Error(), 400)
					return
				}
				res["p1"] = lxProject(ast1)
				stage = "dump"
				text, err := dump.DumpIDL(ast1)
				if err != nil {
					res["dump_err"] = lxShort(err.Error(), 400)
					return
				}
				res["dumped"] = text
				stage = "parse2"
				files2 := map[string]string{}
				for k, v := range c.Files {
					files2[k] = v
				}
				files2[c.Main] = text
				ast2, err := parser.ParseBatchString(c.Main, files2, nil)
				if err != nil {
					res["parse2_err"] = lxShort(err.Error(), 400)
					return
				}
				res["p2_raw"] = lxProject(ast2)
				stage = "sem2"
				if err := sem(ast2); err != nil {
					res["sem2_err"] = lxShort(err.Error(), 400)
					return
				}
				res["p2"] = lxProject(ast2)
				stage = "done"
			})
			res["stage"] = stage
			res["panic"] = lxShort(pan, 1500)
			empty := lxProject(&parser.Thrift{})
			for _, k := range []string{"p1", "p2"} {
				if _, ok := res[k]; !ok {
					res[k] = empty
				}
			}
			res["acc"] = stage == "done" && pan == ""
			return res, nil
		})
	}
}
