package main

import (
	"encoding/json"
	"fmt"
	"reflect"
	"sync"
	"sync/atomic"

	"github.com/cloudwego/thriftgo/parser"
	"github.com/cloudwego/thriftgo/semantic"
	tr "github.com/cloudwego/thriftgo/thrift_reflection"

	"verifharness/pkg/c15refl"
	"verifharness/pkg/nd"
)

// C15, in-process side. For every case (a rendered multi-file program):
//
//  1. front end as the compiler runs it (ParseBatchString -> CircleDetect -> CheckAll -> ResolveSymbols),
//     thrift_reflection.GetFileDescriptor(ast) per reachable file (exactly what Scope.MarshalDescriptor embeds),
//     canonical projection + Marshal/Unmarshal round trip.
//  2. registry traces: for every registration order handed in by TLC the program is parsed under a fresh path prefix
//     (the default registry is process-global and keyed by path), every file is registered with
//     BuildFileDescriptor(bytes, stand-in Go types, pkg path) in that order, and after each registration the
//     query batch is answered. One more trace uses RegisterAST (own GlobalDescriptor, recursive registration).
//
// The stand-in Go types are distinct reflect.StructOf types; typedefs listed in "share" get the Go type of the
// definition they name (a typedef is a Go type alias in generated code).

type reflCase struct {
	ID         json.RawMessage   `json:"id"`
	Prefix     string            `json:"prefix"`
	Main       string            `json:"main"`
	Paths      []string          `json:"paths"` // file index -> path relative to the prefix
	Files      map[string]string `json:"files"` // relative path -> text
	Orders     [][]int           `json:"orders"`
	Types      [][]reflType      `json:"types"` // per file, in go_types order
	Queries    []c15refl.Q       `json:"queries"`
	QueriesAst []c15refl.Q       `json:"queries_ast"` // for the private registry of RegisterAST
	QueriesMid []c15refl.Q       `json:"queries_mid"` // asked while files are still missing (nil: same as Queries)
	FullFirst  bool              `json:"full_first"`  // the full batch only at the end of the first order (else: of every order)
	Rereg      bool              `json:"rereg"`       // register every file a second time (same content) at the end
}

type reflType struct {
	Kind  string `json:"kind"`
	Name  string `json:"name"`
	Share []int  `json:"share"` // [file, position] of the type whose Go type this typedef aliases (or empty)
}

type reflEvent struct {
	Op  string      `json:"op"` // reg | obs | rereg
	F   int         `json:"f"`
	Qs  []c15refl.Q `json:"qs"`
	Err string      `json:"err"`
}

type reflTrace struct {
	Kind   string      `json:"kind"` // build | ast
	Order  []int       `json:"order"`
	Events []reflEvent `json:"events"`
}

type reflFile struct {
	Path  string      `json:"path"`
	Canon interface{} `json:"canon"`
	RT    c15refl.M   `json:"rt"`
}

type reflObs struct {
	ID     json.RawMessage `json:"id"`
	Stage  string          `json:"stage"`
	Err    string          `json:"err"`
	Files  []reflFile      `json:"files"`
	Traces []reflTrace     `json:"traces"`
}

var reflRegistryMu sync.Mutex // the registries of thrift_reflection are plain maps

func reflFrontEnd(prefix string, c *reflCase) (*parser.Thrift, map[string]*parser.Thrift, string, error) {
	m := map[string]string{}
	for rel, text := range c.Files {
		m[prefix+rel] = text
	}
	ast, err := parser.ParseBatchString(prefix+c.Main, m, nil)
	if err != nil {
		return nil, nil, "parse", err
	}
	if path := parser.CircleDetect(ast); path != "" {
		return nil, nil, "circle", fmt.Errorf("%s", path)
	}
	if _, err := semantic.NewChecker(semantic.Options{FixWarnings: true}).CheckAll(ast); err != nil {
		return nil, nil, "check", err
	}
	if err := semantic.ResolveSymbols(ast); err != nil {
		return nil, nil, "resolve", err
	}
	byName := map[string]*parser.Thrift{}
	var walk func(t *parser.Thrift)
	walk = func(t *parser.Thrift) {
		if t == nil || byName[t.Filename] != nil {
			return
		}
		byName[t.Filename] = t
		for _, inc := range t.Includes {
			walk(inc.Reference)
		}
	}
	walk(ast)
	return ast, byName, "ok", nil
}

var fakeSeq int64

// fakeType returns a Go type no other call returns (reflect.StructOf interns by field list).
func fakeType() reflect.Type {
	n := atomic.AddInt64(&fakeSeq, 1)
	return reflect.StructOf([]reflect.StructField{{Name: fmt.Sprintf("X%d", n), Type: reflect.TypeOf(0)}})
}

func copyQs(qs []c15refl.Q) []c15refl.Q {
	out := make([]c15refl.Q, len(qs))
	copy(out, qs)
	return out
}

func runReflect(c *reflCase) *reflObs {
	obs := &reflObs{ID: c.ID, Stage: "ok"}
	p := nd.Guard(func() {
		// ---- 1. descriptors of every file
		_, byName, stage, err := reflFrontEnd(c.Prefix, c)
		if err != nil {
			obs.Stage, obs.Err = stage, err.Error()
			return
		}
		for _, rel := range c.Paths {
			t := byName[c.Prefix+rel]
			if t == nil {
				obs.Stage, obs.Err = "harness", "file not reached by the parser: "+rel
				return
			}
			fd := tr.GetFileDescriptor(t)
			obs.Files = append(obs.Files, reflFile{Path: rel, Canon: c15refl.Canon(fd), RT: c15refl.RoundTrip(fd)})
		}
		// ---- 2. registry traces
		for k, order := range c.Orders {
			prefix := fmt.Sprintf("%so%d/", c.Prefix, k)
			_, byName, stage, err := reflFrontEnd(prefix, c)
			if err != nil {
				obs.Stage, obs.Err = stage, err.Error()
				return
			}
			w := &c15refl.World{GD: c15refl.DefaultGD()}
			goTypes := make([][]interface{}, len(c.Paths))
			for i, rel := range c.Paths {
				w.Paths = append(w.Paths, prefix+rel)
				fi := c15refl.FileInfo{Path: prefix + rel}
				for _, ty := range c.Types[i] {
					fi.Types = append(fi.Types, c15refl.TypeInfo{Kind: ty.Kind, Name: ty.Name,
						Ptr: reflect.New(fakeType()).Interface()})
				}
				w.Files = append(w.Files, fi)
			}
			for i := range c.Paths { // aliases share the Go type of their target
				for j, ty := range c.Types[i] {
					if len(ty.Share) == 2 {
						w.Files[i].Types[j].Ptr = w.Files[ty.Share[0]-1].Types[ty.Share[1]-1].Ptr
					}
				}
				for _, ti := range w.Files[i].Types {
					goTypes[i] = append(goTypes[i], ti.Ptr)
				}
			}
			trc := reflTrace{Kind: "build", Order: order}
			func() {
				reflRegistryMu.Lock()
				defer reflRegistryMu.Unlock()
				mid := c.QueriesMid
				if mid == nil {
					mid = c.Queries
				}
				nreg := 0
				trc.Events = append(trc.Events, reflEvent{Op: "obs", Qs: w.RunAll(copyQs(mid))})
				regOne := func(op string, f int) {
					ev := reflEvent{Op: op, F: f}
					ev.Err = nd.Guard(func() {
						t := byName[prefix+c.Paths[f-1]]
						b, err := tr.GetFileDescriptor(t).Marshal()
						if err != nil {
							panic(err)
						}
						tr.BuildFileDescriptor(&tr.FileDescriptorBuilder{Bytes: b, GoTypes: goTypes[f-1],
							GoPackagePath: "verif/fake/" + c.Paths[f-1]})
					})
					if len(ev.Err) > 300 {
						ev.Err = ev.Err[:300]
					}
					trc.Events = append(trc.Events, ev)
					nreg++
					qs := mid
					if nreg >= len(order) && (k == 0 || !c.FullFirst) { // everything registered: the full batch
						qs = c.Queries
					}
					if op == "rereg" {
						// a second registration hands the Go types to a second, equal descriptor object; the harness
						// identifies answers by object identity, so the Go-type lookups are left out from here on
						var keep []c15refl.Q
						for _, q := range qs {
							if q.Q != "bygo" && q.Q != "togo" && q.Q != "own" {
								keep = append(keep, q)
							}
						}
						qs = keep
					}
					trc.Events = append(trc.Events, reflEvent{Op: "obs", Qs: w.RunAll(copyQs(qs))})
				}
				for _, f := range order {
					regOne("reg", f)
				}
				if c.Rereg && k == 0 {
					for _, f := range order {
						regOne("rereg", f)
					}
				}
			}()
			obs.Traces = append(obs.Traces, trc)
		}
		// ---- RegisterAST: a private registry, files registered recursively from the main file
		{
			prefix := c.Prefix + "ast/"
			ast, _, stage, err := reflFrontEnd(prefix, c)
			if err != nil {
				obs.Stage, obs.Err = stage, err.Error()
				return
			}
			var trc reflTrace
			func() {
				reflRegistryMu.Lock()
				defer reflRegistryMu.Unlock()
				gd, _ := tr.RegisterAST(ast)
				w := &c15refl.World{GD: gd}
				for _, rel := range c.Paths {
					w.Paths = append(w.Paths, prefix+rel)
				}
				qs := copyQs(c.QueriesAst) // no Go types in this registry
				order := make([]int, 0, len(c.Paths))
				for i := range c.Paths {
					order = append(order, i+1)
				}
				trc = reflTrace{Kind: "ast", Order: order}
				for _, f := range order {
					trc.Events = append(trc.Events, reflEvent{Op: "reg", F: f})
				}
				trc.Events = append(trc.Events, reflEvent{Op: "obs", Qs: w.RunAll(qs)})
				tr.ReleaseGlobalDescriptors(gd)
			}()
			obs.Traces = append(obs.Traces, trc)
		}
	})
	if p != "" {
		obs.Stage, obs.Err = "panic", p
	}
	return obs
}

func init() {
	subcommands["reflect"] = func(in, out string) error {
		return nd.Each(in, out, 0, func(line []byte) (interface{}, error) {
			var c reflCase
			if err := json.Unmarshal(line, &c); err != nil {
				return nil, err
			}
			return runReflect(&c), nil
		})
	}
}
