package main

import (
	"bytes"
	"encoding/hex"
	"encoding/json"
	"fmt"
	"os"
	"sort"
	"strings"
	"sync"
	"sync/atomic"
	"time"

	"github.com/cloudwego/thriftgo/fieldmask"
	"github.com/cloudwego/thriftgo/parser"
	"github.com/cloudwego/thriftgo/thrift_reflection"

	"verifharness/pkg/nd"
)

// C14: the field-mask library driven in-process.
//
//	inproc mask <cases.ndjson> <obs.ndjson>       (queries: file named by $VERIF_MASK_Q)
//	inproc maskdesc - <out.json>                  (dump of the real descriptors, to be compared with the spec's)
//
// A case is one of
//
//	{"k":"sem","root":R,"black":b,"paths":[...]}   build a mask, run every query of the root's query set on it,
//	                                                on its JSON image read back (UnmarshalJSON and Unmarshal)
//	{"k":"path","root":R,"hex":...}                 robustness: one arbitrary byte string as a path
//	{"k":"json","hex":...}                          robustness: one arbitrary byte string as a JSON document
//
// Every library call runs under recover; a panic is recorded as an observation.

// maskIDL must describe the same types as spec/FieldMask/MC_FieldMask.tla (checked at run time through maskdesc).
const maskIDL = `
namespace go vm

enum E { A = 1, B = 2 }

typedef map<string,V> SM
typedef V VV

struct V {
	1: string a,
	2: i32 b,
}

struct W {
	1: V v,
	2: list<i32> li,
	64: map<i32,i32> mii,
}

struct R {
	1: i32 x,
	2: VV s,
	3: list<V> l,
	4: set<string> ss,
	5: map<i32,V> im,
	6: SM sm,
	7: map<E,i32> em,
	8: map<bool,V> bm,
	9: map<i64,i32> bi,
	63: W w,
	64: string y,
	300: list<list<i32>> ll,
}

struct N {
	1: i32 x,
	-1: i32 neg,
	2: V s,
	-2: V ns,
}
`

var (
	maskOnce  sync.Once
	maskDescs = map[string]*thrift_reflection.TypeDescriptor{}
	maskFD    *thrift_reflection.FileDescriptor
	maskQ     map[string]*maskQueries
)

type maskQueries struct {
	// a walk is a list of steps ["f",id] | ["i",n] | ["s",str]
	Walks [][][]interface{} `json:"walks"`
	Pims  []string          `json:"pims"`
}

func maskSetup() {
	maskOnce.Do(func() {
		ast, err := parser.ParseString("c14mask.thrift", maskIDL)
		if err != nil {
			panic(err)
		}
		_, fd := thrift_reflection.RegisterAST(ast)
		maskFD = fd
		for _, st := range fd.GetStructs() {
			maskDescs[st.Name] = &thrift_reflection.TypeDescriptor{
				Filepath: st.Filepath,
				Name:     st.Name,
				Extra:    map[string]string{thrift_reflection.GLOBAL_UUID_EXTRA_KEY: st.Extra[thrift_reflection.GLOBAL_UUID_EXTRA_KEY]},
			}
		}
		maskQ = map[string]*maskQueries{}
		if p := os.Getenv("VERIF_MASK_Q"); p != "" {
			b, err := os.ReadFile(p)
			if err != nil {
				panic(err)
			}
			if err := json.Unmarshal(b, &maskQ); err != nil {
				panic(err)
			}
		}
	})
}

// ---- descriptor dump ------------------------------------------------------------------------------------

func maskDumpType(td *thrift_reflection.TypeDescriptor) map[string]interface{} {
	for td.IsTypedef() {
		t, _ := td.GetTypedefDescriptor()
		td = t.GetType()
	}
	switch {
	case td.IsStruct():
		return map[string]interface{}{"k": "struct", "name": td.GetName()}
	case td.IsList():
		return map[string]interface{}{"k": "list", "e": maskDumpType(td.GetValueType())}
	case td.IsMap():
		kt := td.GetKeyType()
		for kt.IsTypedef() {
			t, _ := kt.GetTypedefDescriptor()
			kt = t.GetType()
		}
		kk := "othermap"
		if kt.IsEnum() {
			kk = "intmap"
		} else {
			switch kt.GetName() {
			case "i8", "i16", "i32", "i64", "byte":
				kk = "intmap"
			case "string", "binary":
				kk = "strmap"
			}
		}
		return map[string]interface{}{"k": kk, "e": maskDumpType(td.GetValueType())}
	default:
		return map[string]interface{}{"k": "scalar"}
	}
}

func maskDescDump() map[string]interface{} {
	maskSetup()
	out := map[string]interface{}{}
	for _, st := range maskFD.GetStructs() {
		var fs []map[string]interface{}
		for _, f := range st.GetFields() {
			fs = append(fs, map[string]interface{}{"id": f.GetID(), "name": f.GetName(), "t": maskDumpType(f.GetType())})
		}
		out[st.Name] = fs
	}
	return out
}

// ---- observations ---------------------------------------------------------------------------------------

type maskObs struct {
	Exist bool     `json:"exist"`
	All   bool     `json:"all"`
	Walks []string `json:"walks"`
	Pims  string   `json:"pims"`
}

func maskAllCh(m *fieldmask.FieldMask) byte {
	if m.All() {
		return 'A'
	}
	return 'a'
}

// observe runs the query set on m. Per walk one character per step: 'n' = not in mask (walk stops),
// 'A' / 'a' = in mask and the sub mask answers All() true / false.
func maskObserve(m *fieldmask.FieldMask, desc *thrift_reflection.TypeDescriptor, q *maskQueries) maskObs {
	o := maskObs{Exist: m.Exist(), All: m.All()}
	if q == nil {
		return o
	}
	for _, w := range q.Walks {
		cur := m
		var sb strings.Builder
		for _, st := range w {
			var ex bool
			switch st[0].(string) {
			case "f":
				cur, ex = cur.Field(int16(st[1].(float64)))
			case "i":
				cur, ex = cur.Int(int(st[1].(float64)))
			case "s":
				cur, ex = cur.Str(st[1].(string))
			default:
				panic("bad step in query file")
			}
			if !ex {
				sb.WriteByte('n')
				break
			}
			sb.WriteByte(maskAllCh(cur))
		}
		o.Walks = append(o.Walks, sb.String())
	}
	if desc != nil {
		var sb strings.Builder
		for _, p := range q.Pims {
			in := false
			if pn := nd.Guard(func() { in = m.PathInMask(desc, p) }); pn != "" {
				// a panic of one PathInMask call: recorded in the answer string and re-raised with the query in it
				sb.WriteByte('P')
				o.Pims = sb.String()
				panic(maskQueryPanic{"PathInMask(" + p + ")", pn})
			}
			if in {
				sb.WriteByte('1')
			} else {
				sb.WriteByte('0')
			}
		}
		o.Pims = sb.String()
	}
	return o
}

type maskQueryPanic struct{ stage, msg string }

type maskImage struct {
	Err   string   `json:"err,omitempty"`
	Panic string   `json:"panic,omitempty"`
	Obs   *maskObs `json:"obs,omitempty"`
	JSON  string   `json:"json,omitempty"`
}

type maskResult struct {
	cur    atomic.Value
	Panic  string     `json:"panic,omitempty"` // first panic of any stage
	Stage  string     `json:"stage,omitempty"` // stage of that panic
	Err    string     `json:"err,omitempty"`   // error of NewFieldMask
	Built  bool       `json:"built"`
	Obs    *maskObs   `json:"obs,omitempty"`
	JSON   string     `json:"json,omitempty"`
	Stable bool       `json:"stable"`            // MarshalJSON gave the same bytes every time and Marshal agrees
	JSONOK bool       `json:"jsonok"`            // output is valid JSON
	RT     *maskImage `json:"rt,omitempty"`      // UnmarshalJSON(MarshalJSON(m))
	RT2    *maskImage `json:"rt2,omitempty"`     // fieldmask.Unmarshal(fieldmask.Marshal(m)) (cached variants)
	RT3    *maskImage `json:"rt3,omitempty"`     // encoding/json.Unmarshal into **FieldMask
	Notes  []string   `json:"notes,omitempty"`
}

func (r *maskResult) guard(stage string, f func()) bool {
	if maskPoisoned(stage) {
		// this entry point has already hung three times: do not call it again (a hung goroutine cannot be killed)
		return true
	}
	r.cur.Store(stage)
	var qp *maskQueryPanic
	p := nd.Guard(func() {
		defer func() {
			if v := recover(); v != nil {
				if x, ok := v.(maskQueryPanic); ok {
					qp = &x
					return
				}
				panic(v)
			}
		}()
		f()
	})
	if qp != nil {
		p = qp.msg
		stage = stage + ":" + qp.stage
	}
	if p != "" {
		if r.Panic == "" {
			r.Panic = p
			r.Stage = stage
		}
		return false
	}
	return true
}

func maskFirstLine(s string) string {
	if i := strings.IndexByte(s, '\n'); i >= 0 {
		return s[:i]
	}
	return s
}

// transport marshals m (several times, both APIs), reads it back through the three entry points and observes.
func (r *maskResult) transport(m *fieldmask.FieldMask, desc *thrift_reflection.TypeDescriptor, q *maskQueries) {
	var j1 []byte
	var e1 error
	if !r.guard("MarshalJSON", func() { j1, e1 = m.MarshalJSON() }) {
		return
	}
	if e1 != nil {
		r.Notes = append(r.Notes, "MarshalJSON error: "+e1.Error())
		return
	}
	r.JSON = string(j1)
	r.JSONOK = json.Valid(j1)
	r.Stable = true
	for k := 0; k < 3; k++ {
		var j2 []byte
		var e2 error
		if !r.guard("MarshalJSON#2", func() { j2, e2 = m.MarshalJSON() }) {
			return
		}
		if e2 != nil || !bytes.Equal(j1, j2) {
			r.Stable = false
		}
	}
	var j3 []byte
	var e3 error
	if r.guard("Marshal", func() { j3, e3 = fieldmask.Marshal(m) }) {
		if e3 != nil || !bytes.Equal(j1, j3) {
			r.Stable = false
			r.Notes = append(r.Notes, "Marshal differs from MarshalJSON")
		}
	}
	// the text handed to the caller must stay what it was while OTHER masks are marshalled (a history:
	// marshal A, keep the bytes, marshal B and C, use A's bytes)
	s1, s3 := string(j1), string(j3)
	r.guard("MarshalJSON(other)", func() {
		for _, ps := range [][]string{{"$"}, nil} {
			if o, err := fieldmask.NewFieldMask(desc, ps...); err == nil && o != nil {
				o.MarshalJSON()
				fieldmask.Marshal(o)
			}
		}
		if bo, err := (fieldmask.Options{BlackListMode: true}).NewFieldMask(desc, "$"); err == nil && bo != nil {
			bo.MarshalJSON()
			fieldmask.Marshal(bo)
		}
	})
	if string(j1) != s1 || string(j3) != s3 {
		r.Stable = false
		r.Notes = append(r.Notes, "bytes returned by MarshalJSON/Marshal changed after other masks were marshalled")
	}
	image := func(stage string, read func() (*fieldmask.FieldMask, error)) *maskImage {
		im := &maskImage{}
		var n *fieldmask.FieldMask
		var err error
		if !r.guard(stage, func() { n, err = read() }) {
			im.Panic = maskFirstLine(r.Panic)
			return im
		}
		if err != nil {
			im.Err = err.Error()
			return im
		}
		r.guard(stage+"+query", func() {
			o := maskObserve(n, desc, q)
			im.Obs = &o
		})
		r.guard(stage+"+MarshalJSON", func() {
			b, err := n.MarshalJSON()
			if err != nil {
				im.Err = "re-marshal: " + err.Error()
			}
			im.JSON = string(b)
		})
		return im
	}
	r.RT = image("UnmarshalJSON", func() (*fieldmask.FieldMask, error) {
		n := &fieldmask.FieldMask{}
		return n, n.UnmarshalJSON(j1)
	})
	r.RT2 = image("Unmarshal", func() (*fieldmask.FieldMask, error) {
		return fieldmask.Unmarshal(j3)
	})
	r.RT3 = image("json.Unmarshal", func() (*fieldmask.FieldMask, error) {
		var n *fieldmask.FieldMask
		err := json.Unmarshal(j1, &n)
		return n, err
	})
}

type maskCase struct {
	K     string   `json:"k"`
	Root  string   `json:"root"`
	Black bool     `json:"black"`
	Paths []string `json:"paths"`
	Hex   string   `json:"hex"`
}

func maskBuild(desc *thrift_reflection.TypeDescriptor, black bool, paths []string) (*fieldmask.FieldMask, error) {
	if black {
		return fieldmask.Options{BlackListMode: true}.NewFieldMask(desc, paths...)
	}
	return fieldmask.NewFieldMask(desc, paths...)
}

func maskSem(c *maskCase) *maskResult {
	r := &maskResult{}
	desc := maskDescs[c.Root]
	q := maskQ[c.Root]
	var m *fieldmask.FieldMask
	var err error
	if !r.guard("NewFieldMask", func() { m, err = maskBuild(desc, c.Black, c.Paths) }) {
		return r
	}
	if err != nil {
		r.Err = err.Error()
		return r
	}
	r.Built = true
	if !r.guard("query", func() {
		o := maskObserve(m, desc, q)
		r.Obs = &o
	}) {
		return r
	}
	r.transport(m, desc, q)
	return r
}

// generic queries for masks that do not come from a descriptor
var maskGenericQ = &maskQueries{Walks: [][][]interface{}{
	{{"f", 0.0}}, {{"f", 1.0}, {"f", 1.0}}, {{"f", 1.0}, {"i", 0.0}}, {{"f", 1.0}, {"s", "a"}}, {{"f", 64.0}}, {{"f", 32767.0}},
	{{"i", 0.0}, {"f", 1.0}}, {{"i", 1.0}, {"i", 0.0}}, {{"i", 7.0}}, {{"s", "a"}, {"f", 1.0}}, {{"s", ""}}, {{"s", "zz"}, {"s", "a"}},
}}

type maskRobustResult struct {
	Hang   bool   `json:"hang,omitempty"` // the call did not return within the watchdog time (stage = where)
	Panic  string `json:"panic,omitempty"`
	Stage  string `json:"stage,omitempty"`
	Accept string `json:"accept"` // which entry points accepted the input, e.g. "WB" / "JU"
}

var maskHangs int32

var (
	maskHangMu     sync.Mutex
	maskHangStages = map[string]int{}
)

func maskPoisoned(stage string) bool {
	maskHangMu.Lock()
	defer maskHangMu.Unlock()
	return maskHangStages[stage] >= 3
}

// maskWatchdog: generous, the machine may be heavily loaded; the check re-runs a hanging input alone to confirm
const maskWatchdog = 45 * time.Second

// maskWatch runs f(r) with a watchdog: a call that does not return is an observation ("hang"), the stuck goroutine
// is abandoned (it cannot be killed); after 64 hangs the remaining cases are not run any more.
func maskWatch(f func(r *maskResult) (*maskRobustResult, error)) (*maskRobustResult, error) {
	if atomic.LoadInt32(&maskHangs) >= 64 {
		return &maskRobustResult{Accept: "skipped"}, nil
	}
	r := &maskResult{}
	type res struct {
		o *maskRobustResult
		e error
	}
	ch := make(chan res, 1)
	go func() {
		o, e := f(r)
		ch <- res{o, e}
	}()
	select {
	case x := <-ch:
		return x.o, x.e
	case <-time.After(maskWatchdog):
		atomic.AddInt32(&maskHangs, 1)
		st, _ := r.cur.Load().(string)
		maskHangMu.Lock()
		maskHangStages[st]++
		maskHangMu.Unlock()
		return &maskRobustResult{Hang: true, Stage: st}, nil
	}
}

func maskRobustPath(c *maskCase, r *maskResult) (*maskRobustResult, error) {
	raw, err := hex.DecodeString(c.Hex)
	if err != nil {
		return nil, err
	}
	p := string(raw)
	desc := maskDescs[c.Root]
	q := maskQ[c.Root]
	out := &maskRobustResult{}
	for _, black := range []bool{false, true} {
		tag := "white"
		if black {
			tag = "black"
		}
		var m *fieldmask.FieldMask
		var e error
		if !r.guard("NewFieldMask/"+tag, func() { m, e = maskBuild(desc, black, []string{p}) }) {
			continue
		}
		if e != nil {
			continue
		}
		out.Accept += tag[:1]
		r.guard("query/"+tag, func() { maskObserve(m, desc, q) })
		r.transport(m, desc, q)
		// the same string after a well-formed path, and before one
		r.guard("NewFieldMask/after/"+tag, func() { maskBuild(desc, black, []string{"$.x", p}) })
		r.guard("NewFieldMask/before/"+tag, func() { maskBuild(desc, black, []string{p, "$.x"}) })
	}
	// as a query path on masks of several shapes
	for i, base := range [][]string{{}, {"$"}, {"$.x", "$.s.a", "$.l[0].a", "$.im{1}", `$.sm{"a"}.a`, "$.w.li[*]", "$.ll[0][1]", "$.bm{*}.a"}} {
		var m *fieldmask.FieldMask
		var e error
		if !r.guard("NewFieldMask/base", func() { m, e = maskBuild(desc, i == 1, base) }) || e != nil {
			return nil, fmt.Errorf("base mask not built: %v %s", e, r.Panic)
		}
		r.guard(fmt.Sprintf("PathInMask/base%d", i), func() { m.PathInMask(desc, p) })
		r.guard(fmt.Sprintf("GetPath/base%d", i), func() { m.GetPath(desc, p) })
	}
	var nilm *fieldmask.FieldMask
	r.guard("PathInMask/nil", func() { nilm.PathInMask(desc, p) })
	out.Panic, out.Stage = r.Panic, r.Stage
	return out, nil
}

func maskRobustJSON(c *maskCase, r *maskResult) (*maskRobustResult, error) {
	raw, err := hex.DecodeString(c.Hex)
	if err != nil {
		return nil, err
	}
	maskSetup()
	desc := maskDescs["R"]
	q := &maskQueries{Walks: maskGenericQ.Walks, Pims: []string{"$.x", "$.s.a", "$.l[0].a", "$.im{1}", `$.sm{"a"}`, "$.w.v.a", "$.*", "$.l[*]"}}
	out := &maskRobustResult{}
	use := func(stage string, m *fieldmask.FieldMask) {
		r.guard(stage+"+query", func() { maskObserve(m, desc, q) })
		r.guard(stage+"+Type", func() { _ = m.Type(); _ = m.IsBlack() })
		var b1, b2 []byte
		var e1, e2 error
		if r.guard(stage+"+MarshalJSON", func() { b1, e1 = m.MarshalJSON(); b2, e2 = m.MarshalJSON() }) {
			if e1 == nil && e2 == nil && !bytes.Equal(b1, b2) {
				r.Notes = append(r.Notes, "unstable")
			}
			if e1 == nil {
				r.guard(stage+"+reread", func() {
					n := &fieldmask.FieldMask{}
					if n.UnmarshalJSON(b1) == nil {
						maskObserve(n, desc, q)
					}
				})
			}
		}
	}
	{
		m := &fieldmask.FieldMask{}
		var e error
		if r.guard("UnmarshalJSON", func() { e = m.UnmarshalJSON(raw) }) && e == nil {
			out.Accept += "J"
			use("UnmarshalJSON", m)
		}
	}
	{
		var m *fieldmask.FieldMask
		var e error
		if r.guard("json.Unmarshal", func() { e = json.Unmarshal(raw, &m) }) && e == nil {
			out.Accept += "E"
			if m != nil {
				use("json.Unmarshal", m)
			}
		}
	}
	{
		var m *fieldmask.FieldMask
		var e error
		if r.guard("Unmarshal", func() { m, e = fieldmask.Unmarshal(append([]byte(nil), raw...)) }) && e == nil {
			out.Accept += "U"
			use("Unmarshal", m)
			// second call hits the cache
			r.guard("Unmarshal#2", func() { fieldmask.Unmarshal(append([]byte(nil), raw...)) })
		}
	}
	out.Panic, out.Stage = r.Panic, r.Stage
	return out, nil
}

func init() {
	subcommands["maskdesc"] = func(in, out string) error {
		d := maskDescDump()
		b, err := json.Marshal(d)
		if err != nil {
			return err
		}
		return os.WriteFile(out, append(b, '\n'), 0o644)
	}
	subcommands["mask"] = func(in, out string) error {
		maskSetup()
		names := []string{}
		for k := range maskDescs {
			names = append(names, k)
		}
		sort.Strings(names)
		return nd.Each(in, out, 0, func(line []byte) (interface{}, error) {
			var c maskCase
			if err := json.Unmarshal(line, &c); err != nil {
				return nil, err
			}
			switch c.K {
			case "sem":
				if maskDescs[c.Root] == nil {
					return nil, fmt.Errorf("unknown root %q (have %v)", c.Root, names)
				}
				return maskSem(&c), nil
			case "path":
				if maskDescs[c.Root] == nil {
					return nil, fmt.Errorf("unknown root %q (have %v)", c.Root, names)
				}
				return maskWatch(func(r *maskResult) (*maskRobustResult, error) { return maskRobustPath(&c, r) })
			case "json":
				return maskWatch(func(r *maskResult) (*maskRobustResult, error) { return maskRobustJSON(&c, r) })
			}
			return nil, fmt.Errorf("unknown case kind %q", c.K)
		})
	}
}
