package main

import (
	"encoding/json"
	"go/ast"
	"go/parser"
	"go/token"
	"os"
	"sort"
	"strings"

	"github.com/cloudwego/thriftgo/generator/backend"
	"github.com/cloudwego/thriftgo/generator/golang"
	"github.com/cloudwego/thriftgo/generator/golang/common"

	"verifharness/pkg/nd"
)

// C01: two subcommands.
//
// `inproc naming <req.json> <out.json>` — ONE request per process (the naming-style objects of
// thriftgo are process-wide singletons):
//
//	{"opts": ["naming_style=golint", ...], "names": ["foo", "Foo_A", ...]}
//
// A fresh CodeUtils is configured by the real HandleOptions(opts); for every name the result of the
// real CodeUtils.Identify (which strips the synthesized-name prefix `$` itself), the lower-first-rune
// form (common.LowerFirstRune, what buildFunction applies to parameter names and the templates'
// Unexport applies to processor names) and the three string predicates that Scope.identify's
// compatible_names rule looks at.  These tables are the constant `Identify` of spec/Naming/Naming.tla.
//
// `inproc godecls <cases.ndjson> <out.ndjson>` — every input line {"case": id, "files": [path...]}:
// each file is parsed with go/parser (syntax oracle of C01); output per case: syntax errors per file and,
// per Go package directory, the declared package-level identifiers, the methods and the fields of every
// struct type and the methods of every interface type (used to bind the model's predicted names to the
// generated code).
func init() {
	subcommands["naming"] = runNaming
	subcommands["godecls"] = runGoDecls
}

type namingReq struct {
	Opts  []string `json:"opts"`
	Names []string `json:"names"`
}

type namingRow struct {
	ID        string `json:"id"`
	Lower     string `json:"lower"`
	PfxNew    bool   `json:"pfxNew"`
	SfxArgs   bool   `json:"sfxArgs"`
	SfxResult bool   `json:"sfxResult"`
	Err       string `json:"err,omitempty"`
}

type namingOut struct {
	Opts   []string             `json:"opts"`
	Compat bool                 `json:"compat"`
	Style  string               `json:"style"`
	Err    string               `json:"err,omitempty"`
	Names  map[string]namingRow `json:"names"`
}

func runNaming(in, out string) error {
	b, err := os.ReadFile(in)
	if err != nil {
		return err
	}
	var req namingReq
	if err := json.Unmarshal(b, &req); err != nil {
		return err
	}
	res := namingOut{Opts: req.Opts, Names: map[string]namingRow{}}
	cu := golang.NewCodeUtils(backend.DummyLogFunc())
	if err := cu.HandleOptions(req.Opts); err != nil {
		res.Err = err.Error()
	} else {
		res.Compat = cu.Features().CompatibleNames
		res.Style = cu.NamingStyle().Name()
		for _, n := range req.Names {
			var row namingRow
			func() {
				defer func() {
					if r := recover(); r != nil {
						row.Err = "panic"
					}
				}()
				s, e := cu.Identify(n)
				if e != nil {
					row.Err = e.Error()
					return
				}
				row.ID = s
				if s != "" {
					row.Lower = common.LowerFirstRune(s)
				}
				row.PfxNew = strings.HasPrefix(s, "New")
				row.SfxArgs = strings.HasSuffix(s, "Args")
				row.SfxResult = strings.HasSuffix(s, "Result")
			}()
			res.Names[n] = row
		}
	}
	ob, err := json.Marshal(res)
	if err != nil {
		return err
	}
	return os.WriteFile(out, ob, 0o644)
}

type declReq struct {
	Case  string   `json:"case"`
	Files []string `json:"files"`
}

type pkgDecls struct {
	Package string              `json:"package"`
	Top     map[string][]string `json:"top"`     // identifier -> kinds ("type","func","var","const"), one entry per declaration
	Methods map[string][]string `json:"methods"` // receiver base type -> method names (one per declaration)
	Fields  map[string][]string `json:"fields"`  // struct type -> field names
	Iface   map[string][]string `json:"iface"`   // interface type -> explicit method names
	Params  map[string][]string `json:"params"`  // "Iface.Method" -> parameter names
	Imports []string            `json:"imports"`
}

type declOut struct {
	Case   string               `json:"case"`
	Syntax map[string][]string  `json:"syntax"` // file -> syntax errors
	Pkgs   map[string]*pkgDecls `json:"pkgs"`   // directory -> declarations
	NFiles int                  `json:"nfiles"`
}

func recvName(e ast.Expr) string {
	switch x := e.(type) {
	case *ast.StarExpr:
		return recvName(x.X)
	case *ast.Ident:
		return x.Name
	case *ast.IndexExpr:
		return recvName(x.X)
	}
	return "?"
}

func runGoDecls(in, out string) error {
	return nd.Each(in, out, 0, func(line []byte) (interface{}, error) {
		var req declReq
		if err := json.Unmarshal(line, &req); err != nil {
			return nil, err
		}
		res := declOut{Case: req.Case, Syntax: map[string][]string{}, Pkgs: map[string]*pkgDecls{}}
		sort.Strings(req.Files)
		for _, fn := range req.Files {
			if !strings.HasSuffix(fn, ".go") {
				continue
			}
			res.NFiles++
			fset := token.NewFileSet()
			f, err := parser.ParseFile(fset, fn, nil, parser.AllErrors|parser.SkipObjectResolution)
			if err != nil {
				msgs := []string{}
				for i, ln := range strings.Split(err.Error(), "\n") {
					if i >= 8 {
						break
					}
					msgs = append(msgs, ln)
				}
				res.Syntax[fn] = msgs
			}
			if f == nil {
				continue
			}
			dir := fn[:strings.LastIndex(fn, "/")+1]
			pd := res.Pkgs[dir]
			if pd == nil {
				pd = &pkgDecls{Top: map[string][]string{}, Methods: map[string][]string{}, Fields: map[string][]string{}, Iface: map[string][]string{}, Params: map[string][]string{}}
				res.Pkgs[dir] = pd
			}
			if f.Name != nil {
				pd.Package = f.Name.Name
			}
			for _, im := range f.Imports {
				al := ""
				if im.Name != nil {
					al = im.Name.Name + " "
				}
				pd.Imports = append(pd.Imports, al+im.Path.Value)
			}
			for _, d := range f.Decls {
				switch x := d.(type) {
				case *ast.FuncDecl:
					if x.Recv != nil && len(x.Recv.List) > 0 {
						r := recvName(x.Recv.List[0].Type)
						pd.Methods[r] = append(pd.Methods[r], x.Name.Name)
					} else if x.Name.Name != "init" && x.Name.Name != "_" {
						pd.Top[x.Name.Name] = append(pd.Top[x.Name.Name], "func")
					}
				case *ast.GenDecl:
					for _, sp := range x.Specs {
						switch s := sp.(type) {
						case *ast.TypeSpec:
							pd.Top[s.Name.Name] = append(pd.Top[s.Name.Name], "type")
							switch t := s.Type.(type) {
							case *ast.StructType:
								names := []string{}
								for _, fl := range t.Fields.List {
									if len(fl.Names) == 0 {
										names = append(names, recvName(fl.Type)) // embedded
									}
									for _, n := range fl.Names {
										names = append(names, n.Name)
									}
								}
								pd.Fields[s.Name.Name] = names
							case *ast.InterfaceType:
								names := []string{}
								for _, fl := range t.Methods.List {
									for _, n := range fl.Names {
										names = append(names, n.Name)
										if ft, ok := fl.Type.(*ast.FuncType); ok && ft.Params != nil {
											ps := []string{}
											for _, prm := range ft.Params.List {
												for _, pn := range prm.Names {
													ps = append(ps, pn.Name)
												}
											}
											pd.Params[s.Name.Name+"."+n.Name] = ps
										}
									}
								}
								pd.Iface[s.Name.Name] = names
							}
						case *ast.ValueSpec:
							kind := "var"
							if x.Tok == token.CONST {
								kind = "const"
							}
							for _, n := range s.Names {
								if n.Name != "_" {
									pd.Top[n.Name] = append(pd.Top[n.Name], kind)
								}
							}
						}
					}
				}
			}
		}
		return res, nil
	})
}
