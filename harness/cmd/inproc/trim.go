package main

import (
	"encoding/json"
	"fmt"
	"os"
	"path/filepath"
	"sort"
	"strings"

	"github.com/cloudwego/thriftgo/parser"
	"github.com/cloudwego/thriftgo/semantic"
	"github.com/cloudwego/thriftgo/tool/trimmer/dump"
	"github.com/cloudwego/thriftgo/tool/trimmer/trim"

	"verifharness/pkg/nd"
)

// C16: run the real trimmer (trim.TrimAST) on a rendered program with the case's arguments and report
// what is left (per file reachable from the trimmed root: includes, definitions, functions, extends),
// whether the trimmed AST is internally consistent (every Reference points at the definition the type
// name names), then dump the trimmed tree, parse + check + resolve the dumped text, summarise it again,
// trim it once more with the same arguments and summarise a third time (idempotence).
//
// `inproc trim`     : cases without a yaml configuration, processed in parallel in an empty directory
// `inproc trimyaml` : cases with "yaml" (content of trim_config.yaml in the working directory), one at a time
// `inproc idlsum`   : {"id","main","files"} -> parse + check + resolve + summary (used for files written by
//                     the trimmer binary)

type trimArgs struct {
	Methods        []string `json:"methods"`
	Preserve       *bool    `json:"preserve"`
	DisableComment *bool    `json:"disable_comment"`
	PStructs       []string `json:"pstructs"`
	MatchGoName    *bool    `json:"match_go_name"`
}

type trimCase struct {
	ID    int               `json:"id"`
	Main  string            `json:"main"`
	Files map[string]string `json:"files"`
	Args  trimArgs          `json:"args"`
	Yaml  *string           `json:"yaml"`
	// Verbose: also report the summaries of the untrimmed, re-parsed and twice-trimmed trees and the dumped text
	Verbose bool `json:"verbose"`
}

type defSum struct {
	K    string `json:"k"`
	Name string `json:"name"`
	Sig  string `json:"sig"`
}

type svcSum struct {
	Name string   `json:"name"`
	Ext  string   `json:"ext"`
	Fns  []string `json:"fns"`
	Sigs []string `json:"sigs"`
}

type fileSum struct {
	Path     string   `json:"path"`
	Includes []string `json:"includes"`
	Defs     []defSum `json:"defs"`
	Svcs     []svcSum `json:"svcs"`
}

type treeSum struct {
	Err   string    `json:"err"`
	Panic string    `json:"panic"`
	Files []fileSum `json:"files"`
	Stale []string  `json:"stale"` // references of the in-memory AST that do not point where the name says
}

type trimObs struct {
	ID      int      `json:"id"`
	PreErr  string   `json:"pre_err"` // the untrimmed program was not accepted (machinery)
	T1      *treeSum `json:"t1"`      // the trimmed tree (signatures only in verbose mode)
	Changed []string `json:"changed"` // definitions / functions left whose signature differs from the untrimmed one
	DumpErr string   `json:"dump_err"`
	RPErr   string   `json:"rp_err"`   // parse + check + resolve of the dumped text
	RPStale []string `json:"rp_stale"` // reference problems of the re-parsed tree
	RPSame  bool     `json:"rp_same"`  // summary of the re-parsed tree == summary of the trimmed tree
	T2Err   string   `json:"t2_err"`   // second trim (of the re-parsed tree): error or panic
	T2Same  bool     `json:"t2_same"`  // summary after the second trim == summary before it, no stale references
	SameDump bool    `json:"same_dump"`
	// verbose mode
	Pre    *treeSum          `json:"pre,omitempty"`
	RP     *treeSum          `json:"rp,omitempty"`
	T2     *treeSum          `json:"t2,omitempty"`
	Dumped map[string]string `json:"dumped,omitempty"`
}

// sigs of a summary: "path|kind name" -> signature, "path|S.fn" -> function signature
func sigMap(t *treeSum) map[string]string {
	m := map[string]string{}
	for _, fs := range t.Files {
		for _, d := range fs.Defs {
			m[fs.Path+"|"+d.K+" "+d.Name] = d.Sig
		}
		for _, s := range fs.Svcs {
			m[fs.Path+"|service "+s.Name] = "extends " + s.Ext + " {" + strings.Join(s.Fns, ",") + "}"
			for i, f := range s.Fns {
				m[fs.Path+"|"+s.Name+"."+f] = s.Sigs[i]
			}
		}
		m[fs.Path+"|includes"] = strings.Join(fs.Includes, ",")
	}
	return m
}

func sameSum(a, b *treeSum) bool {
	x, y := sigMap(a), sigMap(b)
	if len(x) != len(y) {
		return false
	}
	for k, v := range x {
		if w, ok := y[k]; !ok || w != v {
			return false
		}
	}
	return true
}

// stripSigs drops the signatures (compact mode)
func stripSigs(t *treeSum) {
	for i := range t.Files {
		for j := range t.Files[i].Defs {
			t.Files[i].Defs[j].Sig = ""
		}
		for j := range t.Files[i].Svcs {
			t.Files[i].Svcs[j].Sigs = nil
		}
	}
}

func typeStr(t *parser.Type) string {
	if t == nil {
		return "void"
	}
	switch {
	case t.KeyType != nil && t.ValueType != nil:
		return t.Name + "<" + typeStr(t.KeyType) + "," + typeStr(t.ValueType) + ">"
	case t.ValueType != nil:
		return t.Name + "<" + typeStr(t.ValueType) + ">"
	}
	return t.Name
}

func valStr(v *parser.ConstValue) string {
	if v == nil || v.TypedValue == nil {
		return ""
	}
	tv := v.TypedValue
	switch {
	case tv.Double != nil:
		return fmt.Sprintf("d%v", *tv.Double)
	case tv.Int != nil:
		return fmt.Sprintf("i%d", *tv.Int)
	case tv.Literal != nil:
		return fmt.Sprintf("s%q", *tv.Literal)
	case tv.Identifier != nil:
		return "id:" + *tv.Identifier
	case tv.List != nil:
		var ps []string
		for _, e := range tv.List {
			ps = append(ps, valStr(e))
		}
		return "[" + strings.Join(ps, ",") + "]"
	case tv.Map != nil:
		var ps []string
		for _, e := range tv.Map {
			ps = append(ps, valStr(e.Key)+":"+valStr(e.Value))
		}
		return "{" + strings.Join(ps, ",") + "}"
	}
	return "?"
}

func fieldsSig(fs []*parser.Field) string {
	var ps []string
	for _, f := range fs {
		s := fmt.Sprintf("%d:%s:%s:%s", f.ID, f.Requiredness.String(), typeStr(f.Type), f.Name)
		if f.Default != nil {
			s += "=" + valStr(f.Default)
		}
		ps = append(ps, s)
	}
	return strings.Join(ps, ";")
}

func fnSig(f *parser.Function) string {
	rt := "void"
	if !f.Void {
		rt = typeStr(f.FunctionType)
	}
	s := fmt.Sprintf("%s %s(%s)", rt, f.Name, fieldsSig(f.Arguments))
	if len(f.Throws) > 0 {
		s += " throws(" + fieldsSig(f.Throws) + ")"
	}
	if f.Oneway {
		s = "oneway " + s
	}
	return s
}

func summarize(root *parser.Thrift, rel func(string) string) *treeSum {
	ts := &treeSum{}
	seen := map[*parser.Thrift]bool{}
	var walk func(t *parser.Thrift)
	walk = func(t *parser.Thrift) {
		if t == nil || seen[t] {
			return
		}
		seen[t] = true
		fs := fileSum{Path: rel(t.Filename), Includes: []string{}, Defs: []defSum{}, Svcs: []svcSum{}}
		for _, inc := range t.Includes {
			if inc.Reference != nil {
				fs.Includes = append(fs.Includes, rel(inc.Reference.Filename))
			} else {
				fs.Includes = append(fs.Includes, "?"+inc.Path)
			}
		}
		for _, d := range t.Typedefs {
			fs.Defs = append(fs.Defs, defSum{"typedef", d.Alias, typeStr(d.Type)})
		}
		for _, d := range t.Constants {
			fs.Defs = append(fs.Defs, defSum{"const", d.Name, typeStr(d.Type) + "=" + valStr(d.Value)})
		}
		for _, d := range t.Enums {
			var ps []string
			for _, v := range d.Values {
				ps = append(ps, fmt.Sprintf("%s=%d", v.Name, v.Value))
			}
			fs.Defs = append(fs.Defs, defSum{"enum", d.Name, strings.Join(ps, ",")})
		}
		for _, d := range t.Structs {
			fs.Defs = append(fs.Defs, defSum{"struct", d.Name, fieldsSig(d.Fields)})
		}
		for _, d := range t.Unions {
			fs.Defs = append(fs.Defs, defSum{"union", d.Name, fieldsSig(d.Fields)})
		}
		for _, d := range t.Exceptions {
			fs.Defs = append(fs.Defs, defSum{"exception", d.Name, fieldsSig(d.Fields)})
		}
		for _, s := range t.Services {
			ss := svcSum{Name: s.Name, Ext: s.Extends, Fns: []string{}, Sigs: []string{}}
			for _, f := range s.Functions {
				ss.Fns = append(ss.Fns, f.Name)
				ss.Sigs = append(ss.Sigs, fnSig(f))
			}
			fs.Svcs = append(fs.Svcs, ss)
		}
		ts.Files = append(ts.Files, fs)
		for _, inc := range t.Includes {
			walk(inc.Reference)
		}
	}
	walk(root)
	ts.Stale = staleRefs(root)
	if ts.Stale == nil {
		ts.Stale = []string{}
	}
	return ts
}

// staleRefs checks the resolved in-memory AST the generator would consume after trim_idl: every
// Type.Reference / Service.Reference must index an include whose IDL prefix is the prefix written in the
// name and whose file still defines that name with a fitting category; every local user type must exist.
func staleRefs(root *parser.Thrift) []string {
	var out []string
	seen := map[*parser.Thrift]bool{}
	has := func(t *parser.Thrift, name string) string {
		for _, d := range t.Typedefs {
			if d.Alias == name {
				return "typedef"
			}
		}
		for _, d := range t.Enums {
			if d.Name == name {
				return "enum"
			}
		}
		for _, d := range t.Structs {
			if d.Name == name {
				return "struct"
			}
		}
		for _, d := range t.Unions {
			if d.Name == name {
				return "union"
			}
		}
		for _, d := range t.Exceptions {
			if d.Name == name {
				return "exception"
			}
		}
		return ""
	}
	var walk func(t *parser.Thrift)
	walk = func(t *parser.Thrift) {
		if t == nil || seen[t] {
			return
		}
		seen[t] = true
		var chk func(where string, ty *parser.Type)
		chk = func(where string, ty *parser.Type) {
			if ty == nil {
				return
			}
			if ty.KeyType != nil {
				chk(where, ty.KeyType)
			}
			if ty.ValueType != nil {
				chk(where, ty.ValueType)
			}
			switch ty.Name {
			case "bool", "byte", "i8", "i16", "i32", "i64", "double", "string", "binary", "map", "list", "set", "void", "":
				return
			}
			parts := strings.Split(ty.Name, ".")
			if len(parts) == 1 {
				if ty.Reference != nil {
					out = append(out, fmt.Sprintf("%s: local type %s carries a Reference", where, ty.Name))
				}
				if has(t, ty.Name) == "" {
					out = append(out, fmt.Sprintf("%s: type %s not defined in %s", where, ty.Name, filepath.Base(t.Filename)))
				}
				return
			}
			if ty.Reference == nil {
				out = append(out, fmt.Sprintf("%s: type %s has no Reference", where, ty.Name))
				return
			}
			idx := int(ty.Reference.Index)
			if idx < 0 || idx >= len(t.Includes) {
				out = append(out, fmt.Sprintf("%s: type %s Reference.Index %d out of range (%d includes)", where, ty.Name, idx, len(t.Includes)))
				return
			}
			inc := t.Includes[idx]
			if semantic.IDLPrefix(inc.Path) != parts[0] {
				out = append(out, fmt.Sprintf("%s: type %s Reference.Index %d points at include %q", where, ty.Name, idx, inc.Path))
				return
			}
			if inc.Reference == nil || has(inc.Reference, ty.Reference.Name) == "" {
				out = append(out, fmt.Sprintf("%s: type %s not defined in include %q", where, ty.Name, inc.Path))
			}
		}
		// value references (constant values, field defaults): an identifier resolved into an include carries the
		// include's index in Extra.Index; it must be the include whose prefix is written and that defines the name
		var chkVal func(where string, v *parser.ConstValue)
		chkVal = func(where string, v *parser.ConstValue) {
			if v == nil || v.TypedValue == nil {
				return
			}
			tv := v.TypedValue
			for _, e := range tv.List {
				chkVal(where, e)
			}
			for _, e := range tv.Map {
				chkVal(where, e.Key)
				chkVal(where, e.Value)
			}
			if tv.Identifier == nil || v.Extra == nil || v.Extra.Index < 0 {
				return
			}
			id := *tv.Identifier
			parts := strings.Split(id, ".")
			idx := int(v.Extra.Index)
			if idx >= len(t.Includes) {
				out = append(out, fmt.Sprintf("%s: value %s Extra.Index %d out of range (%d includes)", where, id, idx, len(t.Includes)))
				return
			}
			inc := t.Includes[idx]
			if len(parts) >= 2 && semantic.IDLPrefix(inc.Path) != parts[0] {
				// `Typedef.VALUE` through a typedef of an included enum is written without the include prefix
				if !(v.Extra.IsEnum && len(parts) == 2) {
					out = append(out, fmt.Sprintf("%s: value %s Extra.Index %d points at include %q", where, id, idx, inc.Path))
					return
				}
			}
			if inc.Reference == nil {
				out = append(out, fmt.Sprintf("%s: value %s: include %q not parsed", where, id, inc.Path))
				return
			}
			found := false
			if v.Extra.IsEnum {
				// the enum may sit behind a typedef of the included file, in a file that one includes
				var look func(a *parser.Thrift, depth int)
				look = func(a *parser.Thrift, depth int) {
					if a == nil || depth > 4 {
						return
					}
					for _, e := range a.Enums {
						for _, ev := range e.Values {
							if ev.Name == v.Extra.Name {
								found = true
							}
						}
					}
					for _, i2 := range a.Includes {
						look(i2.Reference, depth+1)
					}
				}
				look(inc.Reference, 0)
			} else {
				for _, c := range inc.Reference.Constants {
					if c.Name == v.Extra.Name {
						found = true
					}
				}
			}
			if !found {
				out = append(out, fmt.Sprintf("%s: value %s not defined in include %q", where, id, inc.Path))
			}
		}
		for _, d := range t.Typedefs {
			chk("typedef "+d.Alias, d.Type)
		}
		for _, d := range t.Constants {
			chk("const "+d.Name, d.Type)
			chkVal("const "+d.Name, d.Value)
		}
		for _, s := range t.GetStructLikes() {
			for _, f := range s.Fields {
				chk(s.Name+"."+f.Name, f.Type)
				chkVal(s.Name+"."+f.Name+" default", f.Default)
			}
		}
		for _, s := range t.Services {
			for _, f := range s.Functions {
				if !f.Void {
					chk(s.Name+"."+f.Name+" result", f.FunctionType)
				}
				for _, a := range f.Arguments {
					chk(s.Name+"."+f.Name+" arg "+a.Name, a.Type)
				}
				for _, a := range f.Throws {
					chk(s.Name+"."+f.Name+" throws "+a.Name, a.Type)
				}
			}
			if s.Extends != "" {
				parts := strings.Split(s.Extends, ".")
				if len(parts) == 1 {
					ok := false
					for _, b := range t.Services {
						if b.Name == s.Extends {
							ok = true
						}
					}
					if !ok {
						out = append(out, fmt.Sprintf("service %s extends %s: not defined", s.Name, s.Extends))
					}
				} else if s.Reference == nil {
					out = append(out, fmt.Sprintf("service %s extends %s: no Reference", s.Name, s.Extends))
				} else {
					idx := int(s.Reference.Index)
					if idx < 0 || idx >= len(t.Includes) || semantic.IDLPrefix(t.Includes[idx].Path) != parts[0] {
						out = append(out, fmt.Sprintf("service %s extends %s: Reference.Index %d wrong", s.Name, s.Extends, idx))
					} else {
						ok := false
						if r := t.Includes[idx].Reference; r != nil {
							for _, b := range r.Services {
								if b.Name == s.Reference.Name {
									ok = true
								}
							}
						}
						if !ok {
							out = append(out, fmt.Sprintf("service %s extends %s: not defined in include", s.Name, s.Extends))
						}
					}
				}
			}
		}
		for _, inc := range t.Includes {
			walk(inc.Reference)
		}
	}
	walk(root)
	sort.Strings(out)
	return out
}

func parseCheck(mainPath string, files map[string]string) (*parser.Thrift, error) {
	ast, err := parser.ParseBatchString(mainPath, files, nil)
	if err != nil {
		return nil, fmt.Errorf("parse: %w", err)
	}
	if path := parser.CircleDetect(ast); len(path) > 0 {
		return nil, fmt.Errorf("include circle: %s", path)
	}
	checker := semantic.NewChecker(semantic.Options{FixWarnings: true})
	if _, err = checker.CheckAll(ast); err != nil {
		return nil, fmt.Errorf("check: %w", err)
	}
	if err = semantic.ResolveSymbols(ast); err != nil {
		return nil, fmt.Errorf("resolve: %w", err)
	}
	return ast, nil
}

func doTrim(ast *parser.Thrift, a trimArgs) (errStr, panicStr string) {
	arg := &trim.TrimASTArg{Ast: ast, Preserve: a.Preserve, DisablePreserveComment: a.DisableComment, MatchGoName: a.MatchGoName}
	arg.TrimMethods = append([]string(nil), a.Methods...) // TrimAST rewrites the slice in place
	arg.PreserveStructs = append([]string(nil), a.PStructs...)
	panicStr = nd.Guard(func() {
		if _, err := trim.TrimAST(arg); err != nil {
			errStr = err.Error()
		}
	})
	return
}

func dumpTree(root *parser.Thrift, rel func(string) string) (map[string]string, error) {
	out := map[string]string{}
	seen := map[*parser.Thrift]bool{}
	var walk func(t *parser.Thrift) error
	walk = func(t *parser.Thrift) error {
		if t == nil || seen[t] {
			return nil
		}
		seen[t] = true
		s, err := dump.DumpIDL(t)
		if err != nil {
			return err
		}
		out[rel(t.Filename)] = s
		for _, inc := range t.Includes {
			if err := walk(inc.Reference); err != nil {
				return err
			}
		}
		return nil
	}
	return out, walk(root)
}

func runTrimCase(c *trimCase) *trimObs {
	obs := &trimObs{ID: c.ID, Changed: []string{}, RPStale: []string{}}
	rel := func(s string) string { return s }
	ast, err := parseCheck(c.Main, c.Files)
	if err != nil {
		obs.PreErr = err.Error()
		return obs
	}
	pre := summarize(ast, rel)
	if c.Verbose {
		obs.Pre = pre
	}
	t1 := &treeSum{}
	t1.Err, t1.Panic = doTrim(ast, c.Args)
	if t1.Panic == "" {
		var s *treeSum
		if p := nd.Guard(func() { s = summarize(ast, rel) }); p != "" {
			t1.Panic = "summarize: " + p
		} else {
			s.Err = t1.Err
			t1 = s
		}
	}
	obs.T1 = t1
	if t1.Panic != "" {
		return obs
	}
	// meaning: what is left has the signature it had
	presig := sigMap(pre)
	for _, fs := range t1.Files {
		for _, d := range fs.Defs {
			if presig[fs.Path+"|"+d.K+" "+d.Name] != d.Sig {
				obs.Changed = append(obs.Changed, fs.Path+":"+d.Name)
			}
		}
		for _, s := range fs.Svcs {
			for i, f := range s.Fns {
				if presig[fs.Path+"|"+s.Name+"."+f] != s.Sigs[i] {
					obs.Changed = append(obs.Changed, fs.Path+":"+s.Name+"."+f)
				}
			}
		}
	}
	defer func() {
		if !c.Verbose {
			stripSigs(t1)
		}
	}()
	if t1.Err != "" {
		return obs
	}
	var dumped map[string]string
	if p := nd.Guard(func() { dumped, err = dumpTree(ast, rel) }); p != "" {
		obs.DumpErr = "panic: " + p
		return obs
	}
	if err != nil {
		obs.DumpErr = err.Error()
		return obs
	}
	if c.Verbose {
		obs.Dumped = dumped
	}
	ast2, err := parseCheck(c.Main, dumped)
	if err != nil {
		obs.RPErr = err.Error()
		if !c.Verbose {
			obs.Dumped = dumped // the text that was rejected is part of the observation
		}
		return obs
	}
	rp := summarize(ast2, rel)
	if c.Verbose {
		obs.RP = rp
	}
	obs.RPStale = rp.Stale
	obs.RPSame = sameSum(rp, t1)
	t2 := &treeSum{}
	t2.Err, t2.Panic = doTrim(ast2, c.Args)
	if t2.Panic != "" {
		obs.T2Err = "panic: " + t2.Panic
	} else if t2.Err != "" {
		obs.T2Err = t2.Err
	} else {
		s := summarize(ast2, rel)
		obs.T2Same = sameSum(s, rp) && len(s.Stale) == 0
		if c.Verbose {
			obs.T2 = s
		}
		d2, err := dumpTree(ast2, rel)
		if err == nil && len(d2) == len(dumped) {
			obs.SameDump = true
			for k, v := range dumped {
				if d2[k] != v {
					obs.SameDump = false
				}
			}
		}
	}
	return obs
}

// emptyWd makes in/out absolute and moves the process into a fresh empty directory (TrimAST reads
// trim_config.yaml from the working directory).
func emptyWd(in, out *string) (string, error) {
	for _, p := range []*string{in, out} {
		if *p != "-" {
			a, err := filepath.Abs(*p)
			if err != nil {
				return "", err
			}
			*p = a
		}
	}
	wd, err := os.MkdirTemp("", "verif-trim-wd")
	if err != nil {
		return "", err
	}
	return wd, os.Chdir(wd)
}

func init() {
	subcommands["trim"] = func(in, out string) error {
		wd, err := emptyWd(&in, &out)
		if err != nil {
			return err
		}
		defer os.RemoveAll(wd)
		return nd.Each(in, out, 0, func(line []byte) (interface{}, error) {
			var c trimCase
			if err := json.Unmarshal(line, &c); err != nil {
				return nil, err
			}
			if c.Yaml != nil {
				return nil, fmt.Errorf("case %d has a yaml configuration: use trimyaml", c.ID)
			}
			return runTrimCase(&c), nil
		})
	}
	subcommands["trimyaml"] = func(in, out string) error {
		wd, err := emptyWd(&in, &out)
		if err != nil {
			return err
		}
		defer os.RemoveAll(wd)
		return nd.Each(in, out, 1, func(line []byte) (interface{}, error) {
			var c trimCase
			if err := json.Unmarshal(line, &c); err != nil {
				return nil, err
			}
			cfg := filepath.Join(wd, trim.DefaultYamlFileName)
			os.Remove(cfg)
			if c.Yaml != nil {
				if err := os.WriteFile(cfg, []byte(*c.Yaml), 0o644); err != nil {
					return nil, err
				}
			}
			o := runTrimCase(&c)
			os.Remove(cfg)
			return o, nil
		})
	}
	subcommands["idlsum"] = func(in, out string) error {
		return nd.Each(in, out, 0, func(line []byte) (interface{}, error) {
			var c trimCase
			if err := json.Unmarshal(line, &c); err != nil {
				return nil, err
			}
			ts := &treeSum{}
			var ast *parser.Thrift
			var err error
			p := nd.Guard(func() { ast, err = parseCheck(c.Main, c.Files) })
			if p != "" {
				ts.Panic = p
			} else if err != nil {
				ts.Err = err.Error()
			} else {
				ts = summarize(ast, func(s string) string { return s })
			}
			return map[string]interface{}{"id": c.ID, "sum": ts}, nil
		})
	}
}
