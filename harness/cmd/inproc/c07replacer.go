package main

import (
	"encoding/json"
	"sort"
	"strings"

	"github.com/cloudwego/thriftgo/generator"
	"github.com/cloudwego/thriftgo/generator/backend"
	"github.com/cloudwego/thriftgo/plugin"

	"verifharness/pkg/nd"
)

// C07 (spec/Determinism/Replacer.tla): one file whose content is plain characters and insertion-point
// markers, one named patch per marker name.  The case is replayed `Reps` times into fresh FileManagers
// (every BuildResponse walks a new Go map in a new random order); the distinct results are reported.

type c07RepCase struct {
	Text  []string `json:"text"` // characters; "(" opens a marker name, ")" closes it
	Patch []struct {
		Name []string `json:"name"`
		Text string   `json:"text"`
	} `json:"patch"`
	Reps int `json:"reps"`
}

func init() {
	subcommands["c07replacer"] = func(in, out string) error {
		quiet := backend.LogFunc{
			Info:      func(v ...interface{}) {},
			Warn:      func(v ...interface{}) {},
			MultiWarn: func(ws []string) {},
		}
		return nd.Each(in, out, 0, func(line []byte) (interface{}, error) {
			var c c07RepCase
			if err := json.Unmarshal(line, &c); err != nil {
				return nil, err
			}
			var sb strings.Builder
			var name []string
			inName := false
			for _, ch := range c.Text {
				switch {
				case ch == "(":
					inName, name = true, nil
				case ch == ")":
					sb.WriteString(plugin.InsertionPoint(strings.Join(name, "")))
					inName = false
				case inName:
					name = append(name, ch)
				default:
					sb.WriteString(ch)
				}
			}
			content := sb.String()
			seen := map[string]int{}
			errs := 0
			panicked := ""
			for r := 0; r < c.Reps; r++ {
				p := nd.Guard(func() {
					fm := generator.NewFileManager(quiet)
					fname := "f.go"
					items := []*plugin.Generated{{Content: content, Name: &fname}}
					for _, pt := range c.Patch {
						n, ip := fname, strings.Join(pt.Name, "")
						items = append(items, &plugin.Generated{Content: pt.Text, Name: &n, InsertionPoint: &ip})
					}
					if err := fm.Feed("verif", items); err != nil {
						errs++
						return
					}
					res := fm.BuildResponse()
					if len(res.Contents) != 1 {
						errs++
						return
					}
					seen[res.Contents[0].Content]++
				})
				if p != "" {
					panicked = p
				}
			}
			var results []string
			for k := range seen {
				results = append(results, k)
			}
			sort.Strings(results)
			return map[string]interface{}{"content": content, "results": results, "errors": errs, "panic": panicked}, nil
		})
	}
}
