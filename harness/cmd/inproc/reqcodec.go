package main

import "verifharness/pkg/c11req"

// C11: `inproc reqcodec <cases> <out>` -- see pkg/c11req.
func init() { subcommands["reqcodec"] = c11req.Run }
