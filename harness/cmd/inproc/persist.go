package main

// C19: drive the real asyncPostProcess.OnFinished (generator.VerifPersist, build tag verif)
// under a controlled schedule and record what it did.
//
// Every trace point of OnFinished (the verif hook) and the harness' own points inside the
// fake PostProcessor and the write callback call run.event: it appends to ONE log under a
// mutex (so the order of the log is a real order of the append instants; no clocks), numbers
// the event per logical goroutine (0 = dispatcher, j = worker of job j), and - unless the run
// is in free mode - parks the calling goroutine until the controller releases it. The gate
// only delays; which operations execute is decided by the code under test and by the case's
// fault assignment (a function of job and step, never of the schedule).
//
// Modes
//   free    no parking; random Gosched/sleeps at every point (seeded)
//   rand    serialized: one goroutine at a time is released, chosen at random (uniform or by
//           random priorities); a released goroutine that does not reach its next point within
//           a short time is taken to be blocked and another one is released
//   replay  the TLC behaviour c.H is forced step by step: release goroutine g, wait until
//           everything is parked again, check that g arrived at the gate the model says.
//           A different outcome of the dispatcher's select where the model had both branches
//           enabled ("both") is accepted and the run continues in rand mode; any other
//           difference is "drift" (implementation model out of date) and the run continues
//           in free mode. After a prefix behaviour (state cover) the run continues in c.Tail.
//   rel     relaxed replay of a release order (re-execution of an observed run)
//
// Output per case: the layer-A events in log order (ev), the per-goroutine gate sequences for
// layer-B validation (d, w), the return value, the files the write callback stored.

import (
	"encoding/json"
	"errors"
	"fmt"
	"math/rand"
	"os"
	"path/filepath"
	"runtime"
	"strconv"
	"strings"
	"sync"
	"sync/atomic"
	"time"

	"github.com/cloudwego/thriftgo/generator"
	"github.com/cloudwego/thriftgo/generator/backend"
	"github.com/cloudwego/thriftgo/plugin"
	"github.com/cloudwego/thriftgo/utils/dir_utils"

	"verifharness/pkg/nd"
)

type hstep struct {
	G    int    `json:"g"`
	To   string `json:"to"`
	Both bool   `json:"both"`
}

type pcase struct {
	ID     int      `json:"id"`
	N      int      `json:"n"`
	K      int      `json:"k"`
	Fault  []string `json:"fault"` // per job: none | pp | wr
	Mode   string   `json:"mode"`
	Seed   int64    `json:"seed"`
	H      []hstep  `json:"h,omitempty"`
	Rel    []int    `json:"rel,omitempty"`
	Tail   string   `json:"tail,omitempty"`
	HangMs int      `json:"hang_ms,omitempty"`
	Full   bool     `json:"full,omitempty"`
	NoPP   bool     `json:"nopp,omitempty"` // p.pp == nil
	FS     *fsSpec  `json:"fs,omitempty"`   // drive Generator.Generate + Generator.Persist on a real directory
}

// fsSpec: the files go through the real Persist (path resolution, MkdirAll + WriteFile callback).
// A write fault is a real one: the parent directory is a regular file, or the path is a directory.
type fsSpec struct {
	Dir string `json:"dir"`
	Rel bool   `json:"rel"` // relative names resolved against dir_utils' global working directory
}

type logEntry struct {
	G       int    `json:"g"`
	S       int    `json:"s"`
	K       string `json:"k"`
	Path    string `json:"path,omitempty"`
	Content string `json:"content,omitempty"`
	OK      bool   `json:"ok"`
}

type aEvent struct {
	E       string `json:"e"`
	Path    string `json:"path"`
	Content string `json:"content"`
	OK      bool   `json:"ok"`
}

type jobRec struct {
	Path    string `json:"path"`
	Content string `json:"content"`
}

type fileRec struct {
	Path     string   `json:"path"`
	Contents []string `json:"contents"`
}

type presult struct {
	ID       int        `json:"id"`
	N        int        `json:"n"`
	K        int        `json:"k"`
	Jobs     []jobRec   `json:"jobs"`
	Fault    []string   `json:"fault"`
	Mode     string     `json:"mode"`
	WithPP   bool       `json:"withpp"`
	FS       bool       `json:"fs"`
	Ev       []aEvent   `json:"ev"`
	D        []string   `json:"d"`
	W        [][]string `json:"w"`
	Ret      string     `json:"ret"` // none | ok | err
	Got      int        `json:"got"` // job whose injected error was returned (0 = none, -1 = unknown error)
	Hang     bool       `json:"hang"`
	Panic    string     `json:"panic"`
	Files    []fileRec  `json:"files"`
	Followed int        `json:"followed"`
	Diverged string     `json:"diverged"`
	Rel      []int      `json:"rel"`
	Leaked   int        `json:"leaked"` // workers that had not exited shortly after the return
	Log      []logEntry `json:"log,omitempty"`
}

const (
	stRunning = iota
	stParked
	stTerm
	stBlocked // released, did not reach its next point in time: taken to be blocked in a real operation
)

var dispatcherKinds = map[string]bool{"select": true, "acquired": true, "errRecv": true, "errWaited": true,
	"spawn": true, "wait": true, "waited": true, "finalErr": true, "finalNone": true, "returned": true}
var logOnlyKinds = map[string]bool{"ppEnd": true, "wEnd": true, "exit": true, "returned": true}
var terminalKinds = map[string]bool{"exit": true, "returned": true}

type parkEntry struct {
	g    int
	kind string
	path string
	ch   chan struct{}
}

type prun struct {
	c      pcase
	mu     sync.Mutex
	log    []logEntry
	seq    map[int]int
	status map[int]int
	last   map[int]string
	parked []*parkEntry
	free   bool
	yield  bool
	rng    *rand.Rand
	files  map[string][]string
	forder []string
	wake   chan struct{}
	rel    []int
	pathOf []string
}

func (r *prun) jobOf(path string) int {
	for j := 1; j < len(r.pathOf); j++ {
		if r.pathOf[j] == path {
			return j
		}
	}
	return -1
}

func (r *prun) signal() {
	select {
	case r.wake <- struct{}{}:
	default:
	}
}

// event is the single trace point / gate.
func (r *prun) event(g int, kind, path, content string, ok bool) {
	r.mu.Lock()
	r.log = append(r.log, logEntry{G: g, S: r.seq[g], K: kind, Path: path, Content: content, OK: ok})
	r.seq[g]++
	if s, seen := r.status[g]; !seen || s == stBlocked {
		r.status[g] = stRunning
	}
	var ch chan struct{}
	arrival := kind != "ppEnd" && kind != "wEnd"
	if arrival {
		r.last[g] = kind
	}
	y := 0
	switch {
	case terminalKinds[kind]:
		r.status[g] = stTerm
	case !logOnlyKinds[kind] && !r.free:
		ch = make(chan struct{})
		r.parked = append(r.parked, &parkEntry{g: g, kind: kind, path: path, ch: ch})
		r.status[g] = stParked
	case r.free && r.yield:
		y = r.rng.Intn(12)
		if kind == "inwr" || kind == "inpp" {
			y = r.rng.Intn(5)
		}
	}
	r.mu.Unlock()
	r.signal()
	if ch != nil {
		<-ch
		return
	}
	switch y {
	case 1, 2, 3:
		runtime.Gosched()
	case 4:
		time.Sleep(time.Duration(20+r.c.Seed%7*30) * time.Microsecond)
	}
}

func (r *prun) hook(kind, path string) {
	g := 0
	if !dispatcherKinds[kind] {
		g = r.jobOf(path)
	}
	r.event(g, kind, path, "", true)
}

// PostProcess is the fake backend.PostProcessor.
func (r *prun) PostProcess(path string, content []byte) ([]byte, error) {
	j := r.jobOf(path)
	in := string(content)
	r.event(j, "inpp", path, in, true)
	if j >= 1 && r.c.Fault[j-1] == "pp" {
		r.event(j, "ppEnd", path, "", false)
		return nil, errors.New("E:pp:" + strconv.Itoa(j))
	}
	r.event(j, "ppEnd", path, "", true)
	return []byte("pp(" + in + ")"), nil
}

func (r *prun) write(path string, content []byte) error {
	j := r.jobOf(path)
	c := string(content)
	r.event(j, "inwr", path, c, true)
	if j >= 1 && r.c.Fault[j-1] == "wr" {
		r.event(j, "wEnd", path, "", false)
		return errors.New("E:wr:" + strconv.Itoa(j))
	}
	r.mu.Lock()
	if _, ok := r.files[path]; !ok {
		r.forder = append(r.forder, path)
	}
	r.files[path] = append(r.files[path], c)
	r.mu.Unlock()
	r.event(j, "wEnd", path, "", true)
	return nil
}

// ---------------------------------------------------------------- controller helpers

func (r *prun) quiescentLocked() bool {
	for _, s := range r.status {
		if s == stRunning {
			return false
		}
	}
	return true
}

// waitQuiescent waits until no known goroutine is running (all parked or finished).
func (r *prun) waitQuiescent(d time.Duration) bool {
	deadline := time.NewTimer(d)
	defer deadline.Stop()
	for {
		r.mu.Lock()
		q := r.quiescentLocked()
		r.mu.Unlock()
		if q {
			return true
		}
		select {
		case <-r.wake:
		case <-deadline.C:
			r.mu.Lock()
			q := r.quiescentLocked()
			r.mu.Unlock()
			return q
		}
	}
}

// waitChange waits until the log grows beyond n entries.
func (r *prun) waitChange(n int, d time.Duration) bool {
	deadline := time.NewTimer(d)
	defer deadline.Stop()
	for {
		r.mu.Lock()
		l := len(r.log)
		r.mu.Unlock()
		if l > n {
			return true
		}
		select {
		case <-r.wake:
		case <-deadline.C:
			return false
		}
	}
}

func (r *prun) takeParked(g int) *parkEntry {
	r.mu.Lock()
	defer r.mu.Unlock()
	for i, pe := range r.parked {
		if pe.g == g {
			r.parked = append(r.parked[:i:i], r.parked[i+1:]...)
			return pe
		}
	}
	return nil
}

func (r *prun) waitParked(g int, d time.Duration) *parkEntry {
	deadline := time.NewTimer(d)
	defer deadline.Stop()
	for {
		if pe := r.takeParked(g); pe != nil {
			return pe
		}
		select {
		case <-r.wake:
		case <-deadline.C:
			return r.takeParked(g)
		}
	}
}

func (r *prun) release(pe *parkEntry) {
	r.mu.Lock()
	r.status[pe.g] = stRunning
	for _, o := range r.parked {
		if o.g == pe.g {
			r.status[pe.g] = stParked
		}
	}
	if pe.kind == "spawn" {
		if j := r.jobOf(pe.path); j >= 1 {
			if _, seen := r.status[j]; !seen {
				r.status[j] = stRunning // the goroutine about to be started
			}
		}
	}
	r.rel = append(r.rel, pe.g)
	r.mu.Unlock()
	close(pe.ch)
}

func (r *prun) setFree(yield bool) {
	r.mu.Lock()
	r.free = true
	r.yield = yield
	ps := r.parked
	r.parked = nil
	for _, pe := range ps {
		r.status[pe.g] = stRunning
	}
	r.mu.Unlock()
	for _, pe := range ps {
		close(pe.ch)
	}
}

func (r *prun) term(g int) bool {
	r.mu.Lock()
	defer r.mu.Unlock()
	return r.status[g] == stTerm
}

const shortWait = 300 * time.Microsecond

// randLoop: serialized random scheduling until the dispatcher has returned. false = hang.
func (r *prun) randLoop(hang time.Duration) bool {
	prio := map[int]int{}
	usePrio := r.rng.Intn(2) == 0
	for g := 0; g <= r.c.N; g++ {
		prio[g] = r.rng.Intn(1000)
	}
	for {
		q := r.waitQuiescent(shortWait)
		if r.term(0) {
			return true
		}
		r.mu.Lock()
		if !q {
			for g, s := range r.status {
				if s == stRunning {
					r.status[g] = stBlocked
				}
			}
		}
		np := len(r.parked)
		var pick *parkEntry
		if np > 0 {
			idx := r.rng.Intn(np)
			if usePrio && r.rng.Intn(100) >= 15 {
				for i, pe := range r.parked {
					if prio[pe.g] > prio[r.parked[idx].g] {
						idx = i
					}
				}
			}
			if usePrio && r.rng.Intn(100) < 10 {
				prio[r.parked[idx].g] = r.rng.Intn(1000) // priority change point
			}
			pick = r.parked[idx]
			r.parked = append(r.parked[:idx:idx], r.parked[idx+1:]...)
		}
		n := len(r.log)
		r.mu.Unlock()
		if pick != nil {
			r.release(pick)
			continue
		}
		// nothing parked: the running goroutines are slow or blocked on each other
		if !r.waitChange(n, hang) {
			return r.term(0)
		}
	}
}

func runPersistCase(c pcase) presult {
	if len(c.Fault) < c.N {
		f := make([]string, c.N)
		copy(f, c.Fault)
		c.Fault = f
	}
	hang := time.Duration(c.HangMs) * time.Millisecond
	if hang <= 0 {
		hang = 8 * time.Second
	}
	// a forced step that does not complete means the model no longer describes the code (drift);
	// once that has happened a few times in this batch, stop paying the full wait for it
	stepWait := 10 * time.Second
	if atomic.LoadInt64(&stallCount) >= 16 {
		stepWait = 25 * time.Millisecond
	}
	r := &prun{c: c, seq: map[int]int{}, status: map[int]int{0: stRunning}, last: map[int]string{},
		rng: rand.New(rand.NewSource(c.Seed*7919 + int64(c.ID))), files: map[string][]string{},
		wake: make(chan struct{}, 1), pathOf: make([]string, c.N+1)}
	jobs := make([][2]string, c.N)
	res := presult{ID: c.ID, N: c.N, K: c.K, Fault: c.Fault, Mode: c.Mode, Jobs: []jobRec{}, WithPP: !c.NoPP, FS: c.FS != nil}
	var fsx *fsRun
	if c.FS != nil {
		var err error
		if fsx, err = prepareFS(c); err != nil {
			res.Panic = "harness: " + err.Error()
			return res
		}
		defer fsx.restore()
	}
	for j := 1; j <= c.N; j++ {
		r.pathOf[j] = "f" + strconv.Itoa(j)
		jobs[j-1] = [2]string{r.pathOf[j], "c" + strconv.Itoa(j)}
		if fsx != nil {
			r.pathOf[j] = fsx.full[j]
		}
		res.Jobs = append(res.Jobs, jobRec{Path: r.pathOf[j], Content: jobs[j-1][1]})
	}
	if c.Mode == "free" {
		r.free, r.yield = true, true
	}
	var retErr error
	var panicked atomic.Value
	done := make(chan struct{})
	go func() {
		defer close(done)
		p := nd.Guard(func() {
			switch {
			case fsx != nil:
				retErr = fsx.call(r)
			case c.NoPP:
				retErr = generator.VerifPersist(nil, c.K, jobs, r.write, r.hook)
			default:
				retErr = generator.VerifPersist(r, c.K, jobs, r.write, r.hook)
			}
		})
		if p != "" {
			panicked.Store(p)
		}
		r.event(0, "returned", "", "", retErr == nil && p == "")
	}()

	ok := true // false = no return within the watchdog
	switch c.Mode {
	case "free":
	case "rand":
		ok = r.randLoop(hang)
	case "rel":
		r.waitQuiescent(stepWait)
		for _, g := range c.Rel {
			if r.term(0) {
				break
			}
			if pe := r.waitParked(g, shortWait); pe != nil {
				r.release(pe)
				r.waitQuiescent(shortWait)
			}
		}
		ok = r.randLoop(hang)
	case "replay":
		tail := c.Tail
		if !r.waitQuiescent(stepWait) {
			res.Diverged, tail = "drift", "free"
		} else {
			for _, st := range c.H {
				pe := r.takeParked(st.G)
				if pe == nil {
					res.Diverged, tail = "drift", "free"
					break
				}
				r.release(pe)
				if !r.waitQuiescent(stepWait) {
					res.Diverged, tail = "drift", "free"
					atomic.AddInt64(&stallCount, 1)
					break
				}
				r.mu.Lock()
				last := r.last[st.G]
				r.mu.Unlock()
				if last != st.To {
					if st.Both && (last == "acquired" || last == "errRecv") {
						res.Diverged, tail = "select", "rand"
					} else {
						res.Diverged, tail = "drift", "free"
					}
					break
				}
				res.Followed++
			}
		}
		if !r.term(0) {
			if tail == "rand" {
				ok = r.randLoop(hang)
			} else {
				r.setFree(true)
			}
		}
	}
	if ok {
		select {
		case <-done:
		case <-time.After(hang):
			ok = false
		}
	}
	// the call is over (or hung): let everything that is still parked run, give started
	// workers a moment to finish, then take the snapshot
	r.setFree(false)
	if ok {
		deadline := time.Now().Add(300 * time.Millisecond)
		for {
			r.mu.Lock()
			leaked := 0
			for g, s := range r.status {
				if g != 0 && s != stTerm {
					leaked++
				}
			}
			r.mu.Unlock()
			res.Leaked = leaked
			if leaked == 0 || time.Now().After(deadline) {
				break
			}
			select {
			case <-r.wake:
			case <-time.After(2 * time.Millisecond):
			}
		}
	}
	r.mu.Lock()
	defer r.mu.Unlock()
	res.Hang = !ok
	res.Ret = "none"
	if ok {
		res.Ret = "ok"
		if retErr != nil {
			res.Ret = "err"
			res.Got = -1
			if parts := strings.Split(retErr.Error(), ":"); len(parts) == 3 && parts[0] == "E" {
				if j, e := strconv.Atoi(parts[2]); e == nil {
					res.Got = j
				}
			}
		}
	}
	if p, _ := panicked.Load().(string); p != "" {
		res.Panic = p
	}
	res.Ev = []aEvent{}
	res.D = []string{}
	res.W = make([][]string, c.N)
	for j := range res.W {
		res.W[j] = []string{}
	}
	for _, e := range r.log {
		switch e.K {
		case "inpp":
			res.Ev = append(res.Ev, aEvent{E: "ppBegin", Path: e.Path, Content: e.Content})
		case "ppEnd":
			res.Ev = append(res.Ev, aEvent{E: "ppEnd", Path: e.Path, OK: e.OK})
			if fsx != nil && e.OK {
				// earliest point at which the real write callback can start
				res.Ev = append(res.Ev, aEvent{E: "wBegin", Path: e.Path, Content: fsx.onDisk(e.Path, e.G)})
			}
		case "start":
			if fsx != nil && c.NoPP { // no post-processor: the write callback can start right away
				res.Ev = append(res.Ev, aEvent{E: "wBegin", Path: e.Path, Content: fsx.onDisk(e.Path, e.G)})
			}
		case "writeDone":
			if fsx != nil { // the real write callback has returned
				res.Ev = append(res.Ev, aEvent{E: "wEnd", Path: e.Path, OK: e.G >= 1 && e.G <= c.N && c.Fault[e.G-1] != "wr"})
			}
		case "inwr":
			res.Ev = append(res.Ev, aEvent{E: "wBegin", Path: e.Path, Content: e.Content})
		case "wEnd":
			res.Ev = append(res.Ev, aEvent{E: "wEnd", Path: e.Path, OK: e.OK})
		case "returned":
			res.Ev = append(res.Ev, aEvent{E: "ret", OK: e.OK})
		}
		if e.K == "ppEnd" || e.K == "wEnd" {
			continue
		}
		if e.G == 0 {
			res.D = append(res.D, e.K)
		} else if e.G >= 1 && e.G <= c.N {
			res.W[e.G-1] = append(res.W[e.G-1], e.K)
		} else {
			res.D = append(res.D, "?"+e.K) // event of an unknown path: no model behaviour has it
		}
	}
	res.Files = []fileRec{}
	for _, p := range r.forder {
		res.Files = append(res.Files, fileRec{Path: p, Contents: append([]string{}, r.files[p]...)})
	}
	if fsx != nil {
		res.Files = fsx.tree()
	}
	res.Rel = append([]int{}, r.rel...)
	if c.Mode == "free" || len(res.Rel) == 0 {
		// derive a release order from the arrival order (first arrival of a goroutine needs no release)
		seen := map[int]bool{}
		for _, e := range r.log {
			if e.K == "ppEnd" || e.K == "wEnd" {
				continue
			}
			if seen[e.G] {
				res.Rel = append(res.Rel, e.G)
			}
			seen[e.G] = true
		}
	}
	if c.Full {
		res.Log = append([]logEntry{}, r.log...)
	}
	return res
}

// ---------------------------------------------------------------- real file system

type fsRun struct {
	c        pcase
	dir      string
	names    []string // as handed to the generator (1-based)
	full     []string // as Persist resolves them = what the hook reports (1-based)
	abs      []string
	obstacle map[string]bool
	oldProcs int
}

func prepareFS(c pcase) (*fsRun, error) {
	f := &fsRun{c: c, dir: c.FS.Dir, names: make([]string, c.N+1), full: make([]string, c.N+1),
		abs: make([]string, c.N+1), obstacle: map[string]bool{}}
	if err := os.MkdirAll(f.dir, 0o755); err != nil {
		return nil, err
	}
	dir_utils.SetGlobalwd("")
	if c.FS.Rel {
		dir_utils.SetGlobalwd(f.dir)
	}
	for j := 1; j <= c.N; j++ {
		rel := fmt.Sprintf("d%d/sub/f%d.go", j, j)
		f.abs[j] = filepath.Join(f.dir, rel)
		if c.FS.Rel {
			wd, err := dir_utils.Getwd()
			if err != nil {
				return nil, err
			}
			f.names[j] = rel
			f.full[j] = filepath.Join(wd, rel)
		} else {
			f.names[j] = f.abs[j]
			f.full[j] = f.abs[j]
		}
		if c.Fault[j-1] == "wr" {
			if j%2 == 1 { // MkdirAll fails: a path component is a regular file
				o := filepath.Join(f.dir, fmt.Sprintf("d%d", j))
				if err := os.WriteFile(o, []byte("obstacle"), 0o644); err != nil {
					return nil, err
				}
				f.obstacle[o] = true
			} else { // WriteFile fails: the path is a directory
				if err := os.MkdirAll(f.abs[j], 0o755); err != nil {
					return nil, err
				}
			}
		}
	}
	k := c.K
	if k < 1 {
		k = 1
	}
	f.oldProcs = runtime.GOMAXPROCS(k) // newAsyncPostProcess takes its concurrency from here
	return f, nil
}

func (f *fsRun) restore() {
	runtime.GOMAXPROCS(f.oldProcs)
	generator.VerifPersistHook = nil
	dir_utils.SetGlobalwd("")
}

type fsBackend struct {
	r *prun
	f *fsRun
}

func (b *fsBackend) Name() string                              { return "verif" }
func (b *fsBackend) Lang() string                              { return "verif" }
func (b *fsBackend) Options() []plugin.Option                  { return nil }
func (b *fsBackend) BuiltinPlugins() []*plugin.Desc            { return nil }
func (b *fsBackend) GetPlugin(desc *plugin.Desc) plugin.Plugin { return nil }
func (b *fsBackend) Generate(req *plugin.Request, log backend.LogFunc) *plugin.Response {
	res := plugin.NewResponse()
	for j := 1; j <= b.f.c.N; j++ {
		name := b.f.names[j]
		res.Contents = append(res.Contents, &plugin.Generated{Name: &name, Content: "c" + strconv.Itoa(j)})
	}
	return res
}

type fsBackendPP struct{ fsBackend }

func (b *fsBackendPP) PostProcess(path string, content []byte) ([]byte, error) {
	return b.r.PostProcess(path, content)
}

func (f *fsRun) call(r *prun) error {
	generator.VerifPersistHook = r.hook
	g := &generator.Generator{}
	var be backend.Backend = &fsBackendPP{fsBackend{r: r, f: f}}
	if f.c.NoPP {
		be = &fsBackend{r: r, f: f}
	}
	if err := g.RegisterBackend(be); err != nil {
		return err
	}
	res := g.Generate(&generator.Arguments{Out: &generator.LangSpec{Language: "verif"}, Req: plugin.NewRequest(),
		Log: backend.DummyLogFunc()})
	return g.Persist(res)
}

// onDisk: what is stored under the job's path when all is over (the expected content if there
// is no such file, so that the absence shows up in the file comparison, not as a content error).
func (f *fsRun) onDisk(path string, g int) string {
	want := "c" + strconv.Itoa(g)
	if !f.c.NoPP {
		want = "pp(" + want + ")"
	}
	if g < 1 || g > f.c.N {
		return want
	}
	if st, err := os.Stat(f.abs[g]); err == nil && st.Mode().IsRegular() {
		if b, err := os.ReadFile(f.abs[g]); err == nil {
			return string(b)
		}
	}
	return want
}

func (f *fsRun) tree() []fileRec {
	out := []fileRec{}
	filepath.Walk(f.dir, func(p string, info os.FileInfo, err error) error {
		if err != nil || !info.Mode().IsRegular() || f.obstacle[p] {
			return nil
		}
		name := p
		for j := 1; j <= f.c.N; j++ {
			if f.abs[j] == p {
				name = f.full[j]
			}
		}
		b, _ := os.ReadFile(p)
		out = append(out, fileRec{Path: name, Contents: []string{string(b)}})
		return nil
	})
	return out
}

// hangBudget stops a batch from spending minutes in watchdogs when the code under test
// deadlocks systematically: after this many hung cases the rest is skipped (reported).
var hangCount int64
var stallCount int64

func init() {
	subcommands["persist"] = func(in, out string) error {
		return nd.Each(in, out, 0, func(line []byte) (interface{}, error) {
			var c pcase
			if err := json.Unmarshal(line, &c); err != nil {
				return nil, err
			}
			if c.N < 0 || c.N > 64 {
				return nil, fmt.Errorf("bad n")
			}
			if atomic.LoadInt64(&hangCount) >= 8 {
				return map[string]interface{}{"id": c.ID, "skipped": true}, nil
			}
			if c.FS != nil {
				return nil, fmt.Errorf("fs cases need the persistfs subcommand (one at a time)")
			}
			res := runPersistCase(c)
			if res.Hang {
				atomic.AddInt64(&hangCount, 1)
			}
			return res, nil
		})
	}
	// persistfs: process-global state is involved (GOMAXPROCS, the package-level hook variable,
	// dir_utils' global working directory): one case at a time.
	subcommands["persistfs"] = func(in, out string) error {
		return nd.Each(in, out, 1, func(line []byte) (interface{}, error) {
			var c pcase
			if err := json.Unmarshal(line, &c); err != nil {
				return nil, err
			}
			if c.FS == nil || c.FS.Dir == "" || c.N < 0 || c.N > 64 {
				return nil, fmt.Errorf("bad fs case")
			}
			if atomic.LoadInt64(&hangCount) >= 4 {
				return map[string]interface{}{"id": c.ID, "skipped": true}, nil
			}
			res := runPersistCase(c)
			if res.Hang {
				atomic.AddInt64(&hangCount, 1)
			}
			return res, nil
		})
	}
}
