package main

import (
	"bufio"
	"encoding/json"
	"fmt"
	"io"
	"log"
	"os"
	"reflect"
	"sort"
	"strings"

	"github.com/cloudwego/thriftgo/args"
	"github.com/cloudwego/thriftgo/generator/backend"
	"github.com/cloudwego/thriftgo/generator/golang"
	"github.com/cloudwego/thriftgo/generator/golang/styles"
	"github.com/cloudwego/thriftgo/generator/golang/templates"
	"github.com/cloudwego/thriftgo/plugin"

	"verifharness/pkg/nd"
)

// C20: `inproc options <cases.ndjson> <out.ndjson>`
//
// Every input line is one request, executed SEQUENTIALLY in this process (the naming-style
// objects of thriftgo are process-wide singletons, see resetSingletons):
//
//	{"op":"dump"}                          the option table of the real backend and friends
//	{"op":"case","level":"backend","args":[...]}   fresh NewCodeUtils -> HandleOptions(args)
//	{"op":"case","level":"cli","args":[...]}       args.Arguments{Langs:["go:a,b"]}.Targets() -> Pack ->
//	                                               fresh NewCodeUtils -> HandleOptions (what the binary does)
//	{"op":"leak","first":[...],"second":[...]}     two -g targets in one run: Targets() over both, then
//	                                               backend 1, backend 2; observes backend 2
//
// A request may carry "noreset":true: the singletons are then NOT put back to their pristine
// state before the case (used to detect leakage between cases).
//
// The table feature key -> Go field of golang.Features is written down here by hand (DESIGN 6 C20):
// swapping two struct tags in Features must not be invisible.  Keys that are not in the table
// (options added after this was written) are resolved through the struct tag.
var featureField = map[string]string{
	"json_enum_as_text":               "MarshalEnumToText",
	"enum_marshal":                    "MarshalEnum",
	"enum_unmarshal":                  "UnmarshalEnum",
	"gen_setter":                      "GenerateSetter",
	"gen_db_tag":                      "GenDatabaseTag",
	"omitempty_for_optional":          "GenOmitEmptyTag",
	"use_type_alias":                  "TypedefAsTypeAlias",
	"validate_set":                    "ValidateSet",
	"value_type_in_container":         "ValueTypeForSIC",
	"scan_value_for_enum":             "ScanValueForEnum",
	"reorder_fields":                  "ReorderFields",
	"typed_enum_string":               "TypedEnumString",
	"keep_unknown_fields":             "KeepUnknownFields",
	"gen_deep_equal":                  "GenDeepEqual",
	"compatible_names":                "CompatibleNames",
	"reserve_comments":                "ReserveComments",
	"nil_safe":                        "NilSafe",
	"frugal_tag":                      "FrugalTag",
	"unescape_double_quote":           "EscapeDoubleInTag",
	"gen_type_meta":                   "GenerateTypeMeta",
	"gen_json_tag":                    "GenerateJSONTag",
	"always_gen_json_tag":             "AlwaysGenerateJSONTag",
	"snake_style_json_tag":            "SnakeTyleJSONTag",
	"lower_camel_style_json_tag":      "LowerCamelCaseJSONTag",
	"with_reflection":                 "WithReflection",
	"enum_as_int_32":                  "EnumAsINT32",
	"code_ref_slim":                   "CodeRefSlim",
	"code_ref":                        "CodeRef",
	"exp_code_ref":                    "ExpCodeRef",
	"keep_code_ref_name":              "KeepCodeRefName",
	"trim_idl":                        "TrimIDL",
	"enable_nested_struct":            "EnableNestedStruct",
	"json_stringer":                   "JSONStringer",
	"with_field_mask":                 "WithFieldMask",
	"field_mask_halfway":              "FieldMaskHalfway",
	"field_mask_zero_required":        "FieldMaskZeroRequired",
	"thrift_streaming":                "ThriftStreaming",
	"no_default_serdes":               "NoDefaultSerdes",
	"no_alias_type_reflection_method": "NoAliasTypeReflectionMethod",
	"enable_ref_interface":            "EnableRefInterface",
	"use_option":                      "UseOption",
	"streamx":                         "StreamX",
	"no_fmt":                          "NoFmt",
	"skip_empty":                      "SkipEmpty",
	"no_processor":                    "NoProcessor",
	"get_enum_annotation":             "GetEnumAnnotation",
	"apache_warning":                  "ApacheWarning",
	"apache_adaptor":                  "ApacheAdaptor",
	"skip_go_gen":                     "SkipGoGen",
}

// names whose spelling the initialism correction changes; one per documented behaviour
var identProbes = []string{"user_url", "id", "http_api"}

type optReq struct {
	Op      string   `json:"op"`
	Level   string   `json:"level,omitempty"`
	Args    []string `json:"args,omitempty"`
	First   []string `json:"first,omitempty"`
	Second  []string `json:"second,omitempty"`
	NoReset bool     `json:"noreset,omitempty"`
}

type optObs struct {
	Err      *string           `json:"err"`             // error of HandleOptions (nil = accepted)
	TErr     *string           `json:"terr,omitempty"`  // error of Targets() (cli level)
	Panic    string            `json:"panic,omitempty"` // panic anywhere
	Unmapped map[string]bool   `json:"unmapped,omitempty"` // fields of Features no feature key maps to
	Feat     map[string]bool   `json:"feat"`            // feature key -> value through the hand-written table
	Missing  []string          `json:"missing"`         // keys whose Go field does not exist
	Template string            `json:"template"`
	Style    string            `json:"style"`
	Ident    map[string]string `json:"ident"` // observable behaviour of the naming style
	Prefix   string            `json:"prefix"`
	Repl     map[string]string `json:"repl"`              // import replacements (nil when not observable)
	CliOpts  []string          `json:"cliopts,omitempty"` // option list after Targets() (cli level)
}

// resetSingletons puts the process-wide naming style objects back into the state they have
// at process start (initialism correction enabled = zero value of each style).
func resetSingletons() {
	for _, n := range styles.NamingStyles() {
		if s := styles.NewNamingStyle(n); s != nil {
			s.UseInitialisms(true)
		}
	}
}

func tagKey(f reflect.StructField) string {
	return strings.SplitN(string(f.Tag), ":", 2)[0]
}

func observe(cu *golang.CodeUtils, keys []string, o *optObs) {
	fs := cu.Features()
	v := reflect.ValueOf(fs)
	t := v.Type()
	fields := map[string]bool{} // every field of Features by Go name
	byTag := map[string]string{}
	for i := 0; i < t.NumField(); i++ {
		if v.Field(i).Kind() == reflect.Bool {
			fields[t.Field(i).Name] = v.Field(i).Bool()
		}
		byTag[tagKey(t.Field(i))] = t.Field(i).Name
	}
	o.Feat = map[string]bool{}
	o.Missing = []string{}
	used := map[string]bool{}
	for _, k := range keys {
		fn, ok := featureField[k]
		if !ok {
			fn, ok = byTag[k]
		}
		if val, ok2 := fields[fn]; ok && ok2 {
			o.Feat[k] = val
			used[fn] = true
		} else {
			o.Missing = append(o.Missing, k)
		}
	}
	for fn, val := range fields {
		if !used[fn] {
			if o.Unmapped == nil {
				o.Unmapped = map[string]bool{}
			}
			o.Unmapped[fn] = val
		}
	}
	o.Template = cu.Template()
	if ns := cu.NamingStyle(); ns != nil {
		o.Style = ns.Name()
	}
	o.Ident = map[string]string{}
	for _, p := range identProbes {
		s, err := cu.Identify(p)
		if err != nil {
			s = "!" + err.Error()
		}
		o.Ident[p] = s
	}
	o.Prefix = cu.GetPackagePrefix()
	// importReplace is unexported: read it through reflection (reading is permitted)
	rv := reflect.ValueOf(cu).Elem().FieldByName("importReplace")
	if rv.IsValid() && rv.Kind() == reflect.Map && rv.Type().Key().Kind() == reflect.String &&
		rv.Type().Elem().Kind() == reflect.String {
		o.Repl = map[string]string{}
		it := rv.MapRange()
		for it.Next() {
			o.Repl[it.Key().String()] = it.Value().String()
		}
	}
}

func handle(argv []string, keys []string, o *optObs) {
	cu := golang.NewCodeUtils(backend.DummyLogFunc())
	if err := cu.HandleOptions(argv); err != nil {
		s := err.Error()
		o.Err = &s
	}
	observe(cu, keys, o)
}

func cliTargets(lists ...[]string) ([][]string, error) {
	a := &args.Arguments{}
	for _, l := range lists {
		s := "go"
		if len(l) > 0 {
			s += ":" + strings.Join(l, ",")
		}
		a.Langs = append(a.Langs, s)
	}
	specs, err := a.Targets()
	if err != nil {
		return nil, err
	}
	var out [][]string
	for _, sp := range specs {
		out = append(out, plugin.Pack(sp.Options))
	}
	return out, nil
}

func optDump() map[string]interface{} {
	b := new(golang.GoBackend)
	var table []map[string]interface{}
	for _, o := range b.Options() {
		table = append(table, map[string]interface{}{"name": o.Name, "desc": o.Desc})
	}
	t := reflect.TypeOf(golang.Features{})
	var fields []map[string]string
	for i := 0; i < t.NumField(); i++ {
		fields = append(fields, map[string]string{"field": t.Field(i).Name, "tag": tagKey(t.Field(i))})
	}
	var tpls []string
	for k := range templates.Alternative() {
		tpls = append(tpls, k)
	}
	sort.Strings(tpls)
	// value of doInitialisms in a fresh CodeUtils: by reflection, else by behaviour
	resetSingletons()
	cu := golang.NewCodeUtils(backend.DummyLogFunc())
	var doInit interface{}
	if f := reflect.ValueOf(cu).Elem().FieldByName("doInitialisms"); f.IsValid() && f.Kind() == reflect.Bool {
		doInit = f.Bool()
	}
	// behavioural: re-apply the initialism setting of the fresh CodeUtils to another style
	var doInitBehav interface{}
	if st := styles.NewNamingStyle("apache"); st != nil {
		cu.SetNamingStyle(st)
		s, _ := cu.Identify("user_url")
		doInitBehav = s == "UserURL"
	}
	resetSingletons()
	fm := map[string]string{}
	for k, v := range featureField {
		fm[k] = v
	}
	return map[string]interface{}{
		"table": table, "fields": fields, "styles": styles.NamingStyles(), "templates": tpls,
		"doInitialisms": doInit, "doInitialismsBehav": doInitBehav,
		"defaultThriftLib": golang.DefaultThriftLib, "featureField": fm,
	}
}

func init() {
	subcommands["options"] = func(in, out string) error {
		log.SetOutput(io.Discard)
		fi, err := os.Open(in)
		if err != nil {
			return err
		}
		defer fi.Close()
		fo, err := os.Create(out)
		if err != nil {
			return err
		}
		defer fo.Close()
		bw := bufio.NewWriterSize(fo, 1<<20)
		defer bw.Flush()
		sc := bufio.NewScanner(fi)
		sc.Buffer(make([]byte, 1<<20), 1<<26)
		// the feature keys to report: hand table + every tag of the real struct
		keyset := map[string]bool{}
		for k := range featureField {
			keyset[k] = true
		}
		t := reflect.TypeOf(golang.Features{})
		for i := 0; i < t.NumField(); i++ {
			keyset[tagKey(t.Field(i))] = true
		}
		var keys []string
		for k := range keyset {
			keys = append(keys, k)
		}
		sort.Strings(keys)
		n := 0
		for sc.Scan() {
			line := sc.Bytes()
			if len(line) == 0 {
				continue
			}
			n++
			var r optReq
			if err := json.Unmarshal(line, &r); err != nil {
				return fmt.Errorf("line %d: %w", n, err)
			}
			var res interface{}
			switch r.Op {
			case "dump":
				res = optDump()
			case "case":
				if !r.NoReset {
					resetSingletons()
				}
				o := &optObs{}
				o.Panic = nd.Guard(func() {
					switch r.Level {
					case "cli":
						ls, err := cliTargets(r.Args)
						if err != nil {
							s := err.Error()
							o.TErr = &s
							return
						}
						o.CliOpts = ls[0]
						handle(ls[0], keys, o)
					default:
						handle(r.Args, keys, o)
					}
				})
				res = o
			case "leak":
				if !r.NoReset {
					resetSingletons()
				}
				first, second := &optObs{}, &optObs{}
				second.Panic = nd.Guard(func() {
					ls, err := cliTargets(r.First, r.Second)
					if err != nil {
						s := err.Error()
						second.TErr = &s
						return
					}
					first.CliOpts = ls[0]
					handle(ls[0], keys, first) // backend of target 1 (generates before target 2 starts)
					second.CliOpts = ls[1]
					handle(ls[1], keys, second) // backend of target 2
				})
				res = map[string]*optObs{"first": first, "second": second}
			default:
				return fmt.Errorf("line %d: unknown op %q", n, r.Op)
			}
			b, err := json.Marshal(res)
			if err != nil {
				return err
			}
			bw.Write(b)
			bw.WriteByte('\n')
		}
		return sc.Err()
	}
}
