package main

import (
	"encoding/json"
	"fmt"
	"os"
	"path/filepath"
	"strconv"
	"time"

	"github.com/cloudwego/thriftgo/parser"

	"verifharness/pkg/nd"
)

// Include binding (spec/Include): materialize the directory tree of a case, make the case's working
// directory the process working directory, run parser.ParseFile(main, incdirs, true) and
// parser.ParseBatchString on the same files, and record the graph of trees reachable from the result:
// one node per distinct *parser.Thrift pointer with its Filename and, per include, the node its
// Reference points to; plus what CircleDetect says.  Errors, panics and time-outs are observations.

type inclCase struct {
	ID      json.RawMessage   `json:"id"`
	Cwd     string            `json:"cwd"`     // relative to the case root
	Files   map[string]string `json:"files"`   // path relative to the case root -> text
	IncDirs []string          `json:"incdirs"` // as given on the command line (relative to cwd)
	Main    string            `json:"main"`    // as given on the command line (relative to cwd)
	Batch   bool              `json:"batch"`
}

type inclNode struct {
	Name string `json:"name"`
	Refs []int  `json:"refs"`
}

type inclObs struct {
	Skip   bool       `json:"skip"`
	Err    bool       `json:"err"`
	Msg    string     `json:"msg,omitempty"`
	Stage  string     `json:"stage"` // ok | error | panic | timeout
	Cycle  bool       `json:"cycle"`
	Circle string     `json:"circle,omitempty"`
	Nodes  []inclNode `json:"nodes"`
}

type inclOut struct {
	ID    json.RawMessage `json:"id"`
	File  *inclObs        `json:"file"`
	Batch *inclObs        `json:"batch"`
}

func inclGraph(ast *parser.Thrift) []inclNode {
	idx := map[*parser.Thrift]int{}
	var order []*parser.Thrift
	var walk func(t *parser.Thrift)
	walk = func(t *parser.Thrift) {
		if t == nil {
			return
		}
		if _, ok := idx[t]; ok {
			return
		}
		idx[t] = len(order)
		order = append(order, t)
		for _, inc := range t.Includes {
			walk(inc.Reference)
		}
	}
	walk(ast)
	nodes := make([]inclNode, len(order))
	for i, t := range order {
		n := inclNode{Name: filepath.ToSlash(t.Filename), Refs: []int{}}
		for _, inc := range t.Includes {
			if inc.Reference == nil {
				n.Refs = append(n.Refs, -1)
			} else {
				n.Refs = append(n.Refs, idx[inc.Reference])
			}
		}
		nodes[i] = n
	}
	return nodes
}

func inclObserve(f func() (*parser.Thrift, error)) *inclObs {
	obs := &inclObs{Stage: "ok", Nodes: []inclNode{}}
	done := make(chan struct{})
	go func() {
		defer close(done)
		p := nd.Guard(func() {
			ast, err := f()
			if err != nil {
				obs.Err, obs.Msg, obs.Stage = true, err.Error(), "error"
				return
			}
			obs.Nodes = inclGraph(ast)
			obs.Circle = parser.CircleDetect(ast)
			obs.Cycle = obs.Circle != ""
		})
		if p != "" {
			obs.Stage, obs.Msg = "panic", p
		}
	}()
	select {
	case <-done:
	case <-time.After(20 * time.Second):
		return &inclObs{Stage: "timeout", Msg: "did not return within 20s", Nodes: []inclNode{}}
	}
	return obs
}

func runIncl(root string, c *inclCase) (*inclOut, error) {
	for rel, text := range c.Files {
		p := filepath.Join(root, filepath.FromSlash(rel))
		if err := os.MkdirAll(filepath.Dir(p), 0o755); err != nil {
			return nil, err
		}
		if err := os.WriteFile(p, []byte(text), 0o644); err != nil {
			return nil, err
		}
	}
	cwd := filepath.Join(root, filepath.FromSlash(c.Cwd))
	if err := os.MkdirAll(cwd, 0o755); err != nil {
		return nil, err
	}
	if err := os.Chdir(cwd); err != nil {
		return nil, err
	}
	incs := make([]string, len(c.IncDirs))
	for i, d := range c.IncDirs {
		incs[i] = filepath.FromSlash(d)
	}
	out := &inclOut{ID: c.ID}
	out.File = inclObserve(func() (*parser.Thrift, error) {
		return parser.ParseFile(filepath.FromSlash(c.Main), incs, true)
	})
	if c.Batch {
		m := map[string]string{}
		for rel, text := range c.Files {
			r, err := filepath.Rel(cwd, filepath.Join(root, filepath.FromSlash(rel)))
			if err != nil {
				return nil, err
			}
			m[r] = text
		}
		out.Batch = inclObserve(func() (*parser.Thrift, error) {
			return parser.ParseBatchString(filepath.FromSlash(c.Main), m, incs)
		})
	} else {
		out.Batch = &inclObs{Skip: true, Nodes: []inclNode{}}
	}
	return out, nil
}

func init() {
	subcommands["incl"] = func(in, out string) error {
		if in != "-" {
			in, _ = filepath.Abs(in)
		}
		if out != "-" {
			out, _ = filepath.Abs(out)
		}
		work := filepath.Join(filepath.Dir(out), fmt.Sprintf("incl-work-%d", os.Getpid()))
		if err := os.MkdirAll(work, 0o755); err != nil {
			return err
		}
		defer os.RemoveAll(work)
		seq := 0
		// the working directory is process-wide: one case at a time
		return nd.Each(in, out, 1, func(line []byte) (interface{}, error) {
			var c inclCase
			if err := json.Unmarshal(line, &c); err != nil {
				return nil, err
			}
			seq++
			root := filepath.Join(work, "c"+strconv.Itoa(seq))
			defer func() {
				os.Chdir(work)
				os.RemoveAll(root)
			}()
			return runIncl(root, &c)
		})
	}
}
