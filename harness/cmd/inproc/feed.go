package main

import (
	"encoding/json"
	"strings"

	"github.com/cloudwego/thriftgo/generator"
	"github.com/cloudwego/thriftgo/generator/backend"
	"github.com/cloudwego/thriftgo/plugin"

	"verifharness/pkg/nd"
)

// C12: replay a TLC-generated history of Feed calls into the real FileManager and record,
// per call, the items handed in, whether Feed returned an error and what BuildResponse
// returns at that point.

type seg struct {
	T *string `json:"t,omitempty"`
	M *string `json:"m,omitempty"`
}

type feedItem struct {
	K       string `json:"k"`
	Name    string `json:"name,omitempty"`
	Content []seg  `json:"content,omitempty"`
	Pt      string `json:"pt,omitempty"`
	Text    string `json:"text,omitempty"`
}

type feedCase struct {
	H [][]feedItem `json:"h"`
}

type respFile struct {
	Name    string `json:"name"`
	Content string `json:"content"`
}

func renderContent(c []seg) string {
	var sb strings.Builder
	for _, s := range c {
		if s.M != nil {
			sb.WriteString(plugin.InsertionPoint(*s.M))
		} else if s.T != nil {
			sb.WriteString(*s.T)
		}
	}
	return sb.String()
}

func init() {
	subcommands["feed"] = func(in, out string) error {
		return nd.Each(in, out, 0, func(line []byte) (interface{}, error) {
			var c feedCase
			if err := json.Unmarshal(line, &c); err != nil {
				return nil, err
			}
			var trace []map[string]interface{}
			quiet := backend.LogFunc{
				Info:      func(v ...interface{}) {},
				Warn:      func(v ...interface{}) {},
				MultiWarn: func(ws []string) {},
			}
			fm := generator.NewFileManager(quiet)
			for _, call := range c.H {
				trace = append(trace, map[string]interface{}{"ev": "Begin"})
				var files []*plugin.Generated
				for _, it := range call {
					g := &plugin.Generated{}
					ev := map[string]interface{}{"ev": it.K}
					switch it.K {
					case "File":
						n := it.Name + ".go"
						g.Name = &n
						g.Content = renderContent(it.Content)
						ev["name"] = it.Name
						ev["content"] = it.Content
					case "UPatch":
						p := it.Pt
						g.InsertionPoint = &p
						g.Content = it.Text
						ev["pt"] = it.Pt
						ev["text"] = it.Text
					case "NPatch":
						n := it.Name + ".go"
						p := it.Pt
						g.Name = &n
						g.InsertionPoint = &p
						g.Content = it.Text
						ev["name"] = it.Name
						ev["pt"] = it.Pt
						ev["text"] = it.Text
					}
					files = append(files, g)
					trace = append(trace, ev)
				}
				var ferr error
				var resp []respFile
				p := nd.Guard(func() {
					ferr = fm.Feed("verif", files)
					r := fm.BuildResponse()
					for _, g := range r.Contents {
						resp = append(resp, respFile{Name: strings.TrimSuffix(g.GetName(), ".go"), Content: g.Content})
					}
				})
				end := map[string]interface{}{"ev": "End", "err": ferr != nil, "resp": resp, "panic": p != ""}
				if resp == nil {
					end["resp"] = []respFile{}
				}
				trace = append(trace, end)
			}
			return trace, nil
		})
	}
}
