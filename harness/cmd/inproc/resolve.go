package main

import (
	"encoding/json"
	"fmt"
	"os"
	"path/filepath"
	"strconv"
	"sync/atomic"
	"time"

	"github.com/cloudwego/thriftgo/parser"
	"github.com/cloudwego/thriftgo/semantic"

	"verifharness/pkg/nd"
)

// C05: materialize a rendered multi-file program, run the front end the way the compiler does
// (ParseFile recursive -> CircleDetect -> CheckAll -> ResolveSymbols) and project every reference
// node of every reachable file to what the resolver stored in the AST:
//
//	type node   -> {cat, td, ref:{name,idx}|null}
//	value ident -> {extra:{isEnum,idx,name,sel}|null}
//	service     -> {ref:{name,idx}|null}       (base service)
//	include     -> {used, path, file}
//
// keyed by a node path that does not depend on the order of the definitions in a file:
//
//	<file>|td:<alias>|type[.k|.v]*                <file>|const:<name>|type..   <file>|const:<name>|value[.l<i>|.m<i>k|.m<i>v]*
//	<file>|sl:<name>|f:<field>|type..             <file>|sl:<name>|f:<field>|default..
//	<file>|svc:<name>|fn:<fn>|ret..               <file>|svc:<name>|fn:<fn>|arg:<a>|type..   ..|throw:<e>|type..
//	<file>|svc:<name>|extends                     <file>|inc:<i>
//
// <file> is the path relative to the case directory. Errors, panics and time-outs are observations.

type resolveCase struct {
	ID    json.RawMessage   `json:"id"`
	Main  string            `json:"main"`
	Files map[string]string `json:"files"`
}

type refOut struct {
	Name string `json:"name"`
	Idx  int32  `json:"idx"`
}

type extraOut struct {
	IsEnum bool   `json:"isEnum"`
	Idx    int32  `json:"idx"`
	Name   string `json:"name"`
	Sel    string `json:"sel"`
}

type derefOut struct {
	File string `json:"file"`
	Name string `json:"name"`
	Cat  string `json:"cat"`
	Err  string `json:"err,omitempty"`
}

type nodeOut struct {
	K     string    `json:"k"` // type | value | extends | include
	Deref *derefOut `json:"deref,omitempty"`
	Cat   string    `json:"cat,omitempty"`
	Td    bool      `json:"td"`
	Ref   *refOut   `json:"ref"`
	Extra *extraOut `json:"extra"`
	Used  bool      `json:"used"`
	Path  string    `json:"path,omitempty"`
	File  string    `json:"file,omitempty"`
	Ident string    `json:"ident,omitempty"`
}

type resolveObs struct {
	ID    json.RawMessage              `json:"id"`
	Stage string                       `json:"stage"` // ok | parse | circle | check | resolve | panic | timeout
	Err   string                       `json:"err,omitempty"`
	Nodes map[string]*nodeOut          `json:"nodes,omitempty"`
	Files []string                     `json:"files,omitempty"`
	N2C   map[string]map[string]string `json:"n2c,omitempty"`
	Reqs  map[string]string            `json:"reqs,omitempty"`  // union field requiredness after resolution
	Again string                       `json:"again,omitempty"` // "same" | "differs" | error of a second ResolveSymbols call
}

func projType(root string, ast *parser.Thrift, out map[string]*nodeOut, key string, t *parser.Type) {
	if t == nil {
		return
	}
	n := &nodeOut{K: "type", Cat: t.Category.String(), Td: t.GetIsTypedef()}
	if t.Reference != nil {
		n.Ref = &refOut{Name: t.Reference.Name, Idx: t.Reference.Index}
	}
	// what a consumer reaches by following the stored binding (semantic.Deref)
	if p := nd.Guard(func() {
		a2, t2, err := semantic.Deref(ast, t)
		if err != nil {
			n.Deref = &derefOut{Err: err.Error()}
		} else {
			n.Deref = &derefOut{File: relTo(root, a2.Filename), Name: t2.Name, Cat: t2.Category.String()}
		}
	}); p != "" {
		n.Deref = &derefOut{Err: "panic: " + p}
	}
	out[key] = n
	if t.KeyType != nil {
		projType(root, ast, out, key+".k", t.KeyType)
	}
	if t.ValueType != nil {
		projType(root, ast, out, key+".v", t.ValueType)
	}
}

func projValue(out map[string]*nodeOut, key string, v *parser.ConstValue) {
	if v == nil {
		return
	}
	switch v.Type {
	case parser.ConstType_ConstIdentifier:
		n := &nodeOut{K: "value", Ident: v.TypedValue.GetIdentifier()}
		if v.Extra != nil {
			n.Extra = &extraOut{IsEnum: v.Extra.IsEnum, Idx: v.Extra.Index, Name: v.Extra.Name, Sel: v.Extra.Sel}
		}
		out[key] = n
	case parser.ConstType_ConstList:
		for i, e := range v.TypedValue.List {
			projValue(out, key+".l"+strconv.Itoa(i+1), e)
		}
	case parser.ConstType_ConstMap:
		for i, m := range v.TypedValue.Map {
			projValue(out, key+".m"+strconv.Itoa(i+1)+"k", m.Key)
			projValue(out, key+".m"+strconv.Itoa(i+1)+"v", m.Value)
		}
	}
}

func relTo(root, p string) string {
	if a, err := filepath.Abs(p); err == nil {
		p = a
	}
	if r, err := filepath.Rel(root, p); err == nil {
		return filepath.ToSlash(r)
	}
	return p
}

func projAST(root string, ast *parser.Thrift, obs *resolveObs, seen map[*parser.Thrift]bool) {
	if ast == nil || seen[ast] {
		return
	}
	seen[ast] = true
	f := relTo(root, ast.Filename)
	obs.Files = append(obs.Files, f)
	out := obs.Nodes
	n2c := map[string]string{}
	for k, c := range ast.Name2Category {
		n2c[k] = c.String()
	}
	obs.N2C[f] = n2c
	for i, inc := range ast.Includes {
		n := &nodeOut{K: "include", Used: inc.GetUsed(), Path: inc.Path}
		if inc.Reference != nil {
			n.File = relTo(root, inc.Reference.Filename)
		}
		out[f+"|inc:"+strconv.Itoa(i)] = n
	}
	for _, td := range ast.Typedefs {
		projType(root, ast, out, f+"|td:"+td.Alias+"|type", td.Type)
	}
	for _, c := range ast.Constants {
		projType(root, ast, out, f+"|const:"+c.Name+"|type", c.Type)
		projValue(out, f+"|const:"+c.Name+"|value", c.Value)
	}
	for _, s := range ast.GetStructLikes() {
		for _, fl := range s.Fields {
			k := f + "|sl:" + s.Name + "|f:" + fl.Name
			projType(root, ast, out, k+"|type", fl.Type)
			if fl.IsSetDefault() {
				projValue(out, k+"|default", fl.Default)
			}
			if s.Category == "union" {
				obs.Reqs[k] = fl.Requiredness.String()
			}
		}
	}
	for _, s := range ast.Services {
		if s.Extends != "" {
			n := &nodeOut{K: "extends", Ident: s.Extends}
			if s.Reference != nil {
				n.Ref = &refOut{Name: s.Reference.Name, Idx: s.Reference.Index}
			}
			out[f+"|svc:"+s.Name+"|extends"] = n
		}
		for _, fn := range s.Functions {
			k := f + "|svc:" + s.Name + "|fn:" + fn.Name
			if !fn.Void {
				projType(root, ast, out, k+"|ret", fn.FunctionType)
			}
			for _, a := range fn.Arguments {
				projType(root, ast, out, k+"|arg:"+a.Name+"|type", a.Type)
			}
			for _, a := range fn.Throws {
				projType(root, ast, out, k+"|throw:"+a.Name+"|type", a.Type)
			}
		}
	}
	for _, inc := range ast.Includes {
		projAST(root, inc.Reference, obs, seen)
	}
}

func runResolve(root string, c *resolveCase) *resolveObs {
	obs := &resolveObs{ID: c.ID, Stage: "ok"}
	for rel, text := range c.Files {
		p := filepath.Join(root, filepath.FromSlash(rel))
		if err := os.MkdirAll(filepath.Dir(p), 0o755); err != nil {
			obs.Stage, obs.Err = "harness", err.Error()
			return obs
		}
		if err := os.WriteFile(p, []byte(text), 0o644); err != nil {
			obs.Stage, obs.Err = "harness", err.Error()
			return obs
		}
	}
	done := make(chan struct{})
	go func() {
		defer close(done)
		p := nd.Guard(func() {
			ast, err := parser.ParseFile(filepath.Join(root, filepath.FromSlash(c.Main)), []string{root}, true)
			if err != nil {
				obs.Stage, obs.Err = "parse", err.Error()
				return
			}
			if path := parser.CircleDetect(ast); path != "" {
				obs.Stage, obs.Err = "circle", path
				return
			}
			if _, err := semantic.NewChecker(semantic.Options{FixWarnings: true}).CheckAll(ast); err != nil {
				obs.Stage, obs.Err = "check", err.Error()
				return
			}
			if err := semantic.ResolveSymbols(ast); err != nil {
				obs.Stage, obs.Err = "resolve", err.Error()
				return
			}
			obs.Nodes = map[string]*nodeOut{}
			obs.N2C = map[string]map[string]string{}
			obs.Reqs = map[string]string{}
			projAST(root, ast, obs, map[*parser.Thrift]bool{})
			// resolving an already resolved tree again must change nothing
			if err := semantic.ResolveSymbols(ast); err != nil {
				obs.Again = "error: " + err.Error()
			} else {
				o2 := &resolveObs{Nodes: map[string]*nodeOut{}, N2C: map[string]map[string]string{}, Reqs: map[string]string{}}
				projAST(root, ast, o2, map[*parser.Thrift]bool{})
				b1, _ := json.Marshal(obs.Nodes)
				b2, _ := json.Marshal(o2.Nodes)
				if string(b1) == string(b2) {
					obs.Again = "same"
				} else {
					obs.Again = "differs"
				}
			}
		})
		if p != "" {
			obs.Stage, obs.Err, obs.Nodes = "panic", p, nil
		}
	}()
	select {
	case <-done:
	case <-time.After(20 * time.Second):
		return &resolveObs{ID: c.ID, Stage: "timeout", Err: "front end did not return within 20s"}
	}
	return obs
}

func init() {
	subcommands["resolve"] = func(in, out string) error {
		if in != "-" {
			in, _ = filepath.Abs(in)
		}
		if out != "-" {
			out, _ = filepath.Abs(out)
		}
		work := os.Getenv("VERIF_RESOLVE_DIR")
		if work == "" {
			work = filepath.Join(filepath.Dir(out), fmt.Sprintf("resolve-work-%d", os.Getpid()))
		}
		if err := os.MkdirAll(work, 0o755); err != nil {
			return err
		}
		defer os.RemoveAll(work)
		// the parser tries an include path relative to the process working directory first: make that
		// an empty directory so only the includer's directory and the include dir can match.
		empty := filepath.Join(work, "cwd")
		if err := os.MkdirAll(empty, 0o755); err != nil {
			return err
		}
		if err := os.Chdir(empty); err != nil {
			return err
		}
		var seq int64
		return nd.Each(in, out, 0, func(line []byte) (interface{}, error) {
			var c resolveCase
			if err := json.Unmarshal(line, &c); err != nil {
				return nil, err
			}
			root := filepath.Join(work, "c"+strconv.FormatInt(atomic.AddInt64(&seq, 1), 10))
			defer os.RemoveAll(root)
			return runResolve(root, &c), nil
		})
	}
}
