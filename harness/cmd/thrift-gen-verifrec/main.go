// Command thrift-gen-verifrec is a scriptable recording plugin for property C11.
//
// thriftgo starts it like any external plugin (request on stdin, response expected on stdout).
// It decodes the request with the real plugin.UnmarshalRequest, writes a canonical JSON dump of
// what it decoded (pkg/c11canon) and then behaves as scripted.
//
// Control channel (plugin parameters, i.e. `-p verifrec=<path>:verif_dump=F,verif_script=F,...`):
//
//	verif_dump=<file>    where to write the dump of the decoded request (if the file exists -- the
//	                     plugin runs once per target language -- <file>.2, <file>.3 ... is used)
//	verif_full=1         include the whole canonical request in the dump, not only hashes and head
//	verif_script=<file>  JSON script (see type script); default: ok with no contents
//	verif_pid=<file>     where to write the pid (written before the script is executed)
//
// Every other parameter is payload under test and only shows up in the dump.  The environment
// variable VERIFREC_DIR, if set, names a directory where `pid` is written at start-up and
// `decode_error.json` when the request cannot be decoded (the parameters are unknown then).
package main

import (
	"encoding/hex"
	"encoding/json"
	"fmt"
	"io"
	"os"
	"os/exec"
	"path/filepath"
	"strconv"
	"strings"
	"time"

	"github.com/cloudwego/thriftgo/plugin"

	"verifharness/pkg/c11canon"
)

type item struct {
	K       string `json:"k"` // File | UPatch | NPatch
	Name    string `json:"name,omitempty"`
	Content string `json:"content,omitempty"`
	Pt      string `json:"pt,omitempty"`
	Text    string `json:"text,omitempty"`
}

type script struct {
	// ok: valid response on stdout, exit 0.  error: valid response with Error set, exit 0.
	// exit: exit with Exit (after writing a valid response if WriteFirst).  garbage: write
	// GarbageHex, exit 0.  partial: write the first Cut bytes of the valid response (Cut < 0: all
	// but the last -Cut bytes), exit 0.  empty: write nothing, exit 0.  hang: never finish.
	// childhang: start a child that inherits stdout and sleeps ChildMs, then hang.
	Mode       string   `json:"mode"`
	Items      []item   `json:"items,omitempty"`
	Warnings   []string `json:"warnings,omitempty"`
	Error      *string  `json:"error,omitempty"`
	Exit       int      `json:"exit,omitempty"`
	WriteFirst bool     `json:"write_first,omitempty"`
	GarbageHex string   `json:"garbage_hex,omitempty"`
	Cut        int      `json:"cut,omitempty"`
	CutPermil  int      `json:"cut_permil,omitempty"` // if > 0: Cut = len * CutPermil / 1000
	Stderr     string   `json:"stderr,omitempty"`
	DelayMs    int      `json:"delay_ms,omitempty"`
	ChildMs    int      `json:"child_ms,omitempty"`
	RespLen    string   `json:"resp_len_file,omitempty"` // write the length of the valid response here
}

// hasTrailer looks for the include-compression trailer in the raw request bytes, independently
// of the code under test: <feature byte with bit 0 set> "\xffTHRIFTGO_TRAILER_V1\xff" at the end.
func hasTrailer(data []byte) bool {
	const tr = "\xffTHRIFTGO_TRAILER_V1\xff"
	return len(data) > len(tr) && strings.HasSuffix(string(data), tr) && data[len(data)-len(tr)-1]&1 == 1
}

func writeFile(path string, b []byte) {
	if path == "" {
		return
	}
	tmp := path + ".tmp"
	if err := os.WriteFile(tmp, b, 0o644); err == nil {
		_ = os.Rename(tmp, path)
	}
}

func main() {
	envDir := os.Getenv("VERIFREC_DIR")
	pid := []byte(strconv.Itoa(os.Getpid()))
	if envDir != "" {
		writeFile(filepath.Join(envDir, "pid"), pid)
	}
	data, err := io.ReadAll(os.Stdin)
	if err != nil {
		fmt.Fprintln(os.Stderr, "verifrec: read stdin:", err)
		os.Exit(96)
	}
	var req *plugin.Request
	perr := func() (msg string) {
		defer func() {
			if r := recover(); r != nil {
				msg = fmt.Sprint("panic: ", r)
			}
		}()
		var e error
		req, e = plugin.UnmarshalRequest(data)
		if e != nil {
			return e.Error()
		}
		return ""
	}()
	if perr != "" {
		if envDir != "" {
			writeFile(filepath.Join(envDir, "decode_error.json"),
				c11canon.JSON(&c11canon.Dump{Err: perr, Extra: map[string]interface{}{"rawlen": len(data)}}))
		}
		fmt.Fprintln(os.Stderr, "verifrec: cannot decode request:", perr)
		os.Exit(97)
	}
	var dumpF, scriptF, pidF string
	full := false
	for _, p := range req.PluginParameters {
		kv := strings.SplitN(p, "=", 2)
		if len(kv) != 2 {
			continue
		}
		switch kv[0] {
		case "verif_dump":
			if dumpF == "" {
				dumpF = kv[1]
			}
		case "verif_script":
			if scriptF == "" {
				scriptF = kv[1]
			}
		case "verif_full":
			full = kv[1] == "1"
		case "verif_pid":
			if pidF == "" {
				pidF = kv[1]
			}
		}
	}
	writeFile(pidF, pid)
	if dumpF == "" && envDir != "" {
		// a plugin given NO options at all (`-p name=path`): the request is dumped under the environment's directory
		dumpF = filepath.Join(envDir, "dump-noctl.json")
	}
	if dumpF != "" {
		for k := 2; k < 100; k++ {
			if _, err := os.Stat(dumpF); err != nil {
				break
			}
			dumpF = fmt.Sprintf("%s.%d", strings.TrimSuffix(dumpF, fmt.Sprintf(".%d", k-1)), k)
		}
		d := c11canon.Of(req, full)
		d.Extra = map[string]interface{}{
			"rawlen":  len(data),
			"trailer": hasTrailer(data),
		}
		writeFile(dumpF, c11canon.JSON(d))
	}
	sc := script{Mode: "ok"}
	if scriptF != "" {
		b, err := os.ReadFile(scriptF)
		if err != nil {
			fmt.Fprintln(os.Stderr, "verifrec: script:", err)
			os.Exit(95)
		}
		if err := json.Unmarshal(b, &sc); err != nil {
			fmt.Fprintln(os.Stderr, "verifrec: script:", err)
			os.Exit(95)
		}
	}
	res := plugin.NewResponse()
	for _, it := range sc.Items {
		it := it
		g := &plugin.Generated{}
		switch it.K {
		case "File":
			g.Name = &it.Name
			g.Content = it.Content
		case "UPatch":
			g.InsertionPoint = &it.Pt
			g.Content = it.Text
		case "NPatch":
			g.Name = &it.Name
			g.InsertionPoint = &it.Pt
			g.Content = it.Text
		}
		res.Contents = append(res.Contents, g)
	}
	res.Warnings = sc.Warnings
	if sc.Mode == "error" || sc.Error != nil {
		e := "verifrec scripted error"
		if sc.Error != nil {
			e = *sc.Error
		}
		res.Error = &e
	}
	valid, err := plugin.MarshalResponse(res)
	if err != nil {
		fmt.Fprintln(os.Stderr, "verifrec: marshal:", err)
		os.Exit(94)
	}
	if sc.RespLen != "" {
		writeFile(sc.RespLen, []byte(strconv.Itoa(len(valid))))
	}
	if sc.Stderr != "" {
		fmt.Fprint(os.Stderr, sc.Stderr)
	}
	if sc.DelayMs > 0 {
		time.Sleep(time.Duration(sc.DelayMs) * time.Millisecond)
	}
	switch sc.Mode {
	case "ok", "error":
		os.Stdout.Write(valid)
		os.Exit(0)
	case "exit":
		if sc.WriteFirst {
			os.Stdout.Write(valid)
		}
		os.Exit(sc.Exit)
	case "garbage":
		b, _ := hex.DecodeString(sc.GarbageHex)
		os.Stdout.Write(b)
		os.Exit(0)
	case "partial":
		n := sc.Cut
		if sc.CutPermil > 0 {
			n = len(valid) * sc.CutPermil / 1000
		}
		if n < 0 {
			n = len(valid) + n
		}
		if n < 0 {
			n = 0
		}
		if n > len(valid)-1 { // always a proper prefix
			n = len(valid) - 1
		}
		os.Stdout.Write(valid[:n])
		os.Exit(0)
	case "empty":
		os.Exit(0)
	case "hang":
		for {
			time.Sleep(time.Hour)
		}
	case "childhang":
		ms := sc.ChildMs
		if ms <= 0 {
			ms = 1500
		}
		c := exec.Command("sleep", fmt.Sprintf("%d.%03d", ms/1000, ms%1000))
		c.Stdout = os.Stdout
		c.Stderr = os.Stderr
		_ = c.Start()
		for {
			time.Sleep(time.Hour)
		}
	}
	fmt.Fprintln(os.Stderr, "verifrec: unknown mode", sc.Mode)
	os.Exit(93)
}
