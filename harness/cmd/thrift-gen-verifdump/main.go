// Command thrift-gen-verifdump is a thriftgo plugin used by the C07 (determinism) check.
//
// It records, byte for byte, what thriftgo sent on stdin into the file named by the plugin
// parameter out=<file> (fallback: environment variable VERIFDUMP_OUT) and answers with an OK
// response.  With parameters patch=<path relative to the request's OutputPath> (repeatable) it
// additionally returns, for each such file, one patch for the insertion points "bof" and "eof"
// and one patch for an insertion point that does not exist, plus one new file, so that the
// file manager's patching path is exercised too.  The answer is a function of the parameters only.
//
//	thriftgo -g go -p verifdump=/path/to/thrift-gen-verifdump:out=/tmp/req.bin[,patch=pkg/a.go] a.thrift
package main

import (
	"fmt"
	"io/ioutil"
	"os"
	"path/filepath"
	"strings"

	"github.com/cloudwego/thriftgo/plugin"
)

func fail(code int, a ...interface{}) {
	fmt.Fprintln(os.Stderr, a...)
	os.Exit(code)
}

func main() {
	data, err := ioutil.ReadAll(os.Stdin)
	if err != nil {
		fail(3, "verifdump: read stdin:", err)
	}
	out := os.Getenv("VERIFDUMP_OUT")
	var patches []string
	outputPath := ""
	req, uerr := plugin.UnmarshalRequest(data)
	if uerr == nil && req != nil {
		outputPath = req.OutputPath
		for _, p := range req.PluginParameters {
			kv := strings.SplitN(p, "=", 2)
			if len(kv) != 2 {
				continue
			}
			switch kv[0] {
			case "out":
				out = kv[1]
			case "patch":
				patches = append(patches, kv[1])
			}
		}
	}
	if out == "" {
		fail(4, "verifdump: no out=<file> parameter (unmarshal error:", uerr, ")")
	}
	if err := ioutil.WriteFile(out, data, 0o644); err != nil {
		fail(5, "verifdump: write:", err)
	}
	res := plugin.NewResponse()
	for _, rel := range patches {
		name := filepath.Join(outputPath, rel)
		for _, pt := range []string{"bof", "eof", "verifdump_no_such_point"} {
			n, p := name, pt
			res.Contents = append(res.Contents, &plugin.Generated{
				Content:        "// verifdump patch at " + pt + " of " + rel + "\n",
				Name:           &n,
				InsertionPoint: &p,
			})
		}
	}
	if len(patches) > 0 {
		n := filepath.Join(outputPath, "verifdump_extra.txt")
		res.Contents = append(res.Contents, &plugin.Generated{
			Content: "extra file from verifdump: " + strings.Join(patches, " ") + "\n",
			Name:    &n,
		})
	}
	bs, err := plugin.MarshalResponse(res)
	if err != nil {
		fail(6, "verifdump: marshal response:", err)
	}
	if _, err := os.Stdout.Write(bs); err != nil {
		fail(7, "verifdump: write stdout:", err)
	}
}
