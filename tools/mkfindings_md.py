#!/usr/bin/env python3
"""Regenerates DESIGN.md sections 12.5 / 12.6 from known_findings.json."""
import json, os, re
V = os.path.dirname(os.path.dirname(os.path.abspath(__file__)))
d = json.load(open(os.path.join(V, "known_findings.json")))
fx = [f for f in d["findings"] if f["status"] == "fixed"]
kn = [f for f in d["findings"] if f["status"] == "known"]
fx.sort(key=lambda f: f["property"]); kn.sort(key=lambda f: f["property"])
out = ["### 12.5 Genuine defects found by the checks and repaired in /repo (`fix:` commits; known_findings.json \"fixed\")",
       "Each was first reported as a VIOLATION by the named property's check on the pinned tree, reproduced against the real code, "
       "repaired by one minimal unguarded `fix:` commit, and the check passes on the repaired tree (a fixed entry suppresses nothing).",
       "", "| property | commit | what failed |", "|---|---|---|"]
for f in fx:
    w = re.sub(r"^fixed: property=\S+ \S+ ", "", f["what"]).replace("|", "\\|")
    out.append("| %s | %s | %s |" % (f["property"], f["commit"], w))
out += ["", "### 12.6 Known findings (recorded, not repaired; matched by the class record of the violating case)", "",
        "| id | property | why not repaired / what fails |", "|---|---|---|"]
for f in kn:
    out.append("| %s | %s | %s |" % (f["id"], f["property"], f["what"].replace("|", "\\|")))
p = os.path.join(V, "DESIGN.md")
s = open(p).read()
i = s.index("### 12.5 ")
j = s.find("\n### 12.7", i)
tail = s[j:] if j > 0 else "\n"
open(p, "w").write(s[:i] + "\n".join(out) + "\n" + tail)
print(len(fx), "fixed,", len(kn), "known")
