#!/usr/bin/env python3
"""Regenerates /verif/MANIFEST.json from the table in checks/registry.py (one source of truth)."""
import json
import os
import subprocess
import sys

VERIF = os.path.dirname(os.path.dirname(os.path.abspath(__file__)))
sys.path.insert(0, os.path.join(VERIF, "checks"))
sys.path.insert(0, os.path.join(VERIF, "lib"))
import registry  # noqa: E402

props = [json.loads(l)["id"] for l in open(os.path.join(VERIF, "properties.jsonl"))]
checks = []
for pid in props:
    c = registry.CHECKS.get(pid)
    if not c:
        continue
    checks.append({
        "property_id": pid,
        "quick_cmd": "bin/check %s --tier quick" % pid,
        "thorough_cmd": "bin/check %s --tier thorough" % pid,
        "evidence_file": "/verif/evidence/%s.json" % pid,
        "replay_cmd_template": "bin/check %s --replay {path}" % pid,
        "engine": c.get("engine", "tlc+harness"),
        "level_claimed": {"category": c["level"], "text": c["text"], "design_ref": c["design_ref"]},
        "level_note": c["note"],
        "technique": c["technique"],
    })
na = [{"property_id": pid, "reason": registry.NOT_APPLICABLE.get(pid, "check not built yet in this round; design in DESIGN.md section 6")}
      for pid in props if pid not in registry.CHECKS]
hooks = subprocess.run(["git", "-C", "/repo", "log", "--format=%h %s", "--grep=^verif-hook:"],
                       stdout=subprocess.PIPE, text=True).stdout.strip().splitlines()
m = {
    "version": 1,
    "setup_cmd": "bin/setup",
    "hooks": {
        "guard": "verif",
        "enable": "go build -tags verif (bin/check builds /repo's binaries and the harness in /verif/harness with -tags verif)",
        "baseline_off_cmd": "cd /repo && for m in . ./tests/fieldmask ./tests/unknown_fields; do (cd $m && GOFLAGS=-mod=mod GOPROXY=off GOSUMDB=off go test -vet=off -count=1 -timeout 25m ./...) || exit 1; done",
        "source_commits": [h.split()[0] for h in hooks],
        "add_only": True,
    },
    "engines": registry.ENGINES,
    "checks": checks,
    "not_applicable": na,
    "notes": registry.NOTES,
}
with open(os.path.join(VERIF, "MANIFEST.json"), "w") as fh:
    json.dump(m, fh, indent=1)
    fh.write("\n")
print("MANIFEST.json: %d checks, %d not_applicable" % (len(checks), len(na)))
