#!/usr/bin/env python3
"""Regenerates DESIGN.md section 12.4 (seeded changes) from seeded/*/*/meta.json."""
import glob, json, os
V = os.path.dirname(os.path.dirname(os.path.abspath(__file__)))
rows = []
for mp in sorted(glob.glob(os.path.join(V, "seeded", "*", "*", "meta.json"))):
    m = json.load(open(mp))
    name = os.path.basename(os.path.dirname(mp))
    what = (m.get("what") or "").replace("|", "\\|").replace("\n", " ")
    needs = (m.get("needs") or "").replace("|", "\\|").replace("\n", " ")
    note = (m.get("detection_note") or "").replace("|", "\\|").replace("\n", " ")
    rows.append((m.get("property"), name, what[:300], needs[:300], "yes" if m.get("detected_by_check") else "NO", note[:420]))
out = ["### 12.4 Seeded changes (sub-agents given only a property's text and a scratch worktree) — which check catches which",
       "Every change below was produced by a fresh sub-agent that saw only the property and its own worktree of the repository; "
       "each compiles, passes the repository's tests, and its demonstration fails only with the patch (confirmed with "
       "`tools/trymutant.sh`: patch applied to a scratch worktree of /repo HEAD, `go build`, `go test ./...`, demo both ways, "
       "then `VERIF_REPO=<worktree> bin/check <id>`). Kept under `seeded/<id>/<name>/` (patch.diff, demonstration, meta.json). "
       "%d changes, %d detected by the property's quick check. Rounds 1 and 2 (names m*, r2m*): where the first run missed a change "
       "the universe / oracle was strengthened until it was caught, and the note says how. Round 3 (names r3m*): strengthened as "
       "far as the session allowed; rows marked NO are changes the property's quick check does NOT detect yet, with what they "
       "would need." % (len(rows), sum(1 for r in rows if r[4] == "yes")),
       "", "| property | seeded change | what it needs to manifest | detected | how / what had to be strengthened |", "|---|---|---|---|---|"]
for r in rows:
    out.append("| %s | %s: %s | %s | %s | %s |" % (r[0], r[1], r[2], r[3], r[4], r[5]))
p = os.path.join(V, "DESIGN.md")
s = open(p).read()
i = s.index("### 12.4 ")
j = s.index("### 12.5 ", i)
open(p, "w").write(s[:i] + "\n".join(out) + "\n\n" + s[j:])
print(len(rows), "seeded changes")
