#!/bin/sh
# usage: trymutant.sh <seedout dir (has patch.diff, demo.sh)> <property id> [tier]
# applies the patch to the scratch worktree /var/tmp/repo-mut, runs the demo both ways, the repo tests, and the check.
set -u
D=$1; P=$2; T=${3:-quick}
W=${MUTW:-/var/tmp/repo-mut}
export GOFLAGS=-mod=mod GOPROXY=off GOSUMDB=off GOTOOLCHAIN=local
git -C $W checkout -q -- . && git -C $W clean -fdq && git -C $W checkout -q --detach $(git -C /repo rev-parse HEAD)
echo "== demo on clean tree (expect 0)"; (cd $D && sh ./demo.sh $W >/tmp/demo-clean.$$.log 2>&1); echo "rc=$?"
git -C $W apply $D/patch.diff || { echo "PATCH DOES NOT APPLY"; exit 3; }
echo "== build+tests with patch"; (cd $W && go build ./... && go test -vet=off -count=1 ./... 2>&1 | grep -v "no test files" | grep -v "^ok" | head -5); echo "tests-rc=$?"
echo "== demo with patch (expect non-zero)"; (cd $D && sh ./demo.sh $W >/tmp/demo-mut.$$.log 2>&1); echo "rc=$?"
echo "== check $P against mutant (expect exit 1)"
(cd /verif && VERIF_REPO=$W VERIF_KEEP_REPLAY=1 timeout 3000 bin/check $P --tier $T 2>&1 | grep -v '^"CASE' | tail -4); echo "check-rc=$?"
git -C $W checkout -q -- . && git -C $W clean -fdq
