#!/bin/sh
# usage: applyfix.sh <diff> <commit message file>
# applies a pending fix to /repo, builds, runs the tests of the touched packages, commits it as one "fix:" commit
set -e
D=$1; M=$2
export GOFLAGS=-mod=mod GOPROXY=off GOSUMDB=off GOTOOLCHAIN=local
cd /repo
test -z "$(git status --short)" || { echo "/repo dirty"; git status --short; exit 3; }
git apply --index "$D"
go build ./... 
PK=$(git diff --cached --name-only | xargs -n1 dirname | sort -u | sed 's#^#./#')
go test -vet=off -count=1 $PK 2>&1 | grep -v "no test files" | tail -5
head -1 "$M" | grep -q '^fix:' || { echo "message must start with fix:"; exit 4; }
git commit -q -F "$M"
git log --oneline | head -1
