#!/usr/bin/env python3
"""Binding self-test (DESIGN 9): the trace specifications must REJECT corrupted traces and ACCEPT the originals.

For C12 (Trace_FileManager) and C02 (Trace_Wire) a handful of real traces is recorded from the code under /repo,
validated (all accepted), then each is corrupted in one logged field / one dropped event / one swapped pair and validated
again (all rejected). Exit 0 iff every original is accepted and every corruption rejected.  Not a property check: it is
evidence that the specifications are bound to what the code logs, not merely to the length of the log.
"""
import copy
import json
import os
import sys

V = os.path.dirname(os.path.dirname(os.path.abspath(__file__)))
sys.path.insert(0, os.path.join(V, "lib"))
sys.path.insert(0, os.path.join(V, "checks"))
import vlib  # noqa: E402


def accepted(ctx, specdir, module, cfg, files):
    r = ctx.tlc(specdir, module, cfg, files=files, timeout=600, workers=4)
    return {int(s[4:]) for s in r["lines"] if s.startswith("ACC ")}


def c12(ctx):
    inproc = ctx.build_harness("inproc")
    X = [{"t": "x"}]
    XP = [{"t": "x"}, {"m": "p"}, {"t": "y"}]
    hist = [
        [[{"k": "File", "name": "a", "content": XP}, {"k": "UPatch", "pt": "p", "text": "P"},
          {"k": "UPatch", "pt": "p", "text": "Q"}]],
        [[{"k": "File", "name": "a", "content": X}], [{"k": "File", "name": "a", "content": XP},
                                                       {"k": "NPatch", "name": "a", "pt": "p", "text": "P"}]],
        [[{"k": "File", "name": "a", "content": X}, {"k": "File", "name": "a_1", "content": XP},
          {"k": "File", "name": "a", "content": [{"t": "y"}]}]],
    ]
    cf, tf = ctx.path("st12-cases.ndjson"), ctx.path("st12-traces.ndjson")
    vlib.write_ndjson(cf, [{"h": h} for h in hist])
    ctx.run([inproc, "feed", cf, tf])
    traces = vlib.read_ndjson(tf)
    ok = accepted(ctx, "FileManager", "Trace_FileManager", "Trace_FileManager", {"traces.ndjson": tf})
    assert ok == set(range(1, len(traces) + 1)), ("originals rejected", ok)
    bad = []
    for t in traces:
        # (1) corrupt one logged field of the response
        c = copy.deepcopy(t)
        end = [e for e in c if e["ev"] == "End"][-1]
        end["resp"][0]["content"] += "!"
        bad.append(c)
        # (2) drop one response file
        c = copy.deepcopy(t)
        end = [e for e in c if e["ev"] == "End"][-1]
        end["resp"] = end["resp"][1:]
        bad.append(c)
        # (3) drop an input event (the response then shows something never submitted)
        c = copy.deepcopy(t)
        i = next(i for i, e in enumerate(c) if e["ev"] in ("File", "UPatch", "NPatch"))
        del c[i]
        bad.append(c)
        # (4) flip the error flag
        c = copy.deepcopy(t)
        end = [e for e in c if e["ev"] == "End"][-1]
        end["err"] = not end["err"]
        bad.append(c)
    bf = ctx.path("st12-bad.ndjson")
    vlib.write_ndjson(bf, bad)
    okb = accepted(ctx, "FileManager", "Trace_FileManager", "Trace_FileManager", {"traces.ndjson": bf})
    # a dropped input may leave a trace that is still a behaviour (e.g. dropping the 2nd of two patches when the
    # response is corrupted elsewhere cannot happen here: responses are untouched) -> all must be rejected
    return len(traces), len(bad), sorted(okb)


def c02(ctx):
    sc = {"structs": [{"name": "S", "kind": "struct", "fields": [
        {"id": 1, "req": "required", "name": "a", "type": {"n": "i32"}, "def": {"none": True}, "w": 0},
        {"id": 2, "req": "default", "name": "l", "type": {"n": "list", "v": {"n": "string"}}, "def": {"none": True}, "w": 0},
        {"id": 3, "req": "optional", "name": "m", "type": {"n": "map", "k": {"n": "i32"}, "v": {"n": "bool"}},
         "def": {"none": True}, "w": 0}]}], "enums": [[0]]}
    v = {"s": {"a": {"a": "i32:7"}, "l": {"l": [{"a": "str:x"}, {"a": "str:y"}]},
               "m": {"m": [[{"a": "i32:1"}, {"a": "b:1"}], [{"a": "i32:2"}, {"a": "b:0"}]]}}}

    def V(ty, a):
        return {"t": "V", "ty": ty, "a": a}
    good = [{"t": "SB"}, {"t": "FB", "ty": 8, "id": 1}, V(8, "i32:7"), {"t": "FE"},
            {"t": "FB", "ty": 13, "id": 3}, {"t": "MB", "k": 8, "v": 2, "n": 2}, V(8, "i32:2"), V(2, "b:0"), V(8, "i32:1"),
            V(2, "b:1"), {"t": "ME"}, {"t": "FE"},
            {"t": "FB", "ty": 15, "id": 2}, {"t": "LB", "e": 11, "n": 2}, V(11, "str:x"), V(11, "str:y"), {"t": "LE"}, {"t": "FE"},
            {"t": "STOP"}, {"t": "SE"}]
    rows = [{"s": 1, "v": v, "toks": good, "err": False}]
    muts = []

    def mut(f):
        t = copy.deepcopy(good)
        f(t)
        muts.append({"s": 1, "v": v, "toks": t, "err": False})
    mut(lambda t: t[1].__setitem__("id", 4))            # wrong field id
    mut(lambda t: t[1].__setitem__("ty", 10))           # wrong wire type in the field header
    mut(lambda t: t[5].__setitem__("n", 3))             # header count != elements
    mut(lambda t: t[2].__setitem__("a", "i32:8"))       # wrong scalar
    mut(lambda t: t.__delitem__(3))                     # missing FieldEnd
    mut(lambda t: t.__setitem__(slice(14, 16), [t[15], t[14]]))   # list elements swapped (lists are ordered)
    mut(lambda t: t.__delitem__(slice(4, 12)))          # optional but set field not written
    muts.append({"s": 1, "v": v, "toks": good, "err": True})      # error although writable
    files = {"schema.json": json.dumps(sc)}
    gf, bf = ctx.path("st02-good.ndjson"), ctx.path("st02-bad.ndjson")
    vlib.write_ndjson(gf, rows)
    vlib.write_ndjson(bf, muts)
    ok = accepted(ctx, "Wire", "Trace_Wire", "Trace_Wire", dict(files, **{"traces.ndjson": gf}))
    assert ok == {1}, ("original (fields in another order, map entries in another order) rejected", ok)
    okb = accepted(ctx, "Wire", "Trace_Wire", "Trace_Wire", dict(files, **{"traces.ndjson": bf}))
    return 1, len(muts), sorted(okb)


def main():
    ctx = vlib.Ctx("SELFTEST")
    rc = 0
    for name, fn in (("C12 Trace_FileManager", c12), ("C02 Trace_Wire", c02)):
        n, nb, acc = fn(ctx)
        print("%s: %d original trace(s) accepted; %d corrupted trace(s), accepted: %s" % (name, n, nb, acc))
        if acc:
            rc = 1
    print("SELFTEST", "OK" if rc == 0 else "FAILED")
    return rc


if __name__ == "__main__":
    sys.exit(main())
