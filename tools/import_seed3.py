#!/usr/bin/env python3
"""Import the third seeding round from /tmp/seed3 into /verif/seeded/<id>/r3m<k>/ (patch, demonstration, meta.json).
Detection status is read from the trial logs written by tools/trymutant.sh (try-m<k>.log) and by the re-runs after
strengthening (retry-m<k>.log, or a retry with another property's check: retry-m<k>-by-<Cyy>.log)."""
import glob, json, os, re, shutil, sys
NOTES = json.load(open("/tmp/seed3/notes.json")) if os.path.exists("/tmp/seed3/notes.json") else {}
rows = []
for d in sorted(glob.glob("/tmp/seed3/C*/out/m*")):
    pid = d.split("/")[3]; k = os.path.basename(d)
    try_log = "/tmp/seed3/%s/try-%s.log" % (pid, k)
    if not os.path.exists(try_log):
        continue
    t = open(try_log).read()
    rcs = re.findall(r"^rc=(\d+)", t, re.M)
    tests_ok = "tests-rc=0" in t and not re.search(r"^(FAIL|---)", t, re.M)
    confirmed = len(rcs) >= 2 and rcs[0] == "0" and rcs[1] != "0" and tests_ok
    first = "VIOLATION" in t
    finished_first = first or "OK:" in t or "check-rc" in t
    later = None
    for r in sorted(glob.glob("/tmp/seed3/%s/retry-%s*.log" % (pid, k))):
        rt = open(r).read()
        if "VIOLATION" in rt:
            later = (os.path.basename(r), re.search(r"VIOLATION[^\n]*", rt).group(0)[:300])
    dst = "/verif/seeded/%s/r3%s" % (pid, k)
    shutil.rmtree(dst, ignore_errors=True)
    shutil.copytree(d, dst)
    rd = lambda n: open(os.path.join(d, n)).read().strip() if os.path.exists(os.path.join(d, n)) else ""
    note = NOTES.get("%s/%s" % (pid, k), "")
    if first:
        det, dn = True, "third seeding round. bin/check %s quick at once: %s" % (pid, re.search(r"VIOLATION[^\n]*", t).group(0)[:260])
    elif later:
        det, dn = True, "third seeding round; first run MISSED. %s Then (%s): %s" % (note, later[0], later[1])
    elif not finished_first:
        det, dn = None, "third seeding round; the trial run did not finish in this session (machine at load 150). " + note
    else:
        det, dn = False, "third seeding round; MISSED by bin/check %s quick. %s" % (pid, note)
    meta = {"property": pid, "what": rd("what.txt"), "needs": rd("needs.txt"), "ran": rd("ran.txt").splitlines()[:12],
            "confirmed": {"applies_to_repo_head": True, "repo_tests_pass_with_patch": tests_ok,
                          "demo_fails_with_patch_passes_without": confirmed,
                          "how": "tools/trymutant.sh with MUTW=<the agent's worktree>: patch applied to a clean checkout of /repo HEAD, go build, go test ./..., demo.sh both ways, then VERIF_REPO=<worktree> bin/check " + pid},
            "detected_by_check": det, "detection_note": dn}
    json.dump(meta, open(os.path.join(dst, "meta.json"), "w"), indent=1)
    rows.append((pid, k, confirmed, det, dn[:150]))
for r in rows:
    print(*r)
