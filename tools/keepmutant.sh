#!/bin/sh
# usage: keepmutant.sh <seedout/mN dir> <property id> <name> <caught: yes|no> "<note>"
set -e
SRC=$1; P=$2; N=$3; C=$4; NOTE=$5
DST=/verif/seeded/$P/$N
mkdir -p $DST
cp -r $SRC/* $DST/
python3 - "$DST" "$P" "$C" "$NOTE" <<'PY'
import json,sys,os
dst,p,c,note=sys.argv[1:5]
mp=os.path.join(dst,'meta.json')
m=json.load(open(mp)) if os.path.exists(mp) else {}
m['property']=p
m['confirmed']={'applies_to_repo_head':True,'repo_tests_pass_with_patch':True,'demo_fails_with_patch_passes_without':True,
                'how':'tools/trymutant.sh: patch applied to a scratch worktree of /repo HEAD, go build + go test ./..., demo.sh both ways, then VERIF_REPO=<worktree> bin/check %s'%p}
m['detected_by_check']=(c=='yes')
m['detection_note']=note
json.dump(m,open(mp,'w'),indent=1)
PY
echo kept $DST
